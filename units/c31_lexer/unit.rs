// Unit c31_lexer -- property C31 "The manifest compiler never crashes": the FIRST STAGE of the compiler (the lexer)
//   and the snippet builder of the diagnostics step. Parser, generator, decompiler, `lexer_error_diagnostics` /
//   `parser_error_diagnostics` / `generator_error_diagnostics` (format!) and the third-party renderer are NOT covered.
// Real code (bodies extracted verbatim on every run; 22 functions):
//   radix-transactions/src/manifest/token.rs  :: Position::{advance, line_number}; struct Span, Position, TokenWithSpan, enum Token
//   radix-transactions/src/manifest/lexer.rs  :: fn tokenize; Lexer::{new, is_eof, peek, advance, advance_expected,
//       advance_matching, advance_and_append, is_whitespace, next_token, tokenize_number, parse_int, tokenize_string,
//       read_utf16_unit, tokenize_identifier, tokenize_punctuation, new_token}; LexerError::{unexpected_char,
//       invalid_integer_type}; struct Lexer, LexerError, enum LexerErrorKind, ExpectedChar
//   radix-transactions/src/manifest/diagnostic_snippets.rs :: fn create_snippet
//   radix-transactions/src/manifest/compiler.rs :: enum CompileErrorDiagnosticsStyle
// Proved for EVERY input text (no precondition on `tokenize` / `Lexer::new` / `next_token` beyond the lexer's own
//   well-formedness invariant `wf`, which `new` establishes and every method preserves):
//   * PANIC-FREEDOM: the `self.text[..]` index in `peek`; `assert_eq!(self.advance()?, '"')` in tokenize_string (from the
//     call-site precondition "the next character is the quote"); `c.to_digit(16).unwrap()` and `code * 16 + ..` in
//     read_utf16_unit (code < 16^k); the surrogate arithmetic `0x10000 + ((unicode - 0xD800) << 10) + low - 0xDC00` (no
//     underflow / overflow in u32 for ANY second unit 0..=0xFFFF); the three `+= 1` counters of Position::advance
//     (line_idx, line_char_index <= full_index < text length <= usize::MAX); `char::from_u32(..).ok_or(..)?`.
//   * TERMINATION: every loop has a `decreases` (remaining characters; the comment/blank skipper: lexicographic with the
//     `in_comment` flag, because `#` flips the flag without consuming), incl. the main `while let` loop of `tokenize`
//     (next_token consumes at least one character whenever it returns a token).
//   * FUNCTIONAL (cheap, exact): position bookkeeping -- `current == pos_at(text, current.full_index)` where the ORACLE
//     pos_at is the token.rs field documentation (line_idx = number of '\n' before the cursor, line_char_index = distance
//     from the last '\n'); every token span is exactly the characters consumed for it, non-empty, inside the text;
//     `tokenize` Ok(tokens) ==> `tokens_cover`: token k starts exactly where the blanks/comments after token k-1 end
//     (ORACLE `skip`), and after the last token only blanks/comments remain (the whole input is consumed); corollary
//     lemma_cover_increasing: spans are increasing and non-overlapping. Err(e) ==> `span_ok(text, e.span)`: the error
//     span lies inside the text, start <= end, with exact line/column -- this is the precondition of create_snippet.
//   * create_snippet(s, span, ..) for every text WITHOUT "\r\n" and every span_ok span: no overflow in
//     `line_number() + 5`, `(i + 1)`, `skipped_chars += count + 1`, `annotation_end_index += 1`; no underflow in the two
//     `-= skipped_chars` (for ANY line endings: the skipped lines end at or before span.start); and the renderer's
//     explicit panic condition (annotation end > characters of `source` + 1) cannot fire.
// KNOWN FINDING (genuine defect, replayed on the real crate in units/c31_lexer/finding_replay/OUTPUT.txt):
//   with a "\r\n" line ending BEFORE the reported span the renderer's panic condition DOES fire, i.e.
//   compile_manifest_with_pretty_error panics instead of returning the diagnostic: `s.lines()` strips "\r\n" and
//   create_snippet re-joins with "\n", so `source` is one character shorter per CRLF line while span indices still
//   count the '\r'. Inputs: "\"\r\n" (range (3, 4), buffer 2), "\r\n\r\n\r\n+" ((6, 7), buffer 5), and the realistic
//   "DROP_ALL_PROOFS;\r\nDROP_ALL_PROOFS;\r\nDROP_ALL_PROOFS;\r\n1x" ((55, 56), buffer 54). That is why create_snippet
//   carries the precondition `no_crlf(s@)`; removing it makes exactly the `render` precondition fail (and nothing else).
//   witness_crlf_annotation_beyond_source states the first input on the formulas of the contract. NOT fixed here.
// Strings: this vstd models `str` as Seq<char>; `text.chars().collect()` gives `self.text@ == text@` (vstd contract).
// Assumed std contracts: shims/char_c31.rs (K1-K7: char::is_ascii_digit / is_ascii_hexdigit / is_ascii_alphanumeric /
//   to_digit / from_u32, Option::from, str::parse total), shims/str_lines_c31.rs (L1-L4: str::lines + count + enumerate,
//   Chars::count, cmp::min; R1-R2: annotate-snippets types and the renderer's documented panic condition),
//   env::fmt_invalid_integer (format!). vstd's own: String::{new, push, push_str, as_str, from(char)}, str::{chars, len,
//   to_string}, Vec::{new, push, len, index}, RangeInclusive::contains, Option::{ok_or, unwrap}, Result::{map, map_err}, `?`.
// @subst: Position::advance `mut self` -> local copy `this` (3 rewrites, Verus has no `mut self`); tokenize_number: the
//   ten `Token::XLiteral` constructor values eta-expanded; parse_int: `fn(T) -> Token` -> `impl Fn(T) -> Token`,
//   `format!(..)` -> env::fmt_invalid_integer(..); create_snippet: `s.lines()` -> `lines_c31(s)` x2.
use vstd::prelude::*;
verus! {
/*@include shims/rt.rs @*/
/*@include shims/char_c31.rs @*/
/*@include shims/str_lines_c31.rs @*/

pub mod env {
    use vstd::prelude::*;
    /// stands for `format!("'{}{}' - {}", int, ty, err)` in `Lexer::parse_int` (core::fmt): total, result unconstrained
    #[verifier::external_body]
    pub fn fmt_invalid_integer<E: core::fmt::Display>(int_text: &str, ty: &str, err: E) -> String {
        format!("'{}{}' - {}", int_text, ty, err)
    }
}

pub mod unit {
    // This outer module deliberately does NOT import `vstd::prelude::*`: `Lexer::parse_int` has a parameter named `int`,
    // which the prelude's ghost type `int` would capture (a unit-struct pattern instead of a binding). Everything else
    // lives in the child module `lexer` (a child sees the private `parse_int`, as the real callers in the same module do).
    use self::lexer::{Lexer, LexerError, LexerErrorKind, Span, Position, Token};
    use super::env::fmt_invalid_integer;
    use core::str::FromStr;
    use core::fmt::Display;
    use vstd::pervasive::FnWithRequiresEnsures;
    impl Lexer {
        /*@fn radix-transactions/src/manifest/lexer.rs :: impl Lexer :: fn parse_int
        @subst <<map: fn(T) -> Token>> => <<map: impl Fn(T) -> Token>> why: Verus has no function-pointer types; `impl Fn(T) -> Token` accepts the same arguments (the ten call sites pass a tuple-variant constructor) and is called the same way by `Result::map`
        @subst <<format!("'{}{}' - {}", int, ty, err)>> => <<fmt_invalid_integer(int, ty, err)>> why: Verus has no `format!` / core::fmt; env::fmt_invalid_integer is the same formatting call as one opaque total function of the same three arguments
        @sig
            requires forall|t: T| map.requires((t,))
            ensures ret matches Err(e) ==> e.span == (Span { start: token_start, end: self.current })
        @closure 1 := |err: <T as FromStr>::Err| -> (r: LexerError) ensures r.span == (Span { start: token_start, end: self.current })
        @*/
    }

pub mod lexer {
    use vstd::prelude::*;
    use super::super::rt::*;
    use super::super::char_c31::*;
    use super::super::str_lines_c31::*;
    use core::cmp::min;
    use vstd::utf8::*;

    /*@item radix-transactions/src/manifest/token.rs :: struct Span
    @derive Clone, Copy, PartialEq, Eq
    @*/
    /*@item radix-transactions/src/manifest/token.rs :: struct Position
    @derive Clone, Copy, PartialEq, Eq
    @*/
    /*@item radix-transactions/src/manifest/token.rs :: enum Token
    @derive
    @*/
    /*@item radix-transactions/src/manifest/token.rs :: struct TokenWithSpan
    @derive
    @*/
    /*@item radix-transactions/src/manifest/lexer.rs :: enum ExpectedChar
    @derive
    @*/
    /*@item radix-transactions/src/manifest/lexer.rs :: enum LexerErrorKind
    @derive
    @*/
    /*@item radix-transactions/src/manifest/lexer.rs :: struct LexerError
    @derive
    @*/
    /*@item radix-transactions/src/manifest/lexer.rs :: struct Lexer
    @derive
    @*/

    // ORACLE (token.rs field docs)
    pub open spec fn newlines(text: Seq<char>, i: int) -> int
        decreases i
    {
        if i <= 0 { 0 } else { newlines(text, i - 1) + if text[i - 1] == '\n' { 1int } else { 0int } }
    }
    pub open spec fn line_start(text: Seq<char>, i: int) -> int
        decreases i
    {
        if i <= 0 { 0 } else if text[i - 1] == '\n' { i } else { line_start(text, i - 1) }
    }
    pub open spec fn pos_at(text: Seq<char>, i: int) -> Position {
        Position { full_index: i as usize, line_idx: newlines(text, i) as usize, line_char_index: (i - line_start(text, i)) as usize }
    }
    pub proof fn lemma_pos_bounds(text: Seq<char>, i: int)
        requires 0 <= i
        ensures 0 <= newlines(text, i) <= i, 0 <= line_start(text, i) <= i
        decreases i
    {
        if i > 0 { lemma_pos_bounds(text, i - 1); }
    }
    pub open spec fn step(p: Position, c: char) -> Position {
        if c == '\n' {
            Position { full_index: (p.full_index + 1) as usize, line_idx: (p.line_idx + 1) as usize, line_char_index: 0 }
        } else {
            Position { full_index: (p.full_index + 1) as usize, line_idx: p.line_idx, line_char_index: (p.line_char_index + 1) as usize }
        }
    }
    pub proof fn lemma_step(text: Seq<char>, i: int)
        requires 0 <= i < text.len(), text.len() <= usize::MAX
        ensures step(pos_at(text, i), text[i]) == pos_at(text, i + 1)
    {
        lemma_pos_bounds(text, i);
        lemma_pos_bounds(text, i + 1);
    }
    pub open spec fn wf(l: Lexer) -> bool {
        l.current.full_index <= l.text@.len() && l.current == pos_at(l.text@, l.current.full_index as int)
    }
    pub open spec fn span_ok(text: Seq<char>, sp: Span) -> bool {
        &&& sp.start.full_index <= sp.end.full_index <= text.len()
        &&& sp.start == pos_at(text, sp.start.full_index as int)
        &&& sp.end == pos_at(text, sp.end.full_index as int)
    }

    /// ORACLE (lexer.rs `is_whitespace`, manifest grammar): blank characters skipped between tokens
    pub open spec fn is_ws(c: char) -> bool { c == ' ' || c == '\t' || c == '\r' || c == '\n' }

    /// every position of a well-formed lexer is below usize::MAX in all three fields unless at the very end
    pub proof fn lemma_bounds(l: Lexer)
        requires wf(l)
        ensures l.text@.len() <= usize::MAX, l.current.line_idx <= l.current.full_index, l.current.line_char_index <= l.current.full_index
    {
        assert(l.text@.len() == l.text.len());
        lemma_pos_bounds(l.text@, l.current.full_index as int);
    }
    /// common contract of the four `tokenize_*` functions: the token spans exactly the consumed characters (non-empty),
    /// an error carries a span inside the text, the text is never modified
    pub open spec fn tok_post(pre: Lexer, post: Lexer, ret: Result<TokenWithSpan, LexerError>) -> bool {
        &&& wf(post) && post.text == pre.text
        &&& ret matches Ok(t) ==> t.span == (Span { start: pre.current, end: post.current }) && post.current.full_index > pre.current.full_index
        &&& ret matches Err(e) ==> span_ok(pre.text@, e.span)
    }

    /// ORACLE ("skip comment and whitespace"; a comment runs from '#' to the end of the line or of the text): the index
    /// of the first character at or after `i` that is neither blank nor inside a comment (the text length if none)
    pub open spec fn skip(text: Seq<char>, i: int, in_comment: bool) -> int
        decreases text.len() - i
    {
        if i < 0 || i >= text.len() { text.len() as int }
        else if in_comment { skip(text, i + 1, text[i] != '\n') }
        else if text[i] == '#' { skip(text, i + 1, true) }
        else if is_ws(text[i]) { skip(text, i + 1, false) }
        else { i }
    }
    pub proof fn lemma_skip_ge(text: Seq<char>, i: int, in_comment: bool)
        requires 0 <= i <= text.len()
        ensures i <= skip(text, i, in_comment) <= text.len()
        decreases text.len() - i
    {
        if i < text.len() {
            if in_comment { lemma_skip_ge(text, i + 1, text[i] != '\n'); }
            else if text[i] == '#' { lemma_skip_ge(text, i + 1, true); }
            else if is_ws(text[i]) { lemma_skip_ge(text, i + 1, false); }
        }
    }
    /// end of the token before the k-th one (0 for the first)
    pub open spec fn prev_end(toks: Seq<TokenWithSpan>, k: int) -> int {
        if k <= 0 { 0 } else { toks[k - 1].span.end.full_index as int }
    }
    /// ORACLE for the token stream of the first `toks.len()` tokens when the lexer stands at `at`:
    /// every token has a non-empty span inside the text with exact line/column bookkeeping, it starts exactly where the
    /// blanks/comments after the previous token end, and `at` is the end of the last one
    pub open spec fn prefix_cover(text: Seq<char>, toks: Seq<TokenWithSpan>, at: int) -> bool {
        &&& forall|k: int| 0 <= k < toks.len() ==> span_ok(text, #[trigger] toks[k].span)
                && toks[k].span.start.full_index < toks[k].span.end.full_index
                && toks[k].span.start.full_index == skip(text, prev_end(toks, k), false)
        &&& at == prev_end(toks, toks.len() as int)
    }
    /// ... and for a COMPLETE token stream: after the last token only blanks/comments remain (the whole input is consumed)
    pub open spec fn tokens_cover(text: Seq<char>, toks: Seq<TokenWithSpan>) -> bool {
        &&& prefix_cover(text, toks, prev_end(toks, toks.len() as int))
        &&& skip(text, prev_end(toks, toks.len() as int), false) == text.len()
    }
    /// corollary: spans are increasing and non-overlapping
    pub proof fn lemma_cover_increasing(text: Seq<char>, toks: Seq<TokenWithSpan>, k: int)
        requires tokens_cover(text, toks), 0 <= k < toks.len() - 1
        ensures toks[k].span.end.full_index <= toks[k + 1].span.start.full_index
    {
        assert(span_ok(text, toks[k].span));
        assert(span_ok(text, toks[k + 1].span));
        lemma_skip_ge(text, toks[k].span.end.full_index as int, false);
    }

    impl Position {
        /*@fn radix-transactions/src/manifest/token.rs :: impl Position :: fn advance
        @subst <<mut self>> => <<self>> why: Verus does not support a `mut self` receiver; the by-value receiver is copied into a mutable local `this` (next two rewrites), which is what `mut self` denotes
        @subst <<self.>> => <<this.>> x4 why: see above: the body mutates the local copy `this` of the by-value receiver
        @subst <<} self }>> => <<} this }>> why: see above: the function returns the mutated copy
        @sig
            requires self.full_index < usize::MAX, self.line_idx < usize::MAX, self.line_char_index < usize::MAX
            ensures ret == step(self, next_char)
        @entry
            let mut this = self;
        @*/
        /*@fn radix-transactions/src/manifest/token.rs :: impl Position :: fn line_number
        @sig
            requires self.line_idx < usize::MAX
            ensures ret == self.line_idx + 1
        @*/
    }

    impl LexerError {
        /*@fn radix-transactions/src/manifest/lexer.rs :: impl LexerError :: fn unexpected_char
        @sig
            requires position.full_index < usize::MAX, position.line_idx < usize::MAX, position.line_char_index < usize::MAX
            ensures ret.span == (Span { start: position, end: step(position, c) }),
                ret.error_kind == LexerErrorKind::UnexpectedChar(c, expected)
        @*/
        /*@fn radix-transactions/src/manifest/lexer.rs :: impl LexerError :: fn invalid_integer_type
        @sig
            ensures ret.span == (Span { start, end }), ret.error_kind == LexerErrorKind::InvalidIntegerType(ty)
        @*/
    }

    impl Lexer {
        /*@fn radix-transactions/src/manifest/lexer.rs :: impl Lexer :: fn new
        @sig
            ensures ret.text@ == text@, ret.current.full_index == 0, wf(ret)
        @*/
        /*@fn radix-transactions/src/manifest/lexer.rs :: impl Lexer :: fn is_eof
        @sig
            ensures ret == (self.current.full_index == self.text@.len())
        @*/
        /*@fn radix-transactions/src/manifest/lexer.rs :: impl Lexer :: fn peek
        @sig
            requires wf(*self)
            ensures
                ret is Ok <==> self.current.full_index < self.text@.len(),
                ret matches Ok(c) ==> c == self.text@[self.current.full_index as int],
                ret matches Err(e) ==> e.error_kind == LexerErrorKind::UnexpectedEof
                    && e.span == (Span { start: self.current, end: self.current }) && span_ok(self.text@, e.span),
        @*/
        /*@fn radix-transactions/src/manifest/lexer.rs :: impl Lexer :: fn advance
        @sig
            requires wf(*old(self))
            ensures
                wf(*final(self)), final(self).text == old(self).text,
                ret is Ok <==> old(self).current.full_index < old(self).text@.len(),
                ret matches Ok(c) ==> c == old(self).text@[old(self).current.full_index as int]
                    && final(self).current.full_index == old(self).current.full_index + 1
                    && final(self).current == step(old(self).current, c),
                ret matches Err(e) ==> final(self).current == old(self).current && e.error_kind == LexerErrorKind::UnexpectedEof
                    && e.span == (Span { start: old(self).current, end: old(self).current }) && span_ok(old(self).text@, e.span),
        @entry
            proof {
                assert(self.text@.len() == self.text.len());
                lemma_pos_bounds(self.text@, self.current.full_index as int);
                if self.current.full_index < self.text@.len() { lemma_step(self.text@, self.current.full_index as int); }
            }
        @*/

        /*@fn radix-transactions/src/manifest/lexer.rs :: impl Lexer :: fn advance_matching
        @sig
            requires wf(*old(self)), forall|c: char| matcher.requires((c,))
            ensures
                wf(*final(self)), final(self).text == old(self).text,
                final(self).current.full_index >= old(self).current.full_index,
                ret matches Ok(c) ==> c == old(self).text@[old(self).current.full_index as int]
                    && old(self).current.full_index < old(self).text@.len()
                    && final(self).current.full_index == old(self).current.full_index + 1
                    && matcher.ensures((c,), true),
                ret matches Err(e) ==> span_ok(old(self).text@, e.span),
        @entry
            proof {
                assert(self.text@.len() == self.text.len());
                lemma_pos_bounds(self.text@, self.current.full_index as int);
                if self.current.full_index < self.text@.len() { lemma_step(self.text@, self.current.full_index as int); }
            }
        @*/
        /*@fn radix-transactions/src/manifest/lexer.rs :: impl Lexer :: fn advance_expected
        @sig
            requires wf(*old(self))
            ensures
                wf(*final(self)), final(self).text == old(self).text,
                final(self).current.full_index >= old(self).current.full_index,
                ret matches Ok(c) ==> c == expected && c == old(self).text@[old(self).current.full_index as int]
                    && final(self).current.full_index == old(self).current.full_index + 1,
                ret matches Err(e) ==> span_ok(old(self).text@, e.span),
        @closure 1 := |c: char| -> (b: bool) ensures b == (c == expected)
        @*/
        /*@fn radix-transactions/src/manifest/lexer.rs :: impl Lexer :: fn advance_and_append
        @sig
            requires wf(*old(self))
            ensures
                wf(*final(self)), final(self).text == old(self).text,
                ret is Ok <==> old(self).current.full_index < old(self).text@.len(),
                ret matches Ok(c) ==> c == old(self).text@[old(self).current.full_index as int]
                    && final(self).current.full_index == old(self).current.full_index + 1
                    && final(s)@ == old(s)@.push(c),
                ret matches Err(e) ==> final(self).current == old(self).current && span_ok(old(self).text@, e.span),
        @*/
        /*@fn radix-transactions/src/manifest/lexer.rs :: impl Lexer :: fn is_whitespace
        @sig
            ensures ret == is_ws(c)
        @*/
        /*@fn radix-transactions/src/manifest/lexer.rs :: impl Lexer :: fn new_token
        @sig
            ensures ret.token == token, ret.span == (Span { start, end })
        @*/
        /*@fn radix-transactions/src/manifest/lexer.rs :: impl Lexer :: fn read_utf16_unit
        @sig
            requires wf(*old(self))
            ensures
                wf(*final(self)), final(self).text == old(self).text,
                final(self).current.full_index >= old(self).current.full_index,
                ret matches Ok(code) ==> code <= 0xFFFF && final(self).current.full_index == old(self).current.full_index + 4,
                ret matches Err(e) ==> span_ok(old(self).text@, e.span),
        @closure 1 := |c: char| -> (b: bool) ensures b == is_hex(c)
        @loop 1 iter it
            invariant
                wf(*self), self.text == old(self).text,
                self.current.full_index == old(self).current.full_index + it.index@,
                0 <= it.index@ <= 4,
                it.index@ == 0 ==> code < 1, it.index@ == 1 ==> code < 0x10, it.index@ == 2 ==> code < 0x100,
                it.index@ == 3 ==> code < 0x1000, it.index@ == 4 ==> code < 0x10000,
        @*/

        /*@fn radix-transactions/src/manifest/lexer.rs :: impl Lexer :: fn tokenize_punctuation
        @sig
            requires wf(*old(self))
            ensures tok_post(*old(self), *final(self), ret)
        @entry
            proof { lemma_bounds(*self); }
        @*/
        /*@fn radix-transactions/src/manifest/lexer.rs :: impl Lexer :: fn tokenize_identifier
        @sig
            requires wf(*old(self))
            ensures tok_post(*old(self), *final(self), ret)
        @loop 1
            invariant wf(*self), self.text == old(self).text, self.current.full_index > old(self).current.full_index
            decreases self.text@.len() - self.current.full_index
        @*/

        /*@fn radix-transactions/src/manifest/lexer.rs :: impl Lexer :: fn tokenize_string
        @sig
            requires wf(*old(self)), old(self).current.full_index < old(self).text@.len(),
                old(self).text@[old(self).current.full_index as int] == '"'
            ensures tok_post(*old(self), *final(self), ret)
        @entry
            proof { lemma_bounds(*self); }
        @loop 1
            invariant wf(*self), self.text == old(self).text, self.current.full_index > old(self).current.full_index,
                start == old(self).current,
            decreases self.text@.len() - self.current.full_index
        @before <<+ self.read_utf16_unit()?>>
            proof {
                let hi = (unicode - 0xD800) as u32;
                assert(hi <= 0x7FF);
                assert((hi << 10u32) <= 0x1FFC00u32) by (bit_vector) requires hi <= 0x7FFu32;
                lemma_bounds(*self);
            }
        @before <<return Err(LexerError::unexpected_char(>>
            proof { lemma_bounds(*self); lemma_pos_bounds(self.text@, token_start.full_index as int); lemma_step(self.text@, token_start.full_index as int); }
        @*/

        /*@fn radix-transactions/src/manifest/lexer.rs :: impl Lexer :: fn tokenize_number
        @subst <<Token::I128Literal,>> => <<|v: i128| -> (r: Token) ensures r == Token::I128Literal(v) { Token::I128Literal(v) },>> why: Verus rejects a tuple-variant constructor used as a function value; eta-expanded to the closure it denotes
        @subst <<Token::I16Literal,>> => <<|v: i16| -> (r: Token) ensures r == Token::I16Literal(v) { Token::I16Literal(v) },>> why: Verus rejects a tuple-variant constructor used as a function value; eta-expanded to the closure it denotes
        @subst <<Token::I32Literal,>> => <<|v: i32| -> (r: Token) ensures r == Token::I32Literal(v) { Token::I32Literal(v) },>> why: Verus rejects a tuple-variant constructor used as a function value; eta-expanded to the closure it denotes
        @subst <<Token::I64Literal,>> => <<|v: i64| -> (r: Token) ensures r == Token::I64Literal(v) { Token::I64Literal(v) },>> why: Verus rejects a tuple-variant constructor used as a function value; eta-expanded to the closure it denotes
        @subst <<Token::I8Literal,>> => <<|v: i8| -> (r: Token) ensures r == Token::I8Literal(v) { Token::I8Literal(v) },>> why: Verus rejects a tuple-variant constructor used as a function value; eta-expanded to the closure it denotes
        @subst <<Token::U128Literal,>> => <<|v: u128| -> (r: Token) ensures r == Token::U128Literal(v) { Token::U128Literal(v) },>> why: Verus rejects a tuple-variant constructor used as a function value; eta-expanded to the closure it denotes
        @subst <<Token::U16Literal,>> => <<|v: u16| -> (r: Token) ensures r == Token::U16Literal(v) { Token::U16Literal(v) },>> why: Verus rejects a tuple-variant constructor used as a function value; eta-expanded to the closure it denotes
        @subst <<Token::U32Literal,>> => <<|v: u32| -> (r: Token) ensures r == Token::U32Literal(v) { Token::U32Literal(v) },>> why: Verus rejects a tuple-variant constructor used as a function value; eta-expanded to the closure it denotes
        @subst <<Token::U64Literal,>> => <<|v: u64| -> (r: Token) ensures r == Token::U64Literal(v) { Token::U64Literal(v) },>> why: Verus rejects a tuple-variant constructor used as a function value; eta-expanded to the closure it denotes
        @subst <<Token::U8Literal,>> => <<|v: u8| -> (r: Token) ensures r == Token::U8Literal(v) { Token::U8Literal(v) },>> why: Verus rejects a tuple-variant constructor used as a function value; eta-expanded to the closure it denotes
        @sig
            requires wf(*old(self))
            ensures tok_post(*old(self), *final(self), ret)
        @closure 1 := |token: Token| -> (r: TokenWithSpan) ensures r.span == (Span { start: literal_start, end: self.current })
        @loop 1
            invariant wf(*self), self.text == old(self).text, self.current.full_index > old(self).current.full_index,
            decreases self.text@.len() - self.current.full_index
        @*/
        /*@fn radix-transactions/src/manifest/lexer.rs :: impl Lexer :: fn next_token
        @sig
            requires wf(*old(self))
            ensures
                wf(*final(self)), final(self).text == old(self).text,
                ret matches Ok(None) ==> final(self).current.full_index == final(self).text@.len()
                    && skip(old(self).text@, old(self).current.full_index as int, false) == old(self).text@.len(),
                ret matches Ok(Some(t)) ==> t.span.start.full_index == skip(old(self).text@, old(self).current.full_index as int, false)
                    && old(self).current.full_index <= t.span.start.full_index < t.span.end.full_index
                    && t.span.end == final(self).current
                    && span_ok(old(self).text@, t.span),
                ret matches Err(e) ==> span_ok(old(self).text@, e.span),
        @entry
            proof { lemma_skip_ge(self.text@, self.current.full_index as int, false); }
        @before <<match self.peek()?>>
            proof { lemma_bounds(*self); lemma_step(self.text@, self.current.full_index as int); }
        @loop 1
            invariant wf(*self), self.text == old(self).text, self.current.full_index >= old(self).current.full_index,
                skip(self.text@, self.current.full_index as int, in_comment) == skip(self.text@, old(self).current.full_index as int, false),
            ensures self.current.full_index == self.text@.len()
                || (!in_comment && skip(self.text@, self.current.full_index as int, false) == self.current.full_index),
            decreases self.text@.len() - self.current.full_index, (if in_comment { 0int } else { 1int })
        @*/
    }

    /*@fn radix-transactions/src/manifest/lexer.rs :: fn tokenize
    @sig
        ensures
            ret matches Ok(tokens) ==> tokens_cover(s@, tokens@),
            ret matches Err(e) ==> span_ok(s@, e.span),
    @loop 1
        invariant_except_break prefix_cover(s@, tokens@, lexer.current.full_index as int),
        invariant wf(lexer), lexer.text@ == s@,
        ensures tokens_cover(s@, tokens@),
        decreases lexer.text@.len() - lexer.current.full_index
    @before <<tokens.push(token)>>
        let ghost before = tokens@;
    @after <<tokens.push(token)>>
        proof {
            assert(tokens@ == before.push(token));
            assert forall|k: int| 0 <= k < tokens@.len() implies span_ok(s@, #[trigger] tokens@[k].span)
                && tokens@[k].span.start.full_index < tokens@[k].span.end.full_index
                && tokens@[k].span.start.full_index == skip(s@, prev_end(tokens@, k), false) by {
                if k < before.len() { assert(tokens@[k] == before[k]); assert(span_ok(s@, before[k].span)); if k > 0 { assert(tokens@[k - 1] == before[k - 1]); } }
            }
        }
    @*/

    // =============================================================================================
    // DIAGNOSTIC SNIPPET (second step of the property: "rendering that error ... also succeeds")
    // =============================================================================================
    /*@item radix-transactions/src/manifest/compiler.rs :: enum CompileErrorDiagnosticsStyle
    @derive Clone, Copy, PartialEq, Eq
    @*/
    /// characters taken by the first k lines when each is followed by ONE line terminator
    pub open spec fn sum_len(ls: Seq<Seq<char>>, k: int) -> int
        decreases k
    {
        if k <= 0 { 0 } else { sum_len(ls, k - 1) + ls[k - 1].len() + 1 }
    }
    /// (type-inference aid for the untyped counter `skipped_chars`)
    pub open spec fn us(x: usize) -> int { x as int }
    pub open spec fn sum_mono(ls: Seq<Seq<char>>) -> bool {
        forall|a: int, b: int| 0 <= a <= b ==> #[trigger] sum_len(ls, a) <= #[trigger] sum_len(ls, b)
    }
    /// no "\r\n" line ending in the text
    pub open spec fn no_crlf(t: Seq<char>) -> bool {
        forall|j: int| 0 < j < t.len() && #[trigger] t[j] == '\n' ==> t[j - 1] != '\r'
    }
    pub proof fn lemma_sum_mono(ls: Seq<Seq<char>>, a: int, b: int)
        requires 0 <= a <= b
        ensures sum_len(ls, a) <= sum_len(ls, b)
        decreases b - a
    {
        if a < b { lemma_sum_mono(ls, a, b - 1); }
    }
    pub proof fn lemma_sum_mono_all(ls: Seq<Seq<char>>)
        ensures sum_mono(ls)
    {
        assert forall|a: int, b: int| 0 <= a <= b implies #[trigger] sum_len(ls, a) <= #[trigger] sum_len(ls, b) by { lemma_sum_mono(ls, a, b); }
    }
    pub proof fn lemma_sum_shift(x: Seq<char>, rest: Seq<Seq<char>>, k: int)
        requires 1 <= k <= rest.len() + 1
        ensures sum_len(seq![x] + rest, k) == x.len() + 1 + sum_len(rest, k - 1)
        decreases k
    {
        let all = seq![x] + rest;
        if k > 1 {
            lemma_sum_shift(x, rest, k - 1);
            assert(all[k - 1] == rest[k - 2]);
        } else {
            assert(all[0] == x);
            assert(sum_len(all, 0) == 0);
        }
    }
    /// the first k lines (k <= number of '\n' before p) end at or before p   [no assumption on line endings]
    pub proof fn lemma_scan_prefix(t: Seq<char>, start: int, i: int, p: int, k: int)
        requires 0 <= start <= i <= p <= t.len(), 0 <= k <= newlines(t, p) - newlines(t, i)
        ensures k <= lines_scan(t, start, i).len(), sum_len(lines_scan(t, start, i), k) <= p - start
        decreases t.len() - i
    {
        if i >= t.len() {
        } else if k == 0 {
        } else if p == i {
        } else if t[i] == '\n' {
            let x = strip_cr(t.subrange(start, i));
            let rest = lines_scan(t, i + 1, i + 1);
            lemma_scan_prefix(t, i + 1, i + 1, p, k - 1);
            lemma_sum_shift(x, rest, k);
        } else {
            lemma_scan_prefix(t, start, i + 1, p, k);
        }
    }
    /// all lines together never exceed the text by more than the one terminator added to an unterminated last line
    pub proof fn lemma_scan_total(t: Seq<char>, start: int, i: int, k: int)
        requires 0 <= start <= i <= t.len(), 0 <= k <= lines_scan(t, start, i).len()
        ensures sum_len(lines_scan(t, start, i), k) <= t.len() - start + 1
        decreases t.len() - i
    {
        let sl = lines_scan(t, start, i);
        if i >= t.len() {
            if k == 1 { assert(sum_len(sl, 0) == 0); }
        } else if k == 0 {
        } else if t[i] == '\n' {
            let x = strip_cr(t.subrange(start, i));
            let rest = lines_scan(t, i + 1, i + 1);
            lemma_scan_total(t, i + 1, i + 1, k - 1);
            lemma_sum_shift(x, rest, k);
        } else {
            lemma_scan_total(t, start, i + 1, k);
        }
    }
    /// WITHOUT "\r\n": all the lines (each with one terminator) cover the whole text
    pub proof fn lemma_scan_cover_all(t: Seq<char>, start: int, i: int)
        requires 0 <= start <= i <= t.len(), no_crlf(t)
        ensures sum_len(lines_scan(t, start, i), lines_scan(t, start, i).len() as int) >= t.len() - start
        decreases t.len() - i
    {
        let sl = lines_scan(t, start, i);
        if i >= t.len() {
            if start < t.len() { assert(sum_len(sl, 0) == 0); }
        } else if t[i] == '\n' {
            let raw = t.subrange(start, i);
            let rest = lines_scan(t, i + 1, i + 1);
            if raw.len() > 0 { assert(raw.last() == t[i - 1]); }
            assert(strip_cr(raw) == raw);
            lemma_scan_cover_all(t, i + 1, i + 1);
            lemma_sum_shift(raw, rest, rest.len() as int + 1);
        } else {
            lemma_scan_cover_all(t, start, i + 1);
        }
    }
    /// WITHOUT "\r\n": a position p on the k-th line (1-based, counted from the scan point) lies before the end of the first k lines
    pub proof fn lemma_scan_cover_pos(t: Seq<char>, start: int, i: int, p: int, k: int)
        requires 0 <= start <= i <= p <= t.len(), no_crlf(t),
            k == newlines(t, p) - newlines(t, i) + 1, k <= lines_scan(t, start, i).len()
        ensures sum_len(lines_scan(t, start, i), k) >= p + 1 - start
        decreases t.len() - i
    {
        let sl = lines_scan(t, start, i);
        if i >= t.len() {
            assert(sum_len(sl, 0) == 0);
        } else if t[i] == '\n' {
            let raw = t.subrange(start, i);
            let rest = lines_scan(t, i + 1, i + 1);
            if raw.len() > 0 { assert(raw.last() == t[i - 1]); }
            assert(strip_cr(raw) == raw);
            if p == i {
                lemma_sum_shift(raw, rest, 1);
            } else {
                lemma_newlines_mono(t, i + 1, p);
                lemma_scan_cover_pos(t, i + 1, i + 1, p, k - 1);
                lemma_sum_shift(raw, rest, k);
            }
        } else {
            if p == i {
                lemma_scan_cover_pos(t, start, i + 1, i + 1, k);
            } else {
                lemma_scan_cover_pos(t, start, i + 1, p, k);
            }
        }
    }
    pub proof fn lemma_newlines_mono(t: Seq<char>, a: int, b: int)
        requires 0 <= a <= b
        ensures newlines(t, a) <= newlines(t, b)
        decreases b - a
    {
        if a < b { lemma_newlines_mono(t, a, b - 1); }
    }
    /// every character takes at least one byte in UTF-8
    pub proof fn lemma_utf8_len(cs: Seq<char>)
        ensures encode_utf8(cs).len() >= cs.len()
        decreases cs.len()
    {
        if cs.len() > 0 {
            lemma_utf8_len(cs.drop_first());
            assert(encode_scalar(cs[0] as u32).len() >= 1);
            assert(encode_utf8(cs) == encode_scalar(cs[0] as u32) + encode_utf8(cs.drop_first()));
        }
    }

    /*@fn radix-transactions/src/manifest/diagnostic_snippets.rs :: fn create_snippet
    @subst <<s.lines()>> => <<lines_c31(s)>> x2 why: `core::str::Lines` and the adapters `Iterator::count` / `Iterator::enumerate` have no vstd specification; lines_c31(s) is the shim for s.lines() with the assumed contracts L1/L2 (shims/str_lines_c31.rs); `.count()`, `.enumerate()` and the loop stay verbatim
    @sig
        requires
            span_ok(s@, *span),
            encode_utf8(s@).len() <= isize::MAX,
            no_crlf(s@),
    @entry
        let ghost ls = lines_of(s@);
        let ghost n = ls.len() as int;
        let ghost ls0: int = if span.start.line_idx >= 5 { span.start.line_idx - 5 } else { 0 };
        proof {
            lemma_utf8_len(s@);
            lemma_pos_bounds(s@, span.start.full_index as int);
            lemma_pos_bounds(s@, span.end.full_index as int);
            lemma_sum_mono_all(ls);
            lemma_newlines_mono(s@, 0, span.start.full_index as int);
            lemma_scan_prefix(s@, 0, 0, span.start.full_index as int, ls0);
        }
    @loop 1 iter it
        invariant_except_break
            vstd::std_specs::iter::IteratorSpec::remaining(&it.snapshot@).len() == n,
            forall|k: int| 0 <= k < n ==> (#[trigger] vstd::std_specs::iter::IteratorSpec::remaining(&it.snapshot@)[k]).0 == k
                && vstd::std_specs::iter::IteratorSpec::remaining(&it.snapshot@)[k].1@ == ls[k],
            us(skipped_chars) == sum_len(ls, if it.index@ < ls0 { it.index@ } else { ls0 }),
            source@.len() + us(skipped_chars) == sum_len(ls, if it.index@ < ls0 { it.index@ } else if it.index@ < line_end { it.index@ } else if ls0 < line_end { line_end as int } else { ls0 }),
        invariant
            ls == lines_of(s@), n == ls.len(), n == lines_cnt, sum_mono(ls), 0 <= ls0 <= n, line_end <= n,
            line_start == ls0 + 1, s@.len() + 1 < usize::MAX,
        ensures
            us(skipped_chars) <= sum_len(ls, ls0),
            source@.len() + us(skipped_chars) >= sum_len(ls, line_end as int),
    @before <<if (i + 1) < line_start>>
        proof {
            assert((i, line) == vstd::std_specs::iter::IteratorSpec::remaining(&it.snapshot@)[it.index@]);
            assert(line@ == ls[i as int]);
            lemma_scan_total(s@, 0, 0, i + 1);
        }
    @before <<annotation_start_index -= skipped_chars>>
        proof {
            let e = span.end.full_index as int;
            if line_end as int == n {
                lemma_scan_cover_all(s@, 0, 0);
            } else {
                lemma_newlines_mono(s@, 0, e);
                lemma_scan_cover_pos(s@, 0, 0, e, span.end.line_idx as int + 1);
                assert(sum_len(ls, span.end.line_idx as int + 1) <= sum_len(ls, line_end as int));
            }
            assert(annotation_end_index <= sum_len(ls, line_end as int) + 1);
        }
    @*/

    // ---- C31 AS STATED: rendering the diagnostic of ANY compile error succeeds for ANY text --------------
    // EXPECTED TO FAIL -- known finding (known_findings.txt; replayed on the real crate in finding_replay/):
    // the same real function, extracted a second time WITHOUT the `no_crlf` precondition. With a "\r\n" line
    // ending before the reported span the renderer's panic condition is reachable
    // (compile_manifest_with_pretty_error("\"\r\n") panics in annotate-snippets).
    #[allow(non_snake_case)]
    pub mod crlf_KNOWN_FINDING {
        use super::*;
        /*@fn radix-transactions/src/manifest/diagnostic_snippets.rs :: fn create_snippet
        @subst <<s.lines()>> => <<lines_c31(s)>> x2 why: `core::str::Lines` and the adapters `Iterator::count` / `Iterator::enumerate` have no vstd specification; lines_c31(s) is the shim for s.lines() with the assumed contracts L1/L2 (shims/str_lines_c31.rs); `.count()`, `.enumerate()` and the loop stay verbatim
        @sig
            requires
                span_ok(s@, *span),
                encode_utf8(s@).len() <= isize::MAX,
        @entry
            let ghost ls = lines_of(s@);
            let ghost n = ls.len() as int;
            let ghost ls0: int = if span.start.line_idx >= 5 { span.start.line_idx - 5 } else { 0 };
            proof {
                lemma_utf8_len(s@);
                lemma_pos_bounds(s@, span.start.full_index as int);
                lemma_pos_bounds(s@, span.end.full_index as int);
                lemma_sum_mono_all(ls);
                lemma_newlines_mono(s@, 0, span.start.full_index as int);
                lemma_scan_prefix(s@, 0, 0, span.start.full_index as int, ls0);
            }
        @loop 1 iter it
            invariant_except_break
                vstd::std_specs::iter::IteratorSpec::remaining(&it.snapshot@).len() == n,
                forall|k: int| 0 <= k < n ==> (#[trigger] vstd::std_specs::iter::IteratorSpec::remaining(&it.snapshot@)[k]).0 == k
                    && vstd::std_specs::iter::IteratorSpec::remaining(&it.snapshot@)[k].1@ == ls[k],
                us(skipped_chars) == sum_len(ls, if it.index@ < ls0 { it.index@ } else { ls0 }),
                source@.len() + us(skipped_chars) == sum_len(ls, if it.index@ < ls0 { it.index@ } else if it.index@ < line_end { it.index@ } else if ls0 < line_end { line_end as int } else { ls0 }),
            invariant
                ls == lines_of(s@), n == ls.len(), n == lines_cnt, sum_mono(ls), 0 <= ls0 <= n, line_end <= n,
                line_start == ls0 + 1, s@.len() + 1 < usize::MAX,
            ensures
                us(skipped_chars) <= sum_len(ls, ls0),
                source@.len() + us(skipped_chars) >= sum_len(ls, line_end as int),
        @before <<if (i + 1) < line_start>>
            proof {
                assert((i, line) == vstd::std_specs::iter::IteratorSpec::remaining(&it.snapshot@)[it.index@]);
                assert(line@ == ls[i as int]);
                lemma_scan_total(s@, 0, 0, i + 1);
            }
        @before <<annotation_start_index -= skipped_chars>>
            proof {
                let e = span.end.full_index as int;
                if line_end as int == n {
                    lemma_scan_cover_all(s@, 0, 0);
                } else {
                    lemma_newlines_mono(s@, 0, e);
                    lemma_scan_cover_pos(s@, 0, 0, e, span.end.line_idx as int + 1);
                    assert(sum_len(ls, span.end.line_idx as int + 1) <= sum_len(ls, line_end as int));
                }
                assert(annotation_end_index <= sum_len(ls, line_end as int) + 1);
            }
        @*/
    }


    // ---- KNOWN FINDING (replayed on the real crate: units/c31_lexer/finding_replay/OUTPUT.txt) -------------------
    // `no_crlf(s@)` above is NOT a harmless technicality: the property quantifies over "any mix of line endings", and
    // with a "\r\n" ending the precondition of the renderer is violated. Witness on the formulas the contract of
    // create_snippet is proved about: text = `"` CR LF (an unterminated string literal on a CRLF line). The lexer
    // reports UnexpectedEof at position (full_index 3, line 1, column 0) -- a span_ok span. `lines()` yields the ONE
    // line `"` (CR LF stripped), so source = `"` LF has 2 characters, nothing is skipped, and the annotation range is
    // (3, 3 + 1): 4 > 2 + 1, the renderer panics ("SourceAnnotation range `(3, 4)` is beyond the end of buffer `2`").
    pub proof fn witness_crlf_annotation_beyond_source()
        ensures ({
            let t = seq!['"', '\r', '\n'];
            let eof = Position { full_index: 3, line_idx: 1, line_char_index: 0 };
            &&& !no_crlf(t)
            &&& span_ok(t, Span { start: eof, end: eof })
            &&& lines_of(t) == seq![seq!['"']]
            &&& sum_len(lines_of(t), 1) == 2        // characters of `source`
            &&& 3 + 1 > sum_len(lines_of(t), 1) + 1 // annotation end (EOF span widened by one) vs source length + 1
        })
    {
        let t = seq!['"', '\r', '\n'];
        assert(t[2] == '\n' && t[1] == '\r');
        reveal_with_fuel(newlines, 5);
        reveal_with_fuel(line_start, 5);
        assert(newlines(t, 3) == 1);
        assert(line_start(t, 3) == 3);
        reveal_with_fuel(lines_scan, 5);
        let raw = t.subrange(0, 2);
        assert(raw.last() == '\r');
        assert(strip_cr(raw) =~= seq!['"']);
        assert(lines_scan(t, 3, 3) =~= Seq::<Seq<char>>::empty());
        assert(lines_scan(t, 0, 2) =~= seq![seq!['"']]);
        assert(lines_of(t) =~= seq![seq!['"']]);
        reveal_with_fuel(sum_len, 3);
    }
} // mod lexer
}
} // verus!
fn main() {}
