// Replay of the C31 candidate finding on the REAL radix-transactions crate (unchanged /repo).
use radix_common::network::NetworkDefinition;
use radix_transactions::manifest::*;
use radix_transactions::manifest::lexer::tokenize;
use radix_transactions::prelude::TransactionManifestV1;
use std::panic::catch_unwind;

fn try_one(name: &str, text: &str) {
    let lexed = tokenize(text);
    println!("--- {name}: text = {text:?}");
    println!("    tokenize = {:?}", lexed.as_ref().map(|t| t.len()));
    let text_owned = text.to_string();
    let r = catch_unwind(move || {
        compile_manifest_with_pretty_error::<TransactionManifestV1>(
            &text_owned,
            &NetworkDefinition::simulator(),
            BlobProvider::new(),
            CompileErrorDiagnosticsStyle::PlainText,
        )
    });
    match r {
        Ok(Ok(_)) => println!("    compile_manifest_with_pretty_error = Ok(manifest)"),
        Ok(Err(s)) => println!("    compile_manifest_with_pretty_error = Err(diagnostic, {} bytes)", s.len()),
        Err(_) => println!("    compile_manifest_with_pretty_error PANICKED"),
    }
}

fn main() {
    // control: LF line ending, unterminated string at end of input
    try_one("lf_unterminated_string", "\"\n");
    // candidate: CRLF line ending, unterminated string at end of input
    try_one("crlf_unterminated_string", "\"\r\n");
    // candidate: three CRLF lines then an unexpected character
    try_one("crlf_lines_then_plus", "\r\n\r\n\r\n+");
    // realistic: a CRLF manifest whose last line has a lexer error
    try_one("crlf_manifest", "DROP_ALL_PROOFS;\r\nDROP_ALL_PROOFS;\r\nDROP_ALL_PROOFS;\r\n1x");
    // control: same with LF
    try_one("lf_manifest", "DROP_ALL_PROOFS;\nDROP_ALL_PROOFS;\nDROP_ALL_PROOFS;\n1x");
}
