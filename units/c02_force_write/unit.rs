// Unit c02_force_write -- property C02 "Failed, rejected and aborted transactions change nothing but fees"
// WHO may request FORCE_WRITE -- the lock flag / event flag that makes a substate / an event survive the revert of a failed
// transaction (units c02_result_type: revert + event drop guard; c12_track: Track::force_write). Four layers, bodies verbatim:
//  unit::sys   radix-engine/src/system/system.rs (SystemService against a ghost kernel, env adapted from c50_encapsulation / c51_locked_state):
//              actor_open_field + its whole resolution stack (get_actor_field_info, get_actor_info, get_actor_object_id, get_blueprint_info,
//              get_object_info, get_outer_object, is_feature_enabled, current_actor, TryFrom<ActorStateHandle>), actor_open_key_value_entry,
//              key_value_store_open_entry, actor_get_blueprint_id, actor_emit_event, emit_event_internal, get_actor_type_target,
//              SystemCostingApi::{lock_fee, start_lock_fee}; radix-engine/src/system/actor.rs Actor::{get_object_id, blueprint_id, node_id},
//              MethodActor::get_blueprint_id, MethodType::module_id; object_api.rs static_blueprint, ModuleId conversions; two sliced guards.
//              Method "sensitive callee": the env kernel_open_substate(_with_default) REQUIRES `special flag ==> field of a fungible-vault
//              object`; emit_event_internal REQUIRES `FORCE_WRITE event ==> the fungible vault blueprint is running`.
//  unit::io    radix-engine/src/kernel/substate_io.rs SubstateIO::{open_substate (tail cut), close_substate}: flags stored verbatim,
//              UNMODIFIED_BASE refused on heap / New / Updated, force_write invoked IFF the handle was opened with FORCE_WRITE.
//  unit::vault radix-engine/src/blueprints/resource/fungible/fungible_vault.rs FungibleVaultBlueprint::lock_fee (+ get_divisibility,
//              assert_not_frozen, check_fungible_amount, LiquidFungibleResource::{new, take_by_amount}) against a ghost-heap SystemApi
//              whose actor_open_field REQUIRES `FORCE_WRITE ==> liquid balance of an XRD vault`.
//  unit::compose  a failed transaction whose opens all met the sensitive-callee precondition keeps updates only on fields of
//              fungible-vault objects (hypothesis `reverted` = postcondition of c02_result_type's revert).
// Scope, assumptions and what is NOT covered: props.frag.json.
use vstd::prelude::*;
/// radix-rust `indexset!()` (only the empty form is used by the code under contract)
macro_rules! indexset { () => { index_set_new() }; }
verus! {
/*@include shims/rt.rs @*/
/*@include shims/bytes.rs @*/
/*@include shims/decimal.rs @*/
/*@include shims/decimal_attos.rs @*/

pub mod env {
    use vstd::prelude::*;

    // ---- shared plain data ---------------------------------------------------------------------------
    /// radix-common NodeId(pub [u8; NodeId::LENGTH]), LENGTH = 30
    #[derive(Clone, Copy)]
    pub struct NodeId(pub [u8; 30]);
    #[derive(Clone, Copy)]
    pub struct PartitionNumber(pub u8);
    pub enum SubstateKey { Field(u8), Map(Vec<u8>), Sorted(([u8; 2], Vec<u8>)) }
    /// identity of a substate (spec level)
    pub type SubstateId = (NodeId, PartitionNumber, SubstateKey);

    /// `bitflags! { pub struct LockFlags: u32 { const MUTABLE = 0b001; const UNMODIFIED_BASE = 0b010; const FORCE_WRITE = 0b100; } }`
    /// (radix-engine-interface/src/api/field_api.rs; a macro invocation, not reachable by the item extractor).
    /// ASSUMED (bitflags crate): `contains(o)` is `bits & o.bits == o.bits`, `a | b` is the bitwise or, `read_only()` = empty.
    #[derive(Clone, Copy)]
    pub struct LockFlags { pub bits: u32 }
    impl LockFlags {
        pub const MUTABLE: LockFlags = LockFlags { bits: 1 };
        pub const UNMODIFIED_BASE: LockFlags = LockFlags { bits: 2 };
        pub const FORCE_WRITE: LockFlags = LockFlags { bits: 4 };
        pub open spec fn has(self, o: LockFlags) -> bool { self.bits & o.bits == o.bits }
        pub fn contains(&self, other: LockFlags) -> (r: bool) ensures r == self.has(other) { self.bits & other.bits == other.bits }
        pub fn read_only() -> (r: LockFlags) ensures r.bits == 0 { LockFlags { bits: 0 } }
    }
    /// the oracle's reading of "opened with FORCE_WRITE"
    pub open spec fn fw(flags: LockFlags) -> bool { flags.bits & 4 == 4 }

    // ==================================================================================================
    // environment of kernel/substate_io.rs
    // ==================================================================================================
    pub mod io {
        use vstd::prelude::*;
        use super::{NodeId, PartitionNumber, SubstateKey, SubstateId, LockFlags};
        #[verifier::external_body]
        pub struct IndexedScryptoValue { x: Vec<u8> }
        #[verifier::external_body]
        pub struct Heap { x: u8 }
        #[verifier::external_body]
        pub struct NonGlobalNodeRefs { x: u8 }
        #[verifier::external_body]
        pub struct TransientSubstates { x: u8 }
        #[verifier::external_body]
        #[verifier::reject_recursive_types(T)]
        pub struct BTreeSet<T> { x: core::marker::PhantomData<T> }

        /// kernel/substate_locks.rs SubstateLocks<D>, opaque. ASSUMED contract of `unlock` = what unit c13_substate_locks
        /// proves on the real type: returns the entry stored under the handle and removes exactly that entry
        /// (the real code unwraps: an unknown handle is a panic, hence the precondition).
        #[verifier::external_body]
        #[verifier::reject_recursive_types(D)]
        pub struct SubstateLocks<D> { x: core::marker::PhantomData<D> }
        impl<D> SubstateLocks<D> {
            pub uninterp spec fn locks(&self) -> Map<u32, (NodeId, PartitionNumber, SubstateKey, D)>;
            #[verifier::external_body]
            pub fn unlock(&mut self, handle: u32) -> (r: (NodeId, PartitionNumber, SubstateKey, D))
                requires old(self).locks().contains_key(handle)
                ensures r == old(self).locks()[handle], final(self).locks() == old(self).locks().remove(handle)
            { unimplemented!() }
        }

        impl<D> SubstateLocks<D> {
            /// ASSUMED contract of `lock` = what unit c13_substate_locks proves: Some(h) ==> a FRESH handle now maps to exactly
            /// the given substate and data; None ==> nothing changes
            #[verifier::external_body]
            pub fn lock(&mut self, node_id: &NodeId, partition_num: PartitionNumber, substate_key: &SubstateKey, read_only: bool, data: D) -> (r: Option<u32>)
                ensures match r {
                    Some(h) => !old(self).locks().contains_key(h) && final(self).locks() == old(self).locks().insert(h, (*node_id, partition_num, *substate_key, data)),
                    None => final(self).locks() == old(self).locks(),
                }
            { unimplemented!() }
        }
        impl IndexedScryptoValue {
            #[verifier::external_body]
            pub fn owned_nodes(&self) -> (r: &Vec<NodeId>) { unimplemented!() }
        }
        impl Clone for SubstateKey {
            #[verifier::external_body]
            fn clone(&self) -> (r: Self) ensures r == *self { unimplemented!() }
        }
        pub mod error_models {
            use vstd::prelude::*;
            pub struct OwnedNodeId(pub super::NodeId);
            impl From<super::NodeId> for OwnedNodeId {
                fn from(n: super::NodeId) -> (r: OwnedNodeId) ensures r.0 == n { OwnedNodeId(n) }
            }
            impl vstd::std_specs::convert::FromSpecImpl<super::NodeId> for OwnedNodeId {
                open spec fn obeys_from_spec() -> bool { true }
                open spec fn from_spec(n: super::NodeId) -> OwnedNodeId { OwnedNodeId(n) }
            }
            pub struct ReferencedNodeId(pub super::NodeId);
        }
        pub struct ProcessSubstateKeyError;
        /// track/interface.rs
        pub enum CallbackError<E, C> { Error(E), CallbackError(C) }
        pub enum TrackedSubstateInfo { New, Updated, Unmodified }
        pub trait IOAccessHandler<E> {}
        use super::super::unit::io::{SubstateIO, SubstateDevice, LockData, OpenSubstateError};
        impl<'g, S: CommitableSubstateStore + 'g> SubstateIO<'g, S> {
            /// substate_io.rs get_substate_internal (private, NOT under contract): reads the substate from the heap or through
            /// the track. ASSUMED: the force-write log is untouched; a substate read through the store is tracked afterwards
            /// (MappedTrack::get_substate -> get_tracked_substate inserts the entry; unit c12_track)
            #[verifier::external_body]
            pub fn get_substate_internal<'a, E>(heap: &'a mut Heap, store: &'a mut S, location: SubstateDevice, node_id: &NodeId,
                    partition_num: PartitionNumber, substate_key: &SubstateKey, handler: &mut impl IOAccessHandler<E>)
                    -> (r: Result<Option<&'a IndexedScryptoValue>, CallbackError<OpenSubstateError, E>>)
                ensures
                    final(store).forced() == old(store).forced(),
                    forall|id: SubstateId| old(store).is_tracked(id) ==> final(store).is_tracked(id),
                    r is Ok && location is Store ==> final(store).is_tracked((*node_id, partition_num, *substate_key)),
                    r matches Err(e) ==> e is CallbackError || (e matches CallbackError::Error(x) && !(x is LockUnmodifiedBaseOnHeapNode)
                        && !(x is LockUnmodifiedBaseOnNewSubstate) && !(x is LockUnmodifiedBaseOnOnUpdatedSubstate)),
            { unimplemented!() }
            /// what is cut from open_substate by @drop-tail: picking the value to hand back (the stored one, or the virtualized
            /// default kept in the lock data) -- a closure borrowing `self.substate_locks`, not expressible in Verus
            #[verifier::external_body]
            pub fn open_substate_value_tail<'a, E>(locks: &'a SubstateLocks<LockData>, global_lock_handle: u32, substate_value: Option<&'a IndexedScryptoValue>)
                    -> (r: Result<(u32, &'a IndexedScryptoValue), CallbackError<OpenSubstateError, E>>)
                ensures r matches Ok(t) && t.0 == global_lock_handle
            { unimplemented!() }
        }

        /// track/interface.rs CommitableSubstateStore, reduced to `force_write`. Ghost state: the LOG of force_write calls
        /// (= what ends up in MappedTrack::force_write_tracked_nodes, unit c12_track) and which substates are tracked.
        /// `force_write` on an untracked substate panics in the real track ("Should not need to go into store on close
        /// substate", precondition of the contract proved in c12_track) -- so it is a precondition here.
        pub trait CommitableSubstateStore: Sized {
            spec fn forced(&self) -> Seq<SubstateId>;
            spec fn is_tracked(&self, id: SubstateId) -> bool;
            /// New = created / written by this transaction without a committed base, Updated = committed value overwritten, Unmodified
            spec fn info(&self, id: SubstateId) -> TrackedSubstateInfo;
            fn get_tracked_substate_info(&mut self, node_id: &NodeId, partition_num: PartitionNumber, substate_key: &SubstateKey) -> (r: TrackedSubstateInfo)
                ensures *final(self) == *old(self), r == old(self).info((*node_id, partition_num, *substate_key));
            fn force_write(&mut self, node_id: &NodeId, partition_num: &PartitionNumber, substate_key: &SubstateKey)
                requires old(self).is_tracked((*node_id, *partition_num, *substate_key))
                ensures final(self).forced() == old(self).forced().push((*node_id, *partition_num, *substate_key)),
                        forall|id: SubstateId| final(self).is_tracked(id) == old(self).is_tracked(id);
        }
    }
    // ==================================================================================================
    // environment of system/system.rs (SystemService against a ghost kernel) -- adapted from unit c50_encapsulation
    // ==================================================================================================
    pub mod sys {
        use vstd::prelude::*;
        use super::{NodeId, PartitionNumber, SubstateKey, SubstateId, LockFlags};
        use super::super::unit::sys::{Actor, ObjectInfo, BlueprintId, BlueprintInfo, SystemService, AttachedModuleId, ModuleId, MethodType,
            OuterObjectInfo, FieldSubstate, KeyValueEntrySubstate, SystemLockData, ActorStateRef, Event};

        // ---- addresses ----------------------------------------------------------------------------------
        /// radix-common GlobalAddress / PackageAddress: new-types over NodeId
        #[derive(Clone, Copy)]
        pub struct GlobalAddress(pub NodeId);
        #[derive(Clone, Copy)]
        pub struct PackageAddress(pub NodeId);
        impl GlobalAddress {
            pub fn as_node_id(&self) -> (r: &NodeId) ensures *r == self.0 { &self.0 }
            pub fn into_node_id(self) -> (r: NodeId) ensures r == self.0 { self.0 }
        }
        impl PartialEq for PackageAddress {
            #[verifier::external_body]
            fn eq(&self, other: &Self) -> (r: bool) ensures r == (*self == *other) { unimplemented!() }
        }
        impl vstd::std_specs::cmp::PartialEqSpecImpl for PackageAddress {
            open spec fn obeys_eq_spec() -> bool { true }
            open spec fn eq_spec(&self, other: &Self) -> bool { *self == *other }
        }
        pub const RESOURCE_PACKAGE: PackageAddress = PackageAddress(NodeId(/*@expr-after radix-common/src/constants/native_addresses.rs :: const RESOURCE_PACKAGE :: <<new_or_panic(>> @*/));
        pub const METADATA_MODULE_PACKAGE: PackageAddress = PackageAddress(NodeId(/*@expr-after radix-common/src/constants/native_addresses.rs :: const METADATA_MODULE_PACKAGE :: <<new_or_panic(>> @*/));
        pub const ROYALTY_MODULE_PACKAGE: PackageAddress = PackageAddress(NodeId(/*@expr-after radix-common/src/constants/native_addresses.rs :: const ROYALTY_MODULE_PACKAGE :: <<new_or_panic(>> @*/));
        pub const ROLE_ASSIGNMENT_MODULE_PACKAGE: PackageAddress = PackageAddress(NodeId(/*@expr-after radix-common/src/constants/native_addresses.rs :: const ROLE_ASSIGNMENT_MODULE_PACKAGE :: <<new_or_panic(>> @*/));
        pub const FUNGIBLE_VAULT_BLUEPRINT: &'static str = /*@expr-after radix-engine-interface/src/blueprints/resource/fungible/fungible_vault.rs :: const FUNGIBLE_VAULT_BLUEPRINT :: <<&str =>> @*/;
        pub const METADATA_BLUEPRINT: &'static str = /*@expr-after radix-engine-interface/src/object_modules/metadata/invocations.rs :: const METADATA_BLUEPRINT :: <<&str =>> @*/;
        pub const COMPONENT_ROYALTY_BLUEPRINT: &'static str = /*@expr-after radix-engine-interface/src/object_modules/royalty/invocations.rs :: const COMPONENT_ROYALTY_BLUEPRINT :: <<&str =>> @*/;
        pub const ROLE_ASSIGNMENT_BLUEPRINT: &'static str = /*@expr-after radix-engine-interface/src/object_modules/role_assignment/invocations.rs :: const ROLE_ASSIGNMENT_BLUEPRINT :: <<&str =>> @*/;

        // ---- BlueprintId (struct extracted in `unit::sys`): `new`, derived PartialEq / Clone -------------
        /// derived `PartialEq` of BlueprintId { package_address, blueprint_name: String }: same package, same name TEXT
        pub open spec fn bp_eq(a: BlueprintId, b: BlueprintId) -> bool {
            a.package_address == b.package_address && a.blueprint_name@ == b.blueprint_name@
        }
        impl BlueprintId {
            /// radix-common/src/types/blueprint_id.rs: `BlueprintId { package_address: *p, blueprint_name: name.to_string() }`
            #[verifier::external_body]
            pub fn new(package_address: &PackageAddress, blueprint_name: &str) -> (r: Self)
                ensures r.package_address == *package_address, r.blueprint_name@ == blueprint_name@
            { unimplemented!() }
        }
        impl PartialEq for BlueprintId {
            #[verifier::external_body]
            fn eq(&self, other: &Self) -> (r: bool) ensures r == bp_eq(*self, *other) { unimplemented!() }
        }
        impl vstd::std_specs::cmp::PartialEqSpecImpl for BlueprintId {
            open spec fn obeys_eq_spec() -> bool { true }
            open spec fn eq_spec(&self, other: &Self) -> bool { bp_eq(*self, *other) }
        }
        impl Clone for BlueprintId {
            #[verifier::external_body]
            fn clone(&self) -> (r: Self) ensures r == *self { unimplemented!() }
        }
        impl Clone for Actor {
            #[verifier::external_body]
            fn clone(&self) -> (r: Self) ensures r == *self { unimplemented!() }
        }
        /// `String == str` (std): same text
        pub assume_specification[<String as PartialEq<str>>::eq](a: &String, b: &str) -> (r: bool)
            ensures r == (a@ == b@);

        // ---- object info pieces not looked at ------------------------------------------------------------
        #[verifier::external_body]
        pub struct BlueprintVersion { x: u8 }
        #[verifier::external_body]
        pub struct GenericSubstitution { x: u8 }
        #[verifier::external_body]
        #[verifier::reject_recursive_types(T)]
        pub struct IndexSet<T> { x: core::marker::PhantomData<T> }
        impl IndexSet<String> {
            #[verifier::external_body]
            pub fn contains(&self, value: &str) -> (r: bool) { unimplemented!() }
        }
        #[verifier::external_body]
        pub fn index_set_new<T>() -> (r: IndexSet<T>) { unimplemented!() }
        /// indexmap, only named by ObjectType::Global { modules }
        #[verifier::external_body]
        #[verifier::reject_recursive_types(K)]
        #[verifier::reject_recursive_types(V)]
        pub struct IndexMap<K, V> { k: core::marker::PhantomData<(K, V)> }
        impl Default for BlueprintVersion {
            #[verifier::external_body]
            fn default() -> (r: Self) { unimplemented!() }
        }
        #[verifier::external_body]
        pub struct BlueprintHook { x: u8 }
        #[verifier::external_body]
        pub struct KeyValueStoreGenericSubstitutions { x: u8 }
        pub struct KeyValueStoreInfo { pub generic_substitutions: KeyValueStoreGenericSubstitutions }
        pub struct KVStoreTypeTarget { pub kv_store_type: KeyValueStoreGenericSubstitutions, pub meta: NodeId }

        // ---- substates, partitions ------------------------------------------------------------------------
        #[derive(Clone, Copy)]
        pub struct PartitionOffset(pub u8);
        pub const METADATA_BASE_PARTITION: PartitionNumber = /*@expr-after radix-engine-interface/src/types/node_layout.rs :: const METADATA_BASE_PARTITION :: <<PartitionNumber =>> @*/;
        pub const ROYALTY_BASE_PARTITION: PartitionNumber = /*@expr-after radix-engine-interface/src/types/node_layout.rs :: const ROYALTY_BASE_PARTITION :: <<PartitionNumber =>> @*/;
        pub const ROLE_ASSIGNMENT_BASE_PARTITION: PartitionNumber = /*@expr-after radix-engine-interface/src/types/node_layout.rs :: const ROLE_ASSIGNMENT_BASE_PARTITION :: <<PartitionNumber =>> @*/;
        pub const MAIN_BASE_PARTITION: PartitionNumber = /*@expr-after radix-engine-interface/src/types/node_layout.rs :: const MAIN_BASE_PARTITION :: <<PartitionNumber =>> @*/;
        pub type SubstateHandle = u32;
        pub type KeyValueEntryHandle = u32;
        pub type CollectionIndex = u8;

        // ---- SBOR, uninterpreted: `dec::<T>(bytes)` is what decoding `bytes` as a T yields ----------------
        pub uninterp spec fn dec<T>(b: Seq<u8>) -> Option<T>;
        pub struct DecodeError;
        pub struct EncodeError;
        #[verifier::external]
        impl core::fmt::Debug for DecodeError { fn fmt(&self, f: &mut core::fmt::Formatter<'_>) -> core::fmt::Result { f.write_str("DecodeError") } }
        #[verifier::external]
        impl core::fmt::Debug for EncodeError { fn fmt(&self, f: &mut core::fmt::Formatter<'_>) -> core::fmt::Result { f.write_str("EncodeError") } }
        #[verifier::external_body]
        pub struct IndexedScryptoValue { x: Vec<u8> }
        impl IndexedScryptoValue {
            pub uninterp spec fn bytes(self) -> Seq<u8>;
            #[verifier::external_body]
            pub fn from_typed<T>(value: &T) -> (r: Self) ensures dec::<T>(r.bytes()) == Some(*value) { unimplemented!() }
            #[verifier::external_body]
            pub fn as_typed<T>(&self) -> (r: Result<T, DecodeError>)
                ensures match dec::<T>(self.bytes()) { Some(t) => r == Ok::<T, DecodeError>(t), None => r is Err }
            { unimplemented!() }
        }
        #[verifier::external_body]
        pub struct ScryptoValue { x: Vec<u8> }
        /// ASSUMED: decoding is a function of the bytes; encoding then decoding at the same type is the identity; encoding
        /// does not fail on the values passed here (the real code unwraps)
        #[verifier::external_body]
        pub fn scrypto_decode<T>(buf: &[u8]) -> (r: Result<T, DecodeError>)
            ensures match dec::<T>(buf@) { Some(t) => r == Ok::<T, DecodeError>(t), None => r is Err }
        { unimplemented!() }
        #[verifier::external_body]
        pub fn scrypto_encode<T>(value: &T) -> (r: Result<Vec<u8>, EncodeError>)
            ensures r matches Ok(b) && dec::<T>(b@) == Some(*value)
        { unimplemented!() }
        pub open spec fn field_of(v: IndexedScryptoValue) -> Option<FieldSubstate<ScryptoValue>> { dec(v.bytes()) }
        pub open spec fn kv_of(v: IndexedScryptoValue) -> Option<KeyValueEntrySubstate<ScryptoValue>> { dec(v.bytes()) }

        /// system_type_checker.rs
        pub enum SchemaValidationMeta { ExistingObject { additional_schemas: NodeId }, Blueprint }
        pub struct BlueprintTypeTarget { pub blueprint_info: BlueprintInfo, pub meta: SchemaValidationMeta }
        pub enum KeyOrValue { Key, Value }
        pub enum BlueprintPayloadIdentifier { Field(u8), KeyValueEntry(u8, KeyOrValue), Event(String), Other }
        /// the image of the one `panic!` in get_actor_field_info (see the @subst there): abort
        #[verifier::external_body]
        pub fn panic_abort() -> ! { unimplemented!() }

        // ---- `bitflags! { pub struct EventFlags: u32 { const FORCE_WRITE = 0b00000001; } }` (radix-engine-interface/src/api/actor_api.rs)
        /// ASSUMED (bitflags crate): `contains(other)` is `self.bits & other.bits == other.bits`; FORCE_WRITE is bit 0.
        #[derive(Clone, Copy)]
        pub struct EventFlags { pub bits: u32 }
        impl EventFlags {
            pub const FORCE_WRITE: EventFlags = EventFlags { bits: 1 };
            pub open spec fn has(self, o: EventFlags) -> bool { self.bits & o.bits == o.bits }
            pub fn contains(&self, other: EventFlags) -> (r: bool) ensures r == self.has(other) { self.bits & other.bits == other.bits }
        }
        /// the oracle's reading of "event emitted with FORCE_WRITE" (= the test of TransactionRuntimeModule::finalize, unit c02_result_type)
        pub open spec fn efw(flags: EventFlags) -> bool { flags.bits & 1 == 1 }

        // ---- system modules reachable through kernel_get_system() ------------------------------------------
        /// `bitflags! EnabledModules` (module_mixer.rs); only COSTING is consulted by the code under contract
        #[derive(Clone, Copy)]
        pub struct EnabledModules { pub bits: u32 }
        impl EnabledModules {
            pub const COSTING: EnabledModules = EnabledModules { bits: 0x08 };
            pub open spec fn has(self, o: EnabledModules) -> bool { self.bits & o.bits == o.bits }
            pub fn contains(&self, other: EnabledModules) -> (r: bool) ensures r == self.has(other) { self.bits & other.bits == other.bits }
        }
        /// costing_module.rs ExecutionCostingEntry, reduced to the entries built by the code under contract
        pub enum ExecutionCostingEntry { QueryActor, LockFee, EmitEvent { size: usize }, Other }
        /// radix-engine-interface LiquidFungibleResource { amount: Decimal } -- the amount is opaque at this level
        #[verifier::external_body]
        #[derive(Clone, Copy)]
        pub struct Decimal { x: u8 }
        pub struct LiquidFungibleResource { pub amount: Decimal }
        impl LiquidFungibleResource {
            pub fn amount(&self) -> (r: Decimal) ensures r == self.amount { self.amount }
        }
        impl Clone for LiquidFungibleResource {
            fn clone(&self) -> (r: Self) ensures r == *self { LiquidFungibleResource { amount: self.amount } }
        }
        /// blueprints/resource/events/fungible_vault.rs `define_events!{ LockFeeEvent, .. }` (macro generated: `pub struct $name { pub amount: Decimal }`);
        /// `#[derive(ScryptoEvent)]` gives `EVENT_NAME = stringify!(LockFeeEvent)` (ASSUMED copy)
        pub struct LockFeeEvent { pub amount: Decimal }
        impl LockFeeEvent { pub const EVENT_NAME: &'static str = "LockFeeEvent"; }
        /// one credit of the fee reserve: (paying vault, amount, contingent)
        pub type FeeLock = (NodeId, LiquidFungibleResource, bool);
        /// a payload of this length passes the event size limit (limits module disabled, or len <= max_event_size; the
        /// limits configuration is fixed for the whole transaction)
        pub uninterp spec fn event_fits(len: nat) -> bool;
        #[verifier::external_body]
        pub struct MixerState { x: u8 }
        impl MixerState {
            pub uninterp spec fn events(&self) -> Seq<Event>;
            pub uninterp spec fn fee_locks(&self) -> Seq<FeeLock>;
        }
        /// module_mixer.rs SystemModuleMixer, opaque but for `enabled_modules`. Ghost state: the event store of the
        /// transaction-runtime module and the log of fee-reserve credits of the costing module.
        pub struct SystemModuleMixer { pub enabled_modules: EnabledModules, pub g: MixerState }
        impl SystemModuleMixer {
            pub open spec fn events(&self) -> Seq<Event> { self.g.events() }
            pub open spec fn fee_locks(&self) -> Seq<FeeLock> { self.g.fee_locks() }
            /// costing only: may fail (out of cost units ..), touches neither the event store nor the credits
            #[verifier::external_body]
            pub fn apply_execution_cost(&mut self, costing_entry: ExecutionCostingEntry) -> (r: Result<(), RuntimeError>)
                ensures final(self).events() == old(self).events(), final(self).fee_locks() == old(self).fee_locks(),
                        final(self).enabled_modules == old(self).enabled_modules,
                        r matches Err(e) ==> e is Environment,
            { unimplemented!() }
            #[verifier::external_body]
            pub fn assert_can_add_event(&mut self) -> (r: Result<(), RuntimeError>)
                ensures final(self).events() == old(self).events(), final(self).fee_locks() == old(self).fee_locks(),
                        final(self).enabled_modules == old(self).enabled_modules,
                        r matches Err(e) ==> e is Environment,
            { unimplemented!() }
            /// module_mixer.rs: size limit check, then TransactionRuntimeModule::add_event (push; unit c02_result_type).
            /// (If the transaction-runtime module is disabled nothing is recorded: then there are no events at all.)
            #[verifier::external_body]
            pub fn add_event_unchecked(&mut self, event: Event) -> (r: Result<(), RuntimeError>)
                ensures r is Ok ==> final(self).events() == old(self).events().push(event),
                        // the only refusal: limits module enabled and payload longer than max_event_size
                        event_fits(event.payload@.len()) ==> r is Ok,
                        r matches Err(e) ==> e is Environment && final(self).events() == old(self).events(),
                        final(self).fee_locks() == old(self).fee_locks(), final(self).enabled_modules == old(self).enabled_modules,
            { unimplemented!() }
            #[verifier::external_body]
            pub fn checked_add_event(&mut self, event: Event) -> (r: Result<(), RuntimeError>)
                ensures r is Ok ==> final(self).events() == old(self).events().push(event),
                        r matches Err(e) ==> e is Environment && final(self).events() == old(self).events(),
                        final(self).fee_locks() == old(self).fee_locks(), final(self).enabled_modules == old(self).enabled_modules,
            { unimplemented!() }
            /// module_mixer.rs: forwards to CostingModule::lock_fee -> SystemLoanFeeReserve::lock_fee; PANICS when the costing
            /// module is disabled ("Fungible Vault Application layer should prevent call to credit if costing not enabled")
            #[verifier::external_body]
            pub fn lock_fee(&mut self, vault_id: NodeId, locked_fee: LiquidFungibleResource, contingent: bool)
                requires old(self).enabled_modules.has(EnabledModules::COSTING)
                ensures final(self).fee_locks() == old(self).fee_locks().push((vault_id, locked_fee, contingent)),
                        final(self).events() == old(self).events(), final(self).enabled_modules == old(self).enabled_modules,
            { unimplemented!() }
        }
        pub struct System { pub modules: SystemModuleMixer }
        /// radix-engine-interface object_api.rs `pub type ObjectModuleId = ModuleId;`
        pub type ObjectModuleId = ModuleId;

        // ---- blueprint definitions ---------------------------------------------------------------------------
        #[verifier::external_body]
        pub struct IndexedStateSchema { x: u8 }
        /// radix-blueprint-schema-init
        pub enum Condition { Always, IfFeature(String), IfOuterFeature(String) }
        pub enum FieldTransience { NotTransient, TransientStatic { default_value: Vec<u8> } }
        pub enum PartitionDescription { Logical(PartitionOffset), Physical(PartitionNumber) }
        pub struct FieldSchema { pub condition: Condition, pub transience: FieldTransience }
        impl IndexedStateSchema {
            /// blueprints/package/substates.rs, not under contract. ASSUMED of installed definitions: logical offsets stay below 192
            /// (no u8 overflow from a module base, the real code `expect`s it), a transient field's default value is valid SBOR
            /// (the real code unwraps its decoding)
            #[verifier::external_body]
            pub fn field(&self, field_index: u8) -> (r: Option<(PartitionDescription, FieldSchema)>)
                ensures r matches Some(t) ==> (t.0 matches PartitionDescription::Logical(o) ==> o.0 < 192)
                    && (t.1.transience matches FieldTransience::TransientStatic { default_value } ==> dec::<ScryptoValue>(default_value@) is Some)
            { unimplemented!() }
            #[verifier::external_body]
            pub fn get_partition(&self, collection_index: u8) -> (r: Option<(PartitionDescription, BlueprintPartitionType)>)
                ensures r matches Some(t) ==> (t.0 matches PartitionDescription::Logical(o) ==> o.0 < 192)
            { unimplemented!() }
        }
        #[derive(Clone, Copy)]
        pub enum BlueprintPartitionType { KeyValueCollection, IndexCollection, SortedIndexCollection }
        impl PartialEq for BlueprintPartitionType {
            #[verifier::external_body]
            fn eq(&self, other: &Self) -> (r: bool) ensures r == (*self == *other) { unimplemented!() }
        }
        impl vstd::std_specs::cmp::PartialEqSpecImpl for BlueprintPartitionType {
            open spec fn obeys_eq_spec() -> bool { true }
            open spec fn eq_spec(&self, other: &Self) -> bool { *self == *other }
        }
        /// `x.to_owned()` for T: Clone is a clone (only used to fill an error value)
        pub assume_specification<T: Clone>[<T as std::borrow::ToOwned>::to_owned](_0: &T) -> T;
        pub struct BlueprintInterface { pub is_transient: bool, pub state: IndexedStateSchema }
        pub struct BlueprintDefinition { pub interface: BlueprintInterface }

        pub struct GlobalAddressPhantom { pub blueprint_id: BlueprintId }
        /// radix-engine/src/system/type_info.rs
        pub enum TypeInfoSubstate {
            Object(ObjectInfo),
            KeyValueStore(KeyValueStoreInfo),
            GlobalAddressReservation(GlobalAddress),
            GlobalAddressPhantom(GlobalAddressPhantom),
        }

        /// RuntimeError (radix-engine/src/errors.rs) reduced: `Environment` = every error only the kernel / other modules raise
        pub enum RuntimeError { SystemError(SystemError), SystemModuleError(SystemModuleError), Environment }
        // `Result::unwrap` (the R5 image of `.expect(..)`) needs `E: Debug`; formatting is not under contract
        #[verifier::external]
        impl core::fmt::Debug for RuntimeError { fn fmt(&self, f: &mut core::fmt::Formatter<'_>) -> core::fmt::Result { f.write_str("RuntimeError") } }
        pub enum SystemModuleError { EventError(Box<EventError>), Other }
        pub enum EventError { InvalidActor, Other }
        pub type ActorStateHandle = u32;
        pub enum SystemError {
            NotAnObject,
            InvalidActorStateHandle,
            InvalidLockFlags,
            ForceWriteEventFlagsNotAllowed,
            NoBlueprintId,
            RootHasNoType,
            CannotLockFeeInChildSubintent(usize),
            FieldDoesNotExist(BlueprintId, u8),
            CollectionIndexDoesNotExist(BlueprintId, u8),
            CollectionIndexIsOfWrongType(BlueprintId, u8, BlueprintPartitionType, BlueprintPartitionType),
            OuterObjectDoesNotExist,
            NotAKeyValueStore,
            FieldLocked(ActorStateHandle, u8),
            KeyValueEntryLocked,
            Other,
        }

        // ---- ghost kernel state ---------------------------------------------------------------------------
        /// what the kernel remembers of an open substate handle: the substate, the flags it was opened with (kernel/substate_io.rs
        /// LockData.flags -- what close_substate consults), the system's lock data
        pub ghost struct HInfo { pub id: SubstateId, pub flags: LockFlags, pub data: SystemLockData }
        pub ghost struct KState {
            /// for every live node: what TypeInfoBlueprint::get_type returns for it
            pub type_info: Map<NodeId, TypeInfoSubstate>,
            /// the actor of the current call frame (fixed during a system call)
            pub actor: Actor,
            /// open substate handles
            pub handles: Map<SubstateHandle, HInfo>,
        }
        /// kernel_api.rs SystemState, with M = System
        pub struct SystemState<'a> {
            pub system: &'a mut System,
            pub current_call_frame: &'a Actor,
            pub caller_call_frame: &'a Actor,
        }

        // ================================================================================================
        // ORACLE of property C02 / mechanism "FORCE_WRITE only for the fungible vault" (written from the statement;
        // the kernel primitive carries it as PRECONDITION)
        // ================================================================================================
        /// THE native fungible vault blueprint: package RESOURCE_PACKAGE, name "FungibleVault"
        pub open spec fn is_fungible_vault_id(id: BlueprintId) -> bool {
            id.package_address == RESOURCE_PACKAGE && id.blueprint_name@ == FUNGIBLE_VAULT_BLUEPRINT@
        }
        /// node `n` is a live OBJECT whose own blueprint (type info) is the native fungible vault
        pub open spec fn is_fungible_vault(s: KState, n: NodeId) -> bool {
            s.type_info.contains_key(n) && (s.type_info[n] matches TypeInfoSubstate::Object(info) && is_fungible_vault_id(info.blueprint_info.blueprint_id))
        }
        /// the two "special" lock flags of the fee path: FORCE_WRITE (survives the revert of a failed transaction) and
        /// UNMODIFIED_BASE (the substate must be untouched by this transaction) -- system.rs guards both with ONE test
        pub open spec fn special(flags: LockFlags) -> bool { flags.has(LockFlags::UNMODIFIED_BASE) || flags.has(LockFlags::FORCE_WRITE) }
        /// C02: a substate may be opened with a special flag only if it is a FIELD of a fungible-vault object
        pub open spec fn special_open_permitted(s: KState, n: NodeId, key: SubstateKey) -> bool {
            key is Field && is_fungible_vault(s, n)
        }
        /// C02: the code running in the current call frame is the fungible vault blueprint's: a main/direct method of a
        /// fungible-vault object, or a function / hook of that blueprint (module methods run the MODULE's blueprint)
        pub open spec fn runs_fungible_vault(a: Actor) -> bool {
            match a {
                Actor::Root => false,
                Actor::Function(f) => is_fungible_vault_id(f.blueprint_id),
                Actor::BlueprintHook(h) => is_fungible_vault_id(h.blueprint_id),
                Actor::Method(m) => !(m.method_type is Module) && is_fungible_vault_id(m.object_info.blueprint_info.blueprint_id),
            }
        }
        pub open spec fn module_package(m: AttachedModuleId) -> PackageAddress {
            match m { AttachedModuleId::Metadata => METADATA_MODULE_PACKAGE, AttachedModuleId::Royalty => ROYALTY_MODULE_PACKAGE, AttachedModuleId::RoleAssignment => ROLE_ASSIGNMENT_MODULE_PACKAGE }
        }
        pub open spec fn module_name(m: AttachedModuleId) -> Seq<char> {
            match m { AttachedModuleId::Metadata => METADATA_BLUEPRINT@, AttachedModuleId::Royalty => COMPONENT_ROYALTY_BLUEPRINT@, AttachedModuleId::RoleAssignment => ROLE_ASSIGNMENT_BLUEPRINT@ }
        }
        /// `id` is the static blueprint of object module `m`
        pub open spec fn is_module_blueprint(id: BlueprintId, m: AttachedModuleId) -> bool {
            id.package_address == module_package(m) && id.blueprint_name@ == module_name(m)
        }
        /// `id` is the blueprint whose code runs in the call frame of actor `a`
        pub open spec fn is_running_blueprint(a: Actor, id: Option<BlueprintId>) -> bool {
            match a {
                Actor::Root => id is None,
                Actor::Function(f) => id == Some(f.blueprint_id),
                Actor::BlueprintHook(h) => id == Some(h.blueprint_id),
                Actor::Method(m) => id matches Some(b) && match m.method_type {
                    MethodType::Module(module) => is_module_blueprint(b, module),
                    _ => b == m.object_info.blueprint_info.blueprint_id,
                },
            }
        }
        pub open spec fn outer_of(info: ObjectInfo) -> Option<GlobalAddress> {
            match info.blueprint_info.outer_obj_info { OuterObjectInfo::Some { outer_object } => Some(outer_object), OuterObjectInfo::None => None }
        }
        /// "the current actor's own object": the receiver of the running method together with the module the method
        /// belongs to (None = the object's own blueprint state), or the receiver of a blueprint hook
        pub open spec fn own_object(a: Actor) -> Option<(NodeId, Option<AttachedModuleId>)> {
            match a {
                Actor::Method(m) => Some((m.node_id, match m.method_type { MethodType::Module(x) => Some(x), _ => None })),
                Actor::BlueprintHook(h) => match h.receiver { Some(n) => Some((n, None)), None => None },
                _ => None,
            }
        }
        /// errors of resolving the actor / its blueprint info, or of the kernel: anything but the two flag errors
        pub open spec fn res_err(e: RuntimeError) -> bool {
            e is Environment || (e matches RuntimeError::SystemError(se) && !(se is InvalidLockFlags) && !(se is ForceWriteEventFlagsNotAllowed))
        }
        pub open spec fn same_but_handles(s0: KState, s1: KState) -> bool { s1.type_info == s0.type_info && s1.actor == s0.actor }
        /// (ASSUMED typing of stored substates) a substate opened with Field / KeyValueEntry lock data decodes as a
        /// FieldSubstate / KeyValueEntrySubstate wrapper -- the system `unwrap`s these decodings
        pub open spec fn typed(d: SystemLockData, v: IndexedScryptoValue) -> bool {
            (d is Field ==> field_of(v) is Some) && (d is KeyValueEntry ==> kv_of(v) is Some)
        }
        pub open spec fn opened(s0: KState, s1: KState, h: SubstateHandle, id: SubstateId, flags: LockFlags, data: SystemLockData) -> bool {
            !s0.handles.contains_key(h) && s1.handles == s0.handles.insert(h, HInfo { id, flags, data })
        }

        /// The kernel as seen by the system layer (kernel_api.rs KernelSubstateApi<SystemLockData> / KernelInternalApi).
        /// Any call may fail for its own reasons (costing, limits, substate locks, bad handle); `Err` changes nothing.
        pub trait SystemBasedKernelApi: Sized {
            spec fn st(&self) -> KState;
            /// the system (module mixer) behind kernel_get_system(); disjoint from the kernel's ghost state
            spec fn sys(&self) -> System;

            fn kernel_get_system_state(&mut self) -> (r: SystemState<'_>)
                ensures *r.current_call_frame == old(self).st().actor, final(self).st() == old(self).st(),
                        *r.system == old(self).sys(), final(self).sys() == *final(r.system);

            /// kernel_api.rs PROVIDED method: `self.kernel_get_system_state().system`
            fn kernel_get_system(&mut self) -> (r: &mut System)
                ensures *r == old(self).sys(), final(self).sys() == *final(r), final(self).st() == old(self).st();

            /// the intent (stack) the current call frame belongs to: 0 = the root transaction intent
            spec fn stack_id(&self) -> usize;
            fn kernel_get_current_stack_id_uncosted(&self) -> (r: usize) ensures r == self.stack_id();

            /// THE SENSITIVE CALLEE: a special flag (FORCE_WRITE / UNMODIFIED_BASE) reaches the kernel only for a field of a
            /// fungible-vault object. The kernel stores `flags` with the handle (substate_io.rs LockData).
            fn kernel_open_substate_with_default<F: FnOnce() -> IndexedScryptoValue>(&mut self, node_id: &NodeId, partition_num: PartitionNumber,
                    substate_key: &SubstateKey, flags: LockFlags, default: Option<F>, lock_data: SystemLockData) -> (r: Result<SubstateHandle, RuntimeError>)
                requires
                    default matches Some(f) ==> f.requires(()),
                    special(flags) ==> special_open_permitted(old(self).st(), *node_id, *substate_key),
                ensures
                    same_but_handles(old(self).st(), final(self).st()), final(self).sys() == old(self).sys(),
                    r matches Ok(h) ==> opened(old(self).st(), final(self).st(), h, (*node_id, partition_num, *substate_key), flags, lock_data),
                    r matches Err(e) ==> e is Environment && final(self).st() == old(self).st();

            fn kernel_open_substate(&mut self, node_id: &NodeId, partition_num: PartitionNumber, substate_key: &SubstateKey,
                    flags: LockFlags, lock_data: SystemLockData) -> (r: Result<SubstateHandle, RuntimeError>)
                requires
                    special(flags) ==> special_open_permitted(old(self).st(), *node_id, *substate_key),
                ensures
                    same_but_handles(old(self).st(), final(self).st()), final(self).sys() == old(self).sys(),
                    r matches Ok(h) ==> opened(old(self).st(), final(self).st(), h, (*node_id, partition_num, *substate_key), flags, lock_data),
                    r matches Err(e) ==> e is Environment && final(self).st() == old(self).st();

            fn kernel_mark_substate_as_transient(&mut self, node_id: NodeId, partition_num: PartitionNumber, key: SubstateKey) -> (r: Result<(), RuntimeError>)
                ensures final(self).st() == old(self).st(), final(self).sys() == old(self).sys(), r matches Err(e) ==> e is Environment;

            fn kernel_read_substate(&mut self, lock_handle: SubstateHandle) -> (r: Result<&IndexedScryptoValue, RuntimeError>)
                ensures
                    final(self).st() == old(self).st(), final(self).sys() == old(self).sys(),
                    r matches Ok(v) ==> old(self).st().handles.contains_key(lock_handle) && typed(old(self).st().handles[lock_handle].data, *v),
                    r matches Err(e) ==> e is Environment;
        }

        /// system/type_info.rs: reads the TypeInfo substate of a node (open with LockFlags::read_only(), read, close). ASSUMED: net effect nil.
        pub struct TypeInfoBlueprint;
        impl TypeInfoBlueprint {
            #[verifier::external_body]
            pub fn get_type<Y: SystemBasedKernelApi>(receiver: &NodeId, api: &mut Y) -> (r: Result<TypeInfoSubstate, RuntimeError>)
                ensures final(api).st() == old(api).st(), final(api).sys() == old(api).sys(),
                        r matches Ok(t) ==> old(api).st().type_info.contains_key(*receiver) && t == old(api).st().type_info[*receiver],
                        r matches Err(e) ==> e is Environment,
            { unimplemented!() }
        }

        impl<'a, Y: SystemBasedKernelApi> SystemService<'a, Y> {
            /// system.rs, not under contract: loads the definition from the package (cache / substate reads with
            /// LockFlags::read_only()). ASSUMED: no effect on the ghost state.
            #[verifier::external_body]
            pub fn get_blueprint_default_definition(&mut self, blueprint_id: BlueprintId) -> (r: Result<std::rc::Rc<BlueprintDefinition>, RuntimeError>)
                ensures final(self).api.st() == old(self).api.st(), final(self).api.sys() == old(self).api.sys(),
                        *final(final(self).api) == *final(old(self).api),
                        r matches Err(e) ==> e is Environment,
            { unimplemented!() }
            /// system_type_checker.rs: ASSUMED to leave the ghost state alone (it only reads schemas, LockFlags::read_only())
            #[verifier::external_body]
            pub fn validate_blueprint_payload(&mut self, target: &BlueprintTypeTarget, payload_identifier: BlueprintPayloadIdentifier, payload: &[u8]) -> (r: Result<(), RuntimeError>)
                ensures final(self).api.st() == old(self).api.st(), final(self).api.sys() == old(self).api.sys(),
                        *final(final(self).api) == *final(old(self).api),
                        r matches Err(e) ==> e is Environment,
            { unimplemented!() }
            #[verifier::external_body]
            pub fn validate_kv_store_payload(&mut self, target: &KVStoreTypeTarget, payload_identifier: KeyOrValue, payload: &[u8]) -> (r: Result<(), RuntimeError>)
                ensures final(self).api.st() == old(self).api.st(), final(self).api.sys() == old(self).api.sys(),
                        *final(final(self).api) == *final(old(self).api),
                        r matches Err(e) ==> e is Environment,
            { unimplemented!() }
        }
        pub const ACTOR_STATE_SELF: ActorStateHandle = /*@expr-after radix-engine-interface/src/api/mod.rs :: const ACTOR_STATE_SELF :: <<ActorStateHandle =>> @*/;
        pub const ACTOR_STATE_OUTER_OBJECT: ActorStateHandle = /*@expr-after radix-engine-interface/src/api/mod.rs :: const ACTOR_STATE_OUTER_OBJECT :: <<ActorStateHandle =>> @*/;
    }

    // ==================================================================================================
    // environment of the fungible vault BLUEPRINT (radix-engine-interface SystemApi as a ghost heap) -- adapted from
    // unit c03_fungible_supply, extended with lock flags on handles, the force-write log and the fee reserve credits
    // ==================================================================================================
    pub mod bp {
        use vstd::prelude::*;
        use super::super::decimal::*;
        use super::super::decimal::Decimal;
        use super::{NodeId, LockFlags, fw};
        use super::super::unit::vault::{VaultError, LiquidFungibleResource, VaultFrozenFlag};

        /// radix-common ResourceAddress: a new-type over NodeId; `new_or_panic` PANICS unless the entity-type byte is a
        /// resource's (GlobalFungibleResourceManager / GlobalNonFungibleResourceManager)
        #[derive(Clone, Copy)]
        pub struct ResourceAddress(pub NodeId);
        pub uninterp spec fn is_resource_entity(raw: [u8; 30]) -> bool;
        impl ResourceAddress {
            #[verifier::external_body]
            pub fn new_or_panic(raw: [u8; 30]) -> (r: Self) requires is_resource_entity(raw) ensures r == ResourceAddress(NodeId(raw)) { unimplemented!() }
        }
        impl PartialEq for ResourceAddress {
            #[verifier::external_body]
            fn eq(&self, other: &Self) -> (r: bool) ensures r == (*self == *other) { unimplemented!() }
        }
        impl vstd::std_specs::cmp::PartialEqSpecImpl for ResourceAddress {
            open spec fn obeys_eq_spec() -> bool { true }
            open spec fn eq_spec(&self, other: &Self) -> bool { *self == *other }
        }
        /// radix-common `impl From<NodeId> for [u8; NodeId::LENGTH]`
        impl From<NodeId> for [u8; 30] {
            fn from(n: NodeId) -> (r: [u8; 30]) ensures r == n.0 { n.0 }
        }
        impl vstd::std_specs::convert::FromSpecImpl<NodeId> for [u8; 30] {
            open spec fn obeys_from_spec() -> bool { true }
            open spec fn from_spec(n: NodeId) -> [u8; 30] { n.0 }
        }
        pub const XRD: ResourceAddress = ResourceAddress(NodeId(/*@expr-after radix-common/src/constants/native_addresses.rs :: const XRD :: <<new_or_panic(>> @*/));

        /// RuntimeError / ApplicationError (radix-engine/src/errors.rs) reduced to what is built here;
        /// `Environment` stands for every error that only the system itself raises (kernel, system, costing ..)
        pub enum ApplicationError { VaultError(VaultError), Other }
        pub enum RuntimeError { ApplicationError(ApplicationError), Environment }
        pub struct ProofError;
        #[verifier::external_body]
        pub struct NonFungibleLocalId { x: Vec<u8> }

        // ---- field API ------------------------------------------------------------------------------------
        pub type FieldHandle = u32;
        pub type FieldIndex = u8;
        pub type ActorStateHandle = u32;
        pub type ActorRefHandle = u32;
        pub const ACTOR_STATE_SELF: ActorStateHandle = /*@expr-after radix-engine-interface/src/api/mod.rs :: const ACTOR_STATE_SELF :: <<ActorStateHandle =>> @*/;
        pub const ACTOR_STATE_OUTER_OBJECT: ActorStateHandle = /*@expr-after radix-engine-interface/src/api/mod.rs :: const ACTOR_STATE_OUTER_OBJECT :: <<ActorStateHandle =>> @*/;
        pub const ACTOR_REF_OUTER: ActorRefHandle = /*@expr-after radix-engine-interface/src/api/mod.rs :: const ACTOR_REF_OUTER :: <<ActorRefHandle =>> @*/;
        /// a field of the current actor (SELF) or of its outer object (for a vault: the resource manager)
        pub type FieldRef = (ActorStateHandle, FieldIndex);
        /// bitflags `|`
        impl core::ops::BitOr for LockFlags {
            type Output = LockFlags;
            fn bitor(self, o: LockFlags) -> (r: LockFlags) ensures r.bits == self.bits | o.bits { LockFlags { bits: self.bits | o.bits } }
        }
        impl vstd::std_specs::ops::BitOrSpecImpl<LockFlags> for LockFlags {
            open spec fn obeys_bitor_spec() -> bool { true }
            open spec fn bitor_req(self, o: LockFlags) -> bool { true }
            open spec fn bitor_spec(self, o: LockFlags) -> LockFlags { LockFlags { bits: self.bits | o.bits } }
        }
        pub open spec fn is_mutable(flags: LockFlags) -> bool { flags.bits & 1 == 1 }

        /// `declare_native_blueprint_state!{ blueprint_ident: FungibleResourceManager, fields: { divisibility, total_supply } }`
        /// generates a `#[repr(u8)]` enum in declaration order with `From<..> for u8` (= discriminant)
        pub enum FungibleResourceManagerField { Divisibility, TotalSupply }
        pub open spec fn frm_idx(f: FungibleResourceManagerField) -> FieldIndex {
            match f { FungibleResourceManagerField::Divisibility => 0u8, FungibleResourceManagerField::TotalSupply => 1u8 }
        }
        impl From<FungibleResourceManagerField> for u8 {
            fn from(f: FungibleResourceManagerField) -> (r: u8) ensures r == frm_idx(f)
            { match f { FungibleResourceManagerField::Divisibility => 0u8, FungibleResourceManagerField::TotalSupply => 1u8 } }
        }
        impl vstd::std_specs::convert::FromSpecImpl<FungibleResourceManagerField> for u8 {
            open spec fn obeys_from_spec() -> bool { true }
            open spec fn from_spec(f: FungibleResourceManagerField) -> u8 { frm_idx(f) }
        }
        /// `declare_native_blueprint_state!{ blueprint_ident: FungibleVault, fields: { balance, locked_balance, freeze_status } }`
        pub enum FungibleVaultField { Balance, LockedBalance, FreezeStatus }
        pub open spec fn vault_idx(f: FungibleVaultField) -> FieldIndex {
            match f { FungibleVaultField::Balance => 0u8, FungibleVaultField::LockedBalance => 1u8, FungibleVaultField::FreezeStatus => 2u8 }
        }
        impl From<FungibleVaultField> for u8 {
            fn from(f: FungibleVaultField) -> (r: u8) ensures r == vault_idx(f)
            { match f { FungibleVaultField::Balance => 0u8, FungibleVaultField::LockedBalance => 1u8, FungibleVaultField::FreezeStatus => 2u8 } }
        }
        impl vstd::std_specs::convert::FromSpecImpl<FungibleVaultField> for u8 {
            open spec fn obeys_from_spec() -> bool { true }
            open spec fn from_spec(f: FungibleVaultField) -> u8 { vault_idx(f) }
        }
        /// the vault's fields when it is the actor: liquid balance, lock table, freeze status; the resource manager's
        /// divisibility seen as outer object
        pub open spec fn C_BAL() -> FieldRef { (0u32, 0u8) }
        pub open spec fn V_FREEZE() -> FieldRef { (0u32, 2u8) }
        pub open spec fn O_DIV() -> FieldRef { (1u32, 0u8) }

        /// radix-engine-interface vault.rs `bitflags!{ struct VaultFreezeFlags: u32 { WITHDRAW = 1, DEPOSIT = 2, BURN = 4 } }`
        pub struct VaultFreezeFlags { pub bits: u32 }
        impl VaultFreezeFlags {
            pub const WITHDRAW: VaultFreezeFlags = VaultFreezeFlags { bits: 1 };
            pub const DEPOSIT: VaultFreezeFlags = VaultFreezeFlags { bits: 2 };
            pub const BURN: VaultFreezeFlags = VaultFreezeFlags { bits: 4 };
            /// bitflags `intersects`: some flag in common
            pub fn intersects(&self, other: VaultFreezeFlags) -> (r: bool) ensures r == ((self.bits & other.bits) != 0) { (self.bits & other.bits) != 0 }
        }
        /// the `features:` of the resource manager's macro invocation. `feature_name()` is `stringify!(<property name>)`: five
        /// distinct strings, so the name determines the feature (`feature_of`, uninterpreted inverse).
        pub enum FungibleResourceManagerFeature { TrackTotalSupply, VaultFreeze, VaultRecall, Mint, Burn }
        pub uninterp spec fn feature_of(name: Seq<char>) -> FungibleResourceManagerFeature;
        impl FungibleResourceManagerFeature {
            #[verifier::external_body]
            pub fn feature_name(&self) -> (r: &'static str) ensures feature_of(r@) == *self { unimplemented!() }
        }

        // ---- ghost heap -------------------------------------------------------------------------------------
        pub enum GhostVal { Divisibility(u8), Liquid(Decimal), Frozen(VaultFrozenFlag), Other }
        pub ghost struct State {
            /// fields of the current actor (SELF = the vault) and of its outer object (the resource manager)
            pub fields: Map<FieldRef, GhostVal>,
            /// open field handles -> (field, the lock flags it was opened with)
            pub handles: Map<FieldHandle, (FieldRef, LockFlags)>,
            /// features the outer object (the resource manager) was instantiated with (immutable)
            pub features: Set<(ActorStateHandle, FungibleResourceManagerFeature)>,
            /// the node id of the actor's outer object = the address of the vault's resource
            pub outer: NodeId,
            /// is the costing module enabled (fixed for the transaction)
            pub costing: bool,
            /// the fields that were FORCE-WRITTEN: a handle opened with FORCE_WRITE was closed (kernel: close_substate ->
            /// Track::force_write) -- they keep their value when the transaction fails
            pub forced: Seq<FieldRef>,
            /// credits to the fee reserve made through SystemCostingApi::lock_fee: (amount, contingent)
            pub fee_locks: Seq<(Decimal, bool)>,
            /// how often start_lock_fee answered "costing disabled" (it then stores the simulated LockFeeEvent itself)
            pub simulated: nat,
        }
        /// spec view of a typed payload (stands for ScryptoEncode / ScryptoDecode of the payload type)
        pub trait VerifPayload: Sized {
            spec fn accepts(v: GhostVal) -> bool;
            spec fn ghost(&self) -> GhostVal;
        }
        /// ASSUMED: the system API itself fails with kernel / system / module errors only, never with a
        /// blueprint-level `RuntimeError::ApplicationError`.
        pub trait SystemApiError: Sized { spec fn is_application_error(&self) -> bool; }
        impl SystemApiError for RuntimeError {
            open spec fn is_application_error(&self) -> bool { *self is ApplicationError }
        }
        /// C02 at blueprint level (written from the statement "changes only the balances of the XRD vaults that locked
        /// fees"): the only field blueprint code may open with FORCE_WRITE is the LIQUID BALANCE of a vault of XRD
        pub open spec fn force_write_target_ok(s: State, f: FieldRef) -> bool { f == C_BAL() && ResourceAddress(s.outer) == XRD }

        /// Ghost-heap model of the part of radix-engine-interface SystemApi used by the fungible vault (actor_api.rs,
        /// field_api.rs, costing_api.rs). Any call may fail for reasons of its own (costing, limits, substate locks):
        /// an `Err` changes nothing. `field_read_typed` decodes with `.unwrap()`: reading a field whose value is not of
        /// the requested type is a panic, hence a precondition.
        pub trait SystemApi<E: SystemApiError>: Sized {
            spec fn state(&self) -> State;

            /// THE SENSITIVE CALLEE at blueprint level (system.rs actor_open_field, under contract in `unit::sys`, lets a
            /// fungible vault pass FORCE_WRITE for ANY of its fields)
            fn actor_open_field(&mut self, object_handle: ActorStateHandle, field: FieldIndex, flags: LockFlags) -> (r: Result<FieldHandle, E>)
                requires
                    object_handle == ACTOR_STATE_SELF || object_handle == ACTOR_STATE_OUTER_OBJECT,
                    fw(flags) ==> force_write_target_ok(old(self).state(), (object_handle, field)),
                ensures
                    r matches Ok(h) ==> !old(self).state().handles.contains_key(h)
                        && final(self).state() == (State { handles: old(self).state().handles.insert(h, ((object_handle, field), flags)), ..old(self).state() }),
                    r is Err ==> final(self).state() == old(self).state(),
                    r matches Err(e) ==> !e.is_application_error();

            fn field_read_typed<S: VerifPayload>(&mut self, handle: FieldHandle) -> (r: Result<S, E>)
                requires
                    old(self).state().handles.contains_key(handle),
                    old(self).state().fields.contains_key(old(self).state().handles[handle].0),
                    S::accepts(old(self).state().fields[old(self).state().handles[handle].0]),
                ensures
                    final(self).state() == old(self).state(),
                    r matches Ok(s) ==> s.ghost() == old(self).state().fields[old(self).state().handles[handle].0],
                    r matches Err(e) ==> !e.is_application_error();

            fn field_write_typed<S: VerifPayload>(&mut self, handle: FieldHandle, substate: &S) -> (r: Result<(), E>)
                requires
                    old(self).state().handles.contains_key(handle),
                    is_mutable(old(self).state().handles[handle].1),
                ensures
                    r is Ok ==> final(self).state() == (State { fields: old(self).state().fields.insert(old(self).state().handles[handle].0, substate.ghost()), ..old(self).state() }),
                    r is Err ==> final(self).state() == old(self).state(),
                    r matches Err(e) ==> !e.is_application_error();

            /// closing a handle that was opened with FORCE_WRITE force-writes the field (kernel/substate_io.rs
            /// close_substate, under contract in `unit::io`): "Force write flush only occurs if field_close succeeds"
            fn field_close(&mut self, handle: FieldHandle) -> (r: Result<(), E>)
                requires old(self).state().handles.contains_key(handle)
                ensures
                    r is Ok ==> final(self).state() == (State {
                        handles: old(self).state().handles.remove(handle),
                        forced: if fw(old(self).state().handles[handle].1) { old(self).state().forced.push(old(self).state().handles[handle].0) } else { old(self).state().forced },
                        ..old(self).state() }),
                    r is Err ==> final(self).state() == old(self).state(),
                    r matches Err(e) ==> !e.is_application_error();

            fn actor_is_feature_enabled(&mut self, object_handle: ActorStateHandle, feature: &str) -> (r: Result<bool, E>)
                requires object_handle == ACTOR_STATE_SELF || object_handle == ACTOR_STATE_OUTER_OBJECT
                ensures
                    final(self).state() == old(self).state(),
                    r matches Ok(b) ==> b == old(self).state().features.contains((object_handle, feature_of(feature@))),
                    r matches Err(e) ==> !e.is_application_error();

            /// actor_api.rs: the node id of the actor's outer object (ACTOR_REF_OUTER)
            fn actor_get_node_id(&mut self, ref_handle: ActorRefHandle) -> (r: Result<NodeId, E>)
                ensures
                    final(self).state() == old(self).state(),
                    r matches Ok(n) ==> (ref_handle == ACTOR_REF_OUTER ==> n == old(self).state().outer),
                    r matches Err(e) ==> !e.is_application_error();

            /// costing_api.rs start_lock_fee (system.rs, under contract in `unit::sys`): answers whether costing is enabled;
            /// if not, it stores the simulated LockFeeEvent itself
            fn start_lock_fee(&mut self, amount: Decimal, contingent: bool) -> (r: Result<bool, E>)
                ensures
                    r matches Ok(b) ==> b == old(self).state().costing
                        && final(self).state() == (State { simulated: if b { old(self).state().simulated } else { old(self).state().simulated + 1 }, ..old(self).state() }),
                    r is Err ==> final(self).state() == old(self).state(),
                    r matches Err(e) ==> !e.is_application_error();

            /// costing_api.rs lock_fee (system.rs, under contract in `unit::sys`): credits the fee reserve in the name of the
            /// actor (the vault) and stores the FORCE_WRITE LockFeeEvent; PANICS when costing is disabled. Cannot fail.
            fn lock_fee(&mut self, locked_fee: LiquidFungibleResource, contingent: bool)
                requires old(self).state().costing
                ensures final(self).state() == (State { fee_locks: old(self).state().fee_locks.push((locked_fee.amount, contingent)), ..old(self).state() });
        }

        // ---- versioned payload wrappers (macro generated in /repo): a payload is its latest-version content ----
        pub struct FungibleResourceManagerDivisibilityFieldPayload { pub content: u8 }
        impl VerifPayload for FungibleResourceManagerDivisibilityFieldPayload {
            open spec fn accepts(v: GhostVal) -> bool { v is Divisibility }
            open spec fn ghost(&self) -> GhostVal { GhostVal::Divisibility(self.content) }
        }
        impl FungibleResourceManagerDivisibilityFieldPayload {
            pub fn fully_update_and_into_latest_version(self) -> (r: u8) ensures r == self.content { self.content }
        }
        pub struct FungibleVaultBalanceFieldPayload { pub content: LiquidFungibleResource }
        impl VerifPayload for FungibleVaultBalanceFieldPayload {
            open spec fn accepts(v: GhostVal) -> bool { v is Liquid }
            open spec fn ghost(&self) -> GhostVal { GhostVal::Liquid(self.content.amount) }
        }
        impl FungibleVaultBalanceFieldPayload {
            pub fn fully_update_and_into_latest_version(self) -> (r: LiquidFungibleResource) ensures r == self.content { self.content }
            pub fn from_content_source(c: LiquidFungibleResource) -> (r: Self) ensures r.content == c { Self { content: c } }
        }
        pub struct FungibleVaultFreezeStatusFieldPayload { pub content: VaultFrozenFlag }
        impl VerifPayload for FungibleVaultFreezeStatusFieldPayload {
            open spec fn accepts(v: GhostVal) -> bool { v is Frozen }
            open spec fn ghost(&self) -> GhostVal { GhostVal::Frozen(self.content) }
        }
        impl FungibleVaultFreezeStatusFieldPayload {
            pub fn fully_update_and_into_latest_version(self) -> (r: VaultFrozenFlag) ensures r == self.content { self.content }
        }
    }

}

pub mod unit {
    use vstd::prelude::*;
    use super::rt::*;
    use super::env::*;

    // ==================================================================================================
    // (3) kernel/substate_io.rs :: SubstateIO::close_substate -- Track::force_write is invoked iff the handle
    //     was opened with FORCE_WRITE
    // ==================================================================================================
    pub mod io {
        use vstd::prelude::*;
        use super::super::rt::*;
        use super::super::env::*;
        use super::super::env::io::*;

        /*@item radix-engine/src/kernel/substate_io.rs :: enum SubstateDevice
        @derive Clone, Copy
        @*/
        /*@item radix-engine/src/kernel/substate_io.rs :: struct LockData
        @derive
        @*/
        /*@item radix-engine/src/kernel/substate_io.rs :: struct SubstateIO
        @*/
        /*@item radix-engine/src/kernel/call_frame.rs :: enum OpenSubstateError
        @derive
        @*/

        /// ORACLE: the substate a handle stands for, and whether it was opened with FORCE_WRITE
        pub open spec fn id_of(e: (NodeId, PartitionNumber, SubstateKey, LockData)) -> SubstateId { (e.0, e.1, e.2) }
        pub open spec fn opened_force_write(e: (NodeId, PartitionNumber, SubstateKey, LockData)) -> bool { fw(e.3.flags) }

        impl<'g, S: CommitableSubstateStore + 'g> SubstateIO<'g, S> {

            /// the kernel's open: the flags are stored verbatim with the handle; UNMODIFIED_BASE is refused on heap nodes and on
            /// substates this transaction already created / wrote
            /*@fn radix-engine/src/kernel/substate_io.rs :: impl<'g, S: CommitableSubstateStore + 'g> SubstateIO<'g, S> :: fn open_substate
            @sig
                requires default matches Some(f) ==> f.requires(())
                ensures
                    *final(final(self).store) == *final(old(self).store),
                    final(self).store.forced() == old(self).store.forced(),
                    ret matches Ok(t) ==> !old(self).substate_locks.locks().contains_key(t.0)
                        && final(self).substate_locks.locks().contains_key(t.0)
                        && final(self).substate_locks.locks() == old(self).substate_locks.locks().insert(t.0, final(self).substate_locks.locks()[t.0])
                        && id_of(final(self).substate_locks.locks()[t.0]) == (*node_id, partition_num, *substate_key)
                        // the flags the caller passed are the flags close_substate will consult
                        && final(self).substate_locks.locks()[t.0].3.flags == flags
                        // UNMODIFIED_BASE: only on a store substate whose committed base this transaction has not touched
                        && (flags.has(LockFlags::UNMODIFIED_BASE) ==> device is Store
                                && old(self).store.info((*node_id, partition_num, *substate_key)) is Unmodified)
                        // a store substate is tracked once it is open (what close_substate's force_write needs)
                        && (device is Store ==> final(self).store.is_tracked((*node_id, partition_num, *substate_key))),
                    ret is Err ==> final(self).substate_locks.locks() == old(self).substate_locks.locks(),
                    flags.has(LockFlags::UNMODIFIED_BASE) && device is Heap
                        ==> ret == Err::<(u32, &IndexedScryptoValue), CallbackError<OpenSubstateError, E>>(CallbackError::Error(OpenSubstateError::LockUnmodifiedBaseOnHeapNode)),
                    flags.has(LockFlags::UNMODIFIED_BASE) && device is Store && !(old(self).store.info((*node_id, partition_num, *substate_key)) is Unmodified)
                        ==> (ret matches Err(CallbackError::Error(x)) && (x is LockUnmodifiedBaseOnNewSubstate || x is LockUnmodifiedBaseOnOnUpdatedSubstate)),
            @drop-tail <<let global_lock_handle = match>> #1 => return Self::open_substate_value_tail(&self.substate_locks, global_lock_handle, substate_value);
            @*/
            /*@fn radix-engine/src/kernel/substate_io.rs :: impl<'g, S: CommitableSubstateStore + 'g> SubstateIO<'g, S> :: fn close_substate
            @sig
                requires
                    old(self).substate_locks.locks().contains_key(global_lock_handle),
                    opened_force_write(old(self).substate_locks.locks()[global_lock_handle])
                        ==> old(self).store.is_tracked(id_of(old(self).substate_locks.locks()[global_lock_handle])),
                ensures
                    *final(final(self).store) == *final(old(self).store),
                    final(self).substate_locks.locks() == old(self).substate_locks.locks().remove(global_lock_handle),
                    // C02: the force-write log grows by exactly this substate iff the handle was opened with FORCE_WRITE
                    final(self).store.forced() == (if opened_force_write(old(self).substate_locks.locks()[global_lock_handle]) {
                            old(self).store.forced().push(id_of(old(self).substate_locks.locks()[global_lock_handle]))
                        } else { old(self).store.forced() }),
                    (ret.0, ret.1, ret.2) == id_of(old(self).substate_locks.locks()[global_lock_handle]),
                    ret.3 == old(self).substate_locks.locks()[global_lock_handle].3.flags,
            @*/
        }
    }
    // ==================================================================================================
    // (1)(2) system/system.rs :: SystemService -- WHO may pass FORCE_WRITE to the kernel, WHO may emit a FORCE_WRITE event
    // ==================================================================================================
    pub mod sys {
        use vstd::prelude::*;
        use super::super::rt::*;
        use super::super::env::*;
        use super::super::env::sys::*;
        use super::super::env::sys::Decimal;
        use std::rc::Rc;

        /*@item radix-common/src/types/blueprint_id.rs :: struct BlueprintId
        @derive
        @*/
        /*@item radix-engine-interface/src/types/object_and_kvstore.rs :: enum OuterObjectInfo
        @derive
        @*/
        /*@item radix-engine-interface/src/types/object_and_kvstore.rs :: struct BlueprintInfo
        @derive
        @*/
        /*@item radix-engine-interface/src/types/object_and_kvstore.rs :: enum ObjectType
        @derive
        @*/
        /*@item radix-engine-interface/src/types/object_and_kvstore.rs :: struct ObjectInfo
        @derive
        @*/
        /*@item radix-engine-interface/src/api/object_api.rs :: enum ModuleId
        @derive Clone, Copy
        @*/
        /*@item radix-engine-interface/src/api/object_api.rs :: enum AttachedModuleId
        @derive Clone, Copy
        @*/
        /*@item radix-engine/src/system/system_substates.rs :: enum LockStatus
        @derive Copy, Clone
        @*/
        /*@item radix-engine/src/system/system_substates.rs :: struct FieldSubstateV1
        @derive
        @*/
        /*@item radix-engine/src/system/system_substates.rs :: enum FieldSubstate
        @derive
        @*/
        /*@item radix-engine/src/system/system_substates.rs :: struct KeyValueEntrySubstateV1
        @derive
        @*/
        /*@item radix-engine/src/system/system_substates.rs :: enum KeyValueEntrySubstate
        @derive
        @*/
        /*@item radix-engine/src/system/actor.rs :: enum MethodType
        @derive
        @*/
        /*@item radix-engine/src/system/actor.rs :: struct MethodActor
        @derive
        @*/
        /*@item radix-engine/src/system/actor.rs :: struct FunctionActor
        @derive
        @*/
        /*@item radix-engine/src/system/actor.rs :: struct BlueprintHookActor
        @derive
        @*/
        /*@item radix-engine/src/system/actor.rs :: enum Actor
        @derive
        @*/
        /*@item radix-engine/src/system/system_callback.rs :: enum SystemLockData
        @derive
        @*/
        /*@item radix-engine/src/system/system_callback.rs :: enum KeyValueEntryLockData
        @derive
        @*/
        /*@item radix-engine/src/system/system_callback.rs :: enum FieldLockData
        @derive
        @*/
        /*@item radix-engine-interface/src/types/event_id.rs :: enum Emitter
        @derive
        @*/
        /*@item radix-engine-interface/src/types/event_id.rs :: struct EventTypeIdentifier
        @derive
        @*/
        /*@item radix-engine/src/system/system_modules/transaction_runtime/module.rs :: struct Event
        @derive
        @*/
        /*@item radix-engine/src/system/system.rs :: struct SystemService
        @*/

        impl<V> FieldSubstate<V> {
            pub open spec fn st(self) -> LockStatus { self->V1_0.lock_status }
            /*@fn radix-engine/src/system/system_substates.rs :: impl<V> FieldSubstate<V> :: fn new_field
            @sig
                ensures ret == FieldSubstate::V1(FieldSubstateV1 { payload, lock_status })
            @*/
            /*@fn radix-engine/src/system/system_substates.rs :: impl<V> FieldSubstate<V> :: fn new_unlocked_field
            @sig
                ensures ret == FieldSubstate::V1(FieldSubstateV1 { payload, lock_status: LockStatus::Unlocked })
            @*/
            /*@fn radix-engine/src/system/system_substates.rs :: impl<V> FieldSubstate<V> :: fn into_lock_status
            @sig
                ensures ret == self.st()
            @*/
        }
        impl<V> KeyValueEntrySubstate<V> {
            pub open spec fn st(self) -> LockStatus { self->V1_0.lock_status }
            /*@fn radix-engine/src/system/system_substates.rs :: impl<V> KeyValueEntrySubstate<V> :: fn is_locked
            @sig
                ensures ret == (self.st() == LockStatus::Locked)
            @*/
            /*@fn radix-engine/src/system/system_substates.rs :: impl<V> KeyValueEntrySubstate<V> :: fn lock_status
            @sig
                ensures ret == self.st()
            @*/
        }
        impl<V> Default for KeyValueEntrySubstate<V> {
            /*@fn radix-engine/src/system/system_substates.rs :: impl<V> Default for KeyValueEntrySubstate<V> :: fn default
            @sig
                ensures ret == KeyValueEntrySubstate::<V>::V1(KeyValueEntrySubstateV1 { value: None, lock_status: LockStatus::Unlocked })
            @*/
        }

        impl ObjectInfo {
            /*@fn radix-engine-interface/src/types/object_and_kvstore.rs :: impl ObjectInfo :: fn try_get_outer_object
            @sig
                ensures ret == outer_of(*self)
            @*/
        }
        // ---- ModuleId <-> AttachedModuleId conversions (radix-engine-interface/src/api/object_api.rs) ------
        pub open spec fn module_of_attached(val: AttachedModuleId) -> ModuleId {
            match val { AttachedModuleId::Metadata => ModuleId::Metadata, AttachedModuleId::Royalty => ModuleId::Royalty, AttachedModuleId::RoleAssignment => ModuleId::RoleAssignment }
        }
        pub open spec fn attached_of_module(val: ModuleId) -> Option<AttachedModuleId> {
            match val { ModuleId::Main => None, ModuleId::Metadata => Some(AttachedModuleId::Metadata), ModuleId::Royalty => Some(AttachedModuleId::Royalty), ModuleId::RoleAssignment => Some(AttachedModuleId::RoleAssignment) }
        }
        impl vstd::std_specs::convert::FromSpecImpl<AttachedModuleId> for ModuleId {
            open spec fn obeys_from_spec() -> bool { true }
            open spec fn from_spec(val: AttachedModuleId) -> Self { module_of_attached(val) }
        }
        impl From<AttachedModuleId> for ModuleId {
            /*@fn radix-engine-interface/src/api/object_api.rs :: impl From<AttachedModuleId> for ModuleId :: fn from
            @sig
                ensures ret == module_of_attached(val)
            @*/
        }
        pub open spec fn module_of_opt(value: Option<AttachedModuleId>) -> ModuleId {
            match value { None => ModuleId::Main, Some(m) => module_of_attached(m) }
        }
        impl vstd::std_specs::convert::FromSpecImpl<Option<AttachedModuleId>> for ModuleId {
            open spec fn obeys_from_spec() -> bool { true }
            open spec fn from_spec(value: Option<AttachedModuleId>) -> Self { module_of_opt(value) }
        }
        impl From<Option<AttachedModuleId>> for ModuleId {
            /*@fn radix-engine-interface/src/api/object_api.rs :: impl From<Option<AttachedModuleId>> for ModuleId :: fn from
            @sig
                ensures ret == module_of_opt(value)
            @*/
        }
        impl vstd::std_specs::convert::FromSpecImpl<ModuleId> for Option<AttachedModuleId> {
            open spec fn obeys_from_spec() -> bool { true }
            open spec fn from_spec(val: ModuleId) -> Self { attached_of_module(val) }
        }
        impl From<ModuleId> for Option<AttachedModuleId> {
            /*@fn radix-engine-interface/src/api/object_api.rs :: impl From<ModuleId> for Option<AttachedModuleId> :: fn from
            @sig
                ensures ret == attached_of_module(val)
            @*/
        }
        impl PartitionNumber {
            /*@fn radix-common/src/types/node_and_substate.rs :: impl PartitionNumber :: fn at_offset
            @sig
                ensures ret == (if self.0 + offset.0 <= 255 { Some(PartitionNumber((self.0 + offset.0) as u8)) } else { None })
            @*/
        }
        impl ModuleId {
            /*@fn radix-engine-interface/src/api/object_api.rs :: impl ModuleId :: fn base_partition_num
            @sig
                ensures ret.0 == (match *self { ModuleId::Main => 64u8, ModuleId::Metadata => 2u8, ModuleId::Royalty => 3u8, ModuleId::RoleAssignment => 5u8 })
            @*/
        }
        impl MethodType {
            /*@fn radix-engine/src/system/actor.rs :: impl MethodType :: fn module_id
            @sig
                ensures ret == (match *self { MethodType::Module(m) => module_of_attached(m), _ => ModuleId::Main })
            @*/
        }
        impl AttachedModuleId {
            /*@fn radix-engine-interface/src/api/object_api.rs :: impl AttachedModuleId :: fn static_blueprint
            @sig
                ensures is_module_blueprint(ret, *self)
            @*/
        }
        impl MethodActor {
            /*@fn radix-engine/src/system/actor.rs :: impl MethodActor :: fn get_blueprint_id
            @sig
                ensures is_running_blueprint(Actor::Method(*self), Some(ret))
            @*/
        }
        impl Actor {
            /*@fn radix-engine/src/system/actor.rs :: impl Actor :: fn get_object_id
            @sig
                ensures ret == own_object(*self)
            @*/
            /*@fn radix-engine/src/system/actor.rs :: impl Actor :: fn blueprint_id
            @sig
                ensures is_running_blueprint(*self, ret)
            @*/
            /*@fn radix-engine/src/system/actor.rs :: impl Actor :: fn node_id
            @sig
                ensures ret == (match own_object(*self) { Some(o) => Some(o.0), None => None })
            @*/
        }

        /// the three object-module blueprints are not the fungible vault (different package, different name)
        pub proof fn lemma_module_blueprint_is_not_vault(id: BlueprintId, m: AttachedModuleId)
            requires is_module_blueprint(id, m)
            ensures !is_fungible_vault_id(id)
        {
            assert(RESOURCE_PACKAGE.0.0[7] == 97u8);
            assert(METADATA_MODULE_PACKAGE.0.0[7] == 109u8);
            assert(ROYALTY_MODULE_PACKAGE.0.0[8] == 147u8);
            assert(RESOURCE_PACKAGE.0.0[8] == 230u8);
            assert(ROLE_ASSIGNMENT_MODULE_PACKAGE.0.0[7] == 110u8);
        }
        /// a module method never runs the fungible vault blueprint
        pub proof fn lemma_running_vault(a: Actor, id: BlueprintId)
            requires is_running_blueprint(a, Some(id))
            ensures is_fungible_vault_id(id) <==> runs_fungible_vault(a)
        {
            if let Actor::Method(m) = a {
                if let MethodType::Module(module) = m.method_type { lemma_module_blueprint_is_not_vault(id, module); }
            }
        }

        /*@item radix-engine/src/system/system.rs :: enum EmitterActor
        @derive
        @subst <<enum EmitterActor>> => <<pub enum EmitterActor>> why: visibility only -- the private enum is mentioned in pub spec fns of this unit
        @*/
        /*@item radix-engine/src/system/system.rs :: enum ActorStateRef
        @derive
        @subst <<enum ActorStateRef>> => <<pub enum ActorStateRef>> why: visibility only -- the private enum is mentioned in pub spec fns of this unit
        @*/
        pub open spec fn actor_state_ref(value: ActorStateHandle) -> Result<ActorStateRef, RuntimeError> {
            if value == 0u32 { Ok(ActorStateRef::SELF) } else if value == 1u32 { Ok(ActorStateRef::OuterObject) }
            else { Err(RuntimeError::SystemError(SystemError::InvalidActorStateHandle)) }
        }
        impl vstd::std_specs::convert::TryFromSpecImpl<ActorStateHandle> for ActorStateRef {
            open spec fn obeys_try_from_spec() -> bool { true }
            open spec fn try_from_spec(value: ActorStateHandle) -> Result<ActorStateRef, RuntimeError> { actor_state_ref(value) }
        }
        impl TryFrom<ActorStateHandle> for ActorStateRef {
            type Error = RuntimeError;
            /*@fn radix-engine/src/system/system.rs :: impl TryFrom<ActorStateHandle> for ActorStateRef :: fn try_from
            @sig
                ensures ret == actor_state_ref(value)
            @*/
        }
        /// an actor state handle designates ONLY (SELF) the current actor's own object, with the module the running method
        /// belongs to, or (OUTER_OBJECT) the outer object recorded in the type info of the actor's own object (main module only)
        pub open spec fn resolves_to(s: KState, r: ActorStateRef, id: (NodeId, Option<AttachedModuleId>)) -> bool {
            own_object(s.actor) matches Some(own) && match r {
                ActorStateRef::SELF => id == own,
                ActorStateRef::OuterObject => own.1 is None && id.1 is None && s.type_info.contains_key(own.0)
                    && (s.type_info[own.0] matches TypeInfoSubstate::Object(info) && outer_of(info) == Some(GlobalAddress(id.0))),
            }
        }
        /// the blueprint info the system associates with (node, module): the node's own (type info) for the main module, the
        /// static module blueprint otherwise
        pub open spec fn info_matches(s: KState, n: NodeId, m: Option<AttachedModuleId>, bi: BlueprintInfo) -> bool {
            match m {
                None => s.type_info.contains_key(n) && (s.type_info[n] matches TypeInfoSubstate::Object(info) && info.blueprint_info == bi),
                Some(module) => is_module_blueprint(bi.blueprint_id, module) && bi.outer_obj_info is None,
            }
        }
        /// what `get_actor_field_info` resolved: node + module behind the actor state handle, and the blueprint info for them
        pub open spec fn target_of(s: KState, r: ActorStateRef, n: NodeId, m: Option<AttachedModuleId>, bi: BlueprintInfo) -> bool {
            resolves_to(s, r, (n, m)) && info_matches(s, n, m, bi)
        }
        pub open spec fn has_target(s: KState, r: ActorStateRef, n: NodeId, bi: BlueprintInfo) -> bool {
            exists|m: Option<AttachedModuleId>| #[trigger] target_of(s, r, n, m, bi)
        }
        pub open spec fn is_new_handle(s0: KState, s1: KState, h: SubstateHandle) -> bool { s1.handles.contains_key(h) && !s0.handles.contains_key(h) }
        pub open spec fn none_new(s0: KState, s1: KState) -> bool { forall|h: SubstateHandle| !is_new_handle(s0, s1, h) }
        /// the target whose blueprint info passes the guard IS a fungible vault object, addressed in its main module
        pub proof fn lemma_guard_passed(s: KState, r: ActorStateRef, n: NodeId, m: Option<AttachedModuleId>, bi: BlueprintInfo)
            requires target_of(s, r, n, m, bi), is_fungible_vault_id(bi.blueprint_id)
            ensures m is None, is_fungible_vault(s, n)
        {
            if let Some(module) = m { lemma_module_blueprint_is_not_vault(bi.blueprint_id, module); }
        }

        pub open spec fn opened_witness(s0: KState, r: ActorStateRef, n: NodeId, m: Option<AttachedModuleId>, bi: BlueprintInfo, flags: LockFlags) -> bool {
            target_of(s0, r, n, m, bi) && (special(flags) ==> m is None && is_fungible_vault_id(bi.blueprint_id))
        }
        pub open spec fn has_opened_witness(s0: KState, r: ActorStateRef, n: NodeId, flags: LockFlags) -> bool {
            exists|m: Option<AttachedModuleId>, bi: BlueprintInfo| #[trigger] opened_witness(s0, r, n, m, bi, flags)
        }
        pub open spec fn has_refused_witness(s0: KState, r: ActorStateRef) -> bool {
            exists|n: NodeId, m: Option<AttachedModuleId>, bi: BlueprintInfo| #[trigger] refused_witness(s0, r, n, m, bi)
        }
        /// C02, what `actor_open_field` promises about the ONE handle it opened: it is on field `field_index` of the object behind
        /// the actor state handle, the kernel recorded exactly the requested flags, and if a special flag (FORCE_WRITE /
        /// UNMODIFIED_BASE) was requested that object is a FUNGIBLE VAULT (type info), addressed in its main module
        pub open spec fn field_opened(s0: KState, s1: KState, h: SubstateHandle, object_handle: ActorStateHandle, field_index: u8, flags: LockFlags) -> bool {
            let i = s1.handles[h];
            &&& s1.handles == s0.handles.insert(h, i)
            &&& i.flags == flags && i.id.2 == SubstateKey::Field(field_index) && i.data is Field
            &&& actor_state_ref(object_handle) matches Ok(r) && has_opened_witness(s0, r, i.id.0, flags)
            &&& special(flags) ==> is_fungible_vault(s0, i.id.0)
        }
        pub open spec fn refused_witness(s0: KState, r: ActorStateRef, n: NodeId, m: Option<AttachedModuleId>, bi: BlueprintInfo) -> bool {
            target_of(s0, r, n, m, bi) && !is_fungible_vault_id(bi.blueprint_id)
        }
        /// ... and about the error InvalidLockFlags: a special flag was requested, the target was resolved and its blueprint is
        /// not the fungible vault; nothing was opened, nothing changed
        pub open spec fn flags_refused(s0: KState, s1: KState, object_handle: ActorStateHandle, flags: LockFlags) -> bool {
            &&& special(flags) && s1 == s0
            &&& actor_state_ref(object_handle) matches Ok(r) && has_refused_witness(s0, r)
        }

        /// the handle a key-value door opened: never with a special flag, never on a field
        pub open spec fn kv_opened(s0: KState, s1: KState, h: SubstateHandle, flags: LockFlags) -> bool {
            let i = s1.handles[h];
            &&& s1.handles == s0.handles.insert(h, i)
            &&& i.flags == flags && !special(flags) && i.id.2 is Map && i.data is KeyValueEntry
        }
        /// the event `emit_event_internal(CurrentActor, ..)` records: emitter = the current actor (method: node + module; function: blueprint)
        pub open spec fn emitted_by(a: Actor, e: Event, name: String, data: Vec<u8>, flags: EventFlags) -> bool {
            &&& e.flags == flags && e.payload == data && e.type_identifier.1 == name
            &&& match a {
                Actor::Method(m) => e.type_identifier.0 == Emitter::Method(m.node_id, match m.method_type { MethodType::Module(x) => module_of_attached(x), _ => ModuleId::Main }),
                Actor::Function(f) => e.type_identifier.0 == Emitter::Function(f.blueprint_id),
                _ => false,
            }
        }
        /// the event `emit_event_internal` stores: exactly the given name / data / FLAGS; emitter = the named object, or the current actor
        pub open spec fn stored_event(a: Actor, who: EmitterActor, e: Event, name: String, data: Vec<u8>, flags: EventFlags) -> bool {
            match who {
                EmitterActor::AsObject(n, m) => e.flags == flags && e.payload == data && e.type_identifier.1 == name
                    && e.type_identifier.0 == Emitter::Method(n, module_of_opt(m)),
                EmitterActor::CurrentActor => emitted_by(a, e, name, data, flags),
            }
        }
        /// a fee event: FORCE_WRITE, emitted in the name of vault `v` (main module), name "LockFeeEvent", payload decoding to the amount
        pub open spec fn is_lock_fee_event(e: Event, v: NodeId, amount: Decimal) -> bool {
            &&& efw(e.flags)
            &&& e.type_identifier.0 == Emitter::Method(v, ModuleId::Main)
            &&& e.type_identifier.1@ == LockFeeEvent::EVENT_NAME@
            &&& dec::<LockFeeEvent>(e.payload@) == Some(LockFeeEvent { amount })
        }
        /// THE GUARD of actor_open_field, sliced out of the real function on every run (the condition of the `if` whose body
        /// returns InvalidLockFlags): the open is REFUSED iff a special flag is requested and the blueprint the system
        /// associates with the target is not RESOURCE_PACKAGE:FungibleVault
        pub fn open_field_flags_refused(flags: LockFlags, blueprint_info: &BlueprintInfo) -> (b: bool)
            ensures b == (special(flags) && !is_fungible_vault_id(blueprint_info.blueprint_id))
        {
            /*@expr radix-engine/src/system/system.rs :: impl<'a, Y: SystemBasedKernelApi> SystemActorApi<RuntimeError> for SystemService<'a, Y> :: fn actor_open_field :: <<SystemError::InvalidLockFlags>> #1 @*/
        }
        /// THE GUARD of actor_emit_event (inner `if`, under `event_flags.contains(FORCE_WRITE)`): refused iff the running
        /// blueprint is not RESOURCE_PACKAGE:FungibleVault
        pub fn force_write_event_refused(blueprint_id: &BlueprintId) -> (b: bool)
            ensures b == !is_fungible_vault_id(*blueprint_id)
        {
            /*@expr radix-engine/src/system/system.rs :: impl<'a, Y: SystemBasedKernelApi> SystemActorApi<RuntimeError> for SystemService<'a, Y> :: fn actor_emit_event :: <<SystemError::ForceWriteEventFlagsNotAllowed>> #1 @*/
        }

        impl<'a, Y: SystemBasedKernelApi> SystemService<'a, Y> {
            /*@fn radix-engine/src/system/system.rs :: impl<'a, Y: SystemBasedKernelApi> SystemService<'a, Y> :: fn current_actor
            @sig
                ensures ret == old(self).api.st().actor, final(self).api.st() == old(self).api.st(), final(self).api.sys() == old(self).api.sys(),
                        *final(final(self).api) == *final(old(self).api),
            @*/
            /*@fn radix-engine/src/system/system.rs :: impl<'a, Y: SystemBasedKernelApi> SystemService<'a, Y> :: fn get_object_info
            @sig
                ensures final(self).api.st() == old(self).api.st(), final(self).api.sys() == old(self).api.sys(),
                        *final(final(self).api) == *final(old(self).api),
                        ret matches Ok(info) ==> old(self).api.st().type_info.contains_key(*node_id)
                            && old(self).api.st().type_info[*node_id] == TypeInfoSubstate::Object(info),
                        ret matches Err(e) ==> e is Environment || e == RuntimeError::SystemError(SystemError::NotAnObject),
            @*/
            /*@fn radix-engine/src/system/system.rs :: impl<'a, Y: SystemBasedKernelApi> SystemObjectApi<RuntimeError> for SystemService<'a, Y> :: fn get_outer_object
            @sig
                ensures final(self).api.st() == old(self).api.st(), final(self).api.sys() == old(self).api.sys(),
                        *final(final(self).api) == *final(old(self).api),
                        ret matches Ok(a) ==> old(self).api.st().type_info.contains_key(*node_id)
                            && (old(self).api.st().type_info[*node_id] matches TypeInfoSubstate::Object(info) && outer_of(info) == Some(a)),
                        ret matches Err(e) ==> res_err(e),
            @*/
            /*@fn radix-engine/src/system/system.rs :: impl<'a, Y: SystemBasedKernelApi> SystemService<'a, Y> :: fn get_actor_object_id
            @sig
                ensures final(self).api.st() == old(self).api.st(), final(self).api.sys() == old(self).api.sys(),
                        *final(final(self).api) == *final(old(self).api),
                        ret matches Ok(id) ==> resolves_to(old(self).api.st(), actor_object_type, id),
                        ret matches Err(e) ==> res_err(e),
            @closure 1 := || -> (r: RuntimeError) ensures r == RuntimeError::SystemError(SystemError::NotAnObject)
            @*/
            /*@fn radix-engine/src/system/system.rs :: impl<'a, Y: SystemBasedKernelApi> SystemService<'a, Y> :: fn get_blueprint_info
            @sig
                ensures final(self).api.st() == old(self).api.st(), final(self).api.sys() == old(self).api.sys(),
                        *final(final(self).api) == *final(old(self).api),
                        ret matches Ok(bi) ==> info_matches(old(self).api.st(), *node_id, module_id, bi),
                        ret matches Err(e) ==> res_err(e),
            @*/
            /*@fn radix-engine/src/system/system.rs :: impl<'a, Y: SystemBasedKernelApi> SystemService<'a, Y> :: fn is_feature_enabled
            @sig
                ensures final(self).api.st() == old(self).api.st(), final(self).api.sys() == old(self).api.sys(),
                        *final(final(self).api) == *final(old(self).api),
                        ret matches Err(e) ==> res_err(e),
            @*/
            /*@fn radix-engine/src/system/system.rs :: impl<'a, Y: SystemBasedKernelApi> SystemService<'a, Y> :: fn get_actor_info
            @sig
                ensures final(self).api.st() == old(self).api.st(), final(self).api.sys() == old(self).api.sys(),
                        *final(final(self).api) == *final(old(self).api),
                        ret matches Ok(t) ==> target_of(old(self).api.st(), actor_object_type, t.0, t.1, t.3),
                        ret matches Err(e) ==> res_err(e),
            @*/
            /*@fn radix-engine/src/system/system.rs :: impl<'a, Y: SystemBasedKernelApi> SystemService<'a, Y> :: fn get_actor_field_info
            @no-r5
            @subst <<panic!("Outer object should not have IfOuterFeature.")>> => <<panic_abort()>> why: this panic site (a blueprint-definition consistency check: a field with Condition::IfOuterFeature on an object without outer object) is modelled as an ABORT -- a diverging env function without contract -- instead of a proof obligation; a panic grants no access, and discharging it would need an assumption tying installed definitions to type infos that has nothing to do with C02 (same treatment as unit c50_encapsulation)
            @sig
                ensures final(self).api.st() == old(self).api.st(), final(self).api.sys() == old(self).api.sys(),
                        *final(final(self).api) == *final(old(self).api),
                        ret matches Ok(t) ==> has_target(old(self).api.st(), actor_object_type, t.0, t.1)
                            && (t.3 matches FieldTransience::TransientStatic { default_value } ==> dec::<ScryptoValue>(default_value@) is Some),
                        ret matches Err(e) ==> res_err(e),
            @closure 1 := || -> (r: RuntimeError) ensures res_err(r)
            @before <<Ok((node_id, info, partition_num>> #1
                proof {
                    assert(target_of(old(self).api.st(), actor_object_type, node_id, module_id, info));
                    assert(has_target(old(self).api.st(), actor_object_type, node_id, info));
                }
            @*/
            /*@fn radix-engine/src/system/system.rs :: impl<'a, Y: SystemBasedKernelApi> SystemService<'a, Y> :: fn get_actor_collection_partition_info
            @sig
                ensures final(self).api.st() == old(self).api.st(), final(self).api.sys() == old(self).api.sys(),
                        *final(final(self).api) == *final(old(self).api),
                        ret matches Err(e) ==> res_err(e),
            @closure 1 := || -> (r: RuntimeError) ensures res_err(r)
            @*/

            // ---- (1) the state door for fields: SystemActorApi::actor_open_field (WASM `actor_open_field` lands here) ----
            /*@fn radix-engine/src/system/system.rs :: impl<'a, Y: SystemBasedKernelApi> SystemActorApi<RuntimeError> for SystemService<'a, Y> :: fn actor_open_field
            @sig
                ensures
                    *final(final(self).api) == *final(old(self).api),
                    same_but_handles(old(self).api.st(), final(self).api.st()), final(self).api.sys() == old(self).api.sys(),
                    none_new(old(self).api.st(), final(self).api.st()) ==> final(self).api.st() == old(self).api.st() && ret is Err,
                    // whatever handle this call opened ...
                    forall|h: SubstateHandle| is_new_handle(old(self).api.st(), final(self).api.st(), h)
                        ==> field_opened(old(self).api.st(), final(self).api.st(), h, object_handle, field_index, flags),
                    ret matches Ok(h) ==> is_new_handle(old(self).api.st(), final(self).api.st(), h),
                    // the documented error: InvalidLockFlags is returned only for a special flag on a resolved target that is NOT a
                    // fungible vault, before anything is opened
                    ret == Err::<SubstateHandle, RuntimeError>(RuntimeError::SystemError(SystemError::InvalidLockFlags))
                        ==> flags_refused(old(self).api.st(), final(self).api.st(), object_handle, flags),
                    ret matches Err(e) ==> e is Environment || e is SystemError,
            @entry
                let ghost s0 = self.api.st();
                let ghost mut mw: Option<AttachedModuleId> = None;
            @after <<let (node_id, blueprint_info, partition_num, transient)>> #1
                proof {
                    mw = choose|m: Option<AttachedModuleId>| target_of(s0, actor_object_type, node_id, m, blueprint_info);
                    assert(target_of(s0, actor_object_type, node_id, mw, blueprint_info));
                    if is_fungible_vault_id(blueprint_info.blueprint_id) { lemma_guard_passed(s0, actor_object_type, node_id, mw, blueprint_info); }
                    else if special(flags) { assert(refused_witness(s0, actor_object_type, node_id, mw, blueprint_info)); assert(has_refused_witness(s0, actor_object_type)); }
                }
            @closure 1 := || -> (r: IndexedScryptoValue) ensures field_of(r) == Some(FieldSubstate::<ScryptoValue>::V1(FieldSubstateV1 { payload: default_value, lock_status: LockStatus::Unlocked }))
            @closure 2 := |v: &IndexedScryptoValue| -> (r: LockStatus) requires field_of(*v) is Some ensures r == field_of(*v)->Some_0.st()
            @after <<let handle = match transient>> #1
                proof {
                    assert(is_new_handle(s0, self.api.st(), handle));
                    assert(opened_witness(s0, actor_object_type, node_id, mw, blueprint_info, flags));
                    assert(has_opened_witness(s0, actor_object_type, node_id, flags));
                    assert(field_opened(s0, self.api.st(), handle, object_handle, field_index, flags));
                }
            @*/

            // ---- (1b) the two key-value doors refuse the special flags outright ----------------------------------------
            /*@fn radix-engine/src/system/system.rs :: impl<'a, Y: SystemBasedKernelApi> SystemActorKeyValueEntryApi<RuntimeError> for SystemService<'a, Y> :: fn actor_open_key_value_entry
            @sig
                ensures
                    *final(final(self).api) == *final(old(self).api),
                    same_but_handles(old(self).api.st(), final(self).api.st()), final(self).api.sys() == old(self).api.sys(),
                    // C02: FORCE_WRITE / UNMODIFIED_BASE on a key-value entry: InvalidLockFlags, before anything else happens
                    special(flags) ==> ret == Err::<KeyValueEntryHandle, RuntimeError>(RuntimeError::SystemError(SystemError::InvalidLockFlags))
                        && final(self).api.st() == old(self).api.st(),
                    forall|h: SubstateHandle| is_new_handle(old(self).api.st(), final(self).api.st(), h)
                        ==> kv_opened(old(self).api.st(), final(self).api.st(), h, flags),
                    none_new(old(self).api.st(), final(self).api.st()) ==> final(self).api.st() == old(self).api.st() && ret is Err,
                    ret matches Ok(h) ==> is_new_handle(old(self).api.st(), final(self).api.st(), h),
                    ret == Err::<KeyValueEntryHandle, RuntimeError>(RuntimeError::SystemError(SystemError::InvalidLockFlags)) ==> special(flags),
            @closure 1 := || -> (r: IndexedScryptoValue)
            @after <<let handle = self.api.kernel_open_substate_with_default>> #1
                proof { assert(is_new_handle(old(self).api.st(), self.api.st(), handle)); }
            @*/
            /*@fn radix-engine/src/system/system.rs :: impl<'a, Y: SystemBasedKernelApi> SystemKeyValueStoreApi<RuntimeError> for SystemService<'a, Y> :: fn key_value_store_open_entry
            @sig
                ensures
                    *final(final(self).api) == *final(old(self).api),
                    same_but_handles(old(self).api.st(), final(self).api.st()), final(self).api.sys() == old(self).api.sys(),
                    // C02: FORCE_WRITE / UNMODIFIED_BASE on a key-value store entry: refused (InvalidLockFlags unless reading the
                    // store's type info already failed), nothing opened
                    special(flags) ==> (ret matches Err(e) && (e is Environment || e == RuntimeError::SystemError(SystemError::InvalidLockFlags)))
                        && final(self).api.st() == old(self).api.st(),
                    forall|h: SubstateHandle| is_new_handle(old(self).api.st(), final(self).api.st(), h)
                        ==> kv_opened(old(self).api.st(), final(self).api.st(), h, flags),
                    none_new(old(self).api.st(), final(self).api.st()) ==> final(self).api.st() == old(self).api.st() && ret is Err,
                    ret matches Ok(h) ==> is_new_handle(old(self).api.st(), final(self).api.st(), h),
                    ret == Err::<KeyValueEntryHandle, RuntimeError>(RuntimeError::SystemError(SystemError::InvalidLockFlags)) ==> special(flags),
            @closure 1 := || -> (r: IndexedScryptoValue)
            @closure 2 := |v: &IndexedScryptoValue| -> (r: LockStatus) requires kv_of(*v) is Some ensures r == kv_of(*v)->Some_0.st()
            @after <<let handle = self.api.kernel_open_substate_with_default>> #1
                proof { assert(is_new_handle(old(self).api.st(), self.api.st(), handle)); }
            @*/


            /*@fn radix-engine/src/system/system.rs :: impl<'a, Y: SystemBasedKernelApi> SystemService<'a, Y> :: fn get_actor_type_target
            @sig
                ensures final(self).api.st() == old(self).api.st(), final(self).api.sys() == old(self).api.sys(),
                        *final(final(self).api) == *final(old(self).api),
                        ret matches Err(e) ==> res_err(e),
            @*/
            /// the ONE place of the system layer that stores an event (through checked_add_event). Its precondition is the event
            /// half of the mechanism: FORCE_WRITE reaches the event store only for the fungible vault blueprint -- discharged by
            /// actor_emit_event (guard) below; start_lock_fee passes it on to its caller (FungibleVaultBlueprint::lock_fee).
            /*@fn radix-engine/src/system/system.rs :: impl<'a, Y: SystemBasedKernelApi> SystemService<'a, Y> :: fn emit_event_internal
            @sig
                requires efw(event_flags) ==> runs_fungible_vault(old(self).api.st().actor)
                ensures
                    final(self).api.st() == old(self).api.st(),
                    *final(final(self).api) == *final(old(self).api),
                    final(self).api.sys().modules.fee_locks() == old(self).api.sys().modules.fee_locks(),
                    final(self).api.sys().modules.enabled_modules == old(self).api.sys().modules.enabled_modules,
                    ret is Err ==> final(self).api.sys().modules.events() == old(self).api.sys().modules.events(),
                    ret is Ok ==> final(self).api.sys().modules.events().len() == old(self).api.sys().modules.events().len() + 1
                        && final(self).api.sys().modules.events().drop_last() == old(self).api.sys().modules.events()
                        && stored_event(old(self).api.st().actor, actor, final(self).api.sys().modules.events().last(), event_name, event_data, event_flags),
                    ret matches Err(e) ==> res_err(e) || e is SystemModuleError,
            @after <<. checked_add_event ( event )>> #1
                proof {
                    let evs = self.api.sys().modules.events();
                    assert(evs.drop_last() =~= old(self).api.sys().modules.events());
                }
            @*/
            // ---- (2) events: who may emit with EventFlags::FORCE_WRITE -------------------------------------------------
            /*@fn radix-engine/src/system/system.rs :: impl<'a, Y: SystemBasedKernelApi> SystemActorApi<RuntimeError> for SystemService<'a, Y> :: fn actor_get_blueprint_id
            @sig
                ensures final(self).api.st() == old(self).api.st(),
                        *final(final(self).api) == *final(old(self).api),
                        final(self).api.sys().modules.events() == old(self).api.sys().modules.events(),
                        final(self).api.sys().modules.fee_locks() == old(self).api.sys().modules.fee_locks(),
                        final(self).api.sys().modules.enabled_modules == old(self).api.sys().modules.enabled_modules,
                        ret matches Ok(id) ==> is_running_blueprint(old(self).api.st().actor, Some(id)),
                        ret matches Err(e) ==> e is Environment || (e == RuntimeError::SystemError(SystemError::NoBlueprintId) && old(self).api.st().actor is Root),
            @*/
            /// the event door (WASM `actor_emit_event` lands here; radix-native-sdk Runtime::emit_event passes EventFlags::empty())
            /*@fn radix-engine/src/system/system.rs :: impl<'a, Y: SystemBasedKernelApi> SystemActorApi<RuntimeError> for SystemService<'a, Y> :: fn actor_emit_event
            @sig
                ensures
                    final(self).api.st() == old(self).api.st(),
                    *final(final(self).api) == *final(old(self).api),
                    final(self).api.sys().modules.fee_locks() == old(self).api.sys().modules.fee_locks(),
                    // at most one event is recorded, carrying exactly the given name, data and flags ...
                    final(self).api.sys().modules.events() == old(self).api.sys().modules.events()
                        || (final(self).api.sys().modules.events().len() == old(self).api.sys().modules.events().len() + 1
                            && final(self).api.sys().modules.events().drop_last() == old(self).api.sys().modules.events()
                            && emitted_by(old(self).api.st().actor, final(self).api.sys().modules.events().last(), event_name, event_data, event_flags)),
                    ret is Ok ==> final(self).api.sys().modules.events().len() == old(self).api.sys().modules.events().len() + 1,
                    // ... and -- C02 -- a FORCE_WRITE event is recorded only when the running code is the fungible vault blueprint's
                    efw(event_flags) && !runs_fungible_vault(old(self).api.st().actor) ==>
                        final(self).api.sys().modules.events() == old(self).api.sys().modules.events()
                        && (ret matches Err(e) && (e is Environment
                            || e == RuntimeError::SystemError(SystemError::ForceWriteEventFlagsNotAllowed)
                            || (e == RuntimeError::SystemError(SystemError::NoBlueprintId) && old(self).api.st().actor is Root))),
                    ret == Err::<(), RuntimeError>(RuntimeError::SystemError(SystemError::ForceWriteEventFlagsNotAllowed))
                        ==> efw(event_flags) && !runs_fungible_vault(old(self).api.st().actor),
            @after <<let blueprint_id = self.actor_get_blueprint_id>> #1
                proof { lemma_running_vault(old(self).api.st().actor, blueprint_id); }
            @*/

            // ---- (2b) the fee path of the costing API: the only FORCE_WRITE events the system layer creates by itself -------
            /// SystemCostingApi::lock_fee -- called by FungibleVaultBlueprint::lock_fee after the fee left the vault balance.
            /// NO check of its own: it trusts its caller to be a fungible vault method (`expect`) -- stated as precondition.
            /*@fn radix-engine/src/system/system.rs :: impl<'a, Y: SystemBasedKernelApi> SystemCostingApi<RuntimeError> for SystemService<'a, Y> :: fn lock_fee
            @sig
                requires
                    runs_fungible_vault(old(self).api.st().actor) && old(self).api.st().actor is Method,
                    old(self).api.sys().modules.enabled_modules.has(EnabledModules::COSTING),
                    forall|b: Seq<u8>| dec::<LockFeeEvent>(b) == Some(LockFeeEvent { amount: locked_fee.amount }) ==> event_fits(#[trigger] b.len()),
                ensures
                    final(self).api.st() == old(self).api.st(),
                    *final(final(self).api) == *final(old(self).api),
                    // the fee reserve is credited with exactly this amount, in the name of the ACTOR's node (the vault)
                    final(self).api.sys().modules.fee_locks() == old(self).api.sys().modules.fee_locks().push(
                        (old(self).api.st().actor->Method_0.node_id, locked_fee, contingent)),
                    // and ONE event is stored: FORCE_WRITE, "LockFeeEvent" of that vault, payload = the amount
                    final(self).api.sys().modules.events().len() == old(self).api.sys().modules.events().len() + 1
                        && final(self).api.sys().modules.events().drop_last() == old(self).api.sys().modules.events()
                        && is_lock_fee_event(final(self).api.sys().modules.events().last(), old(self).api.st().actor->Method_0.node_id, locked_fee.amount),
            @after <<. add_event_unchecked ( event )>> #1
                proof {
                    assert(self.api.sys().modules.events().drop_last() =~= old(self).api.sys().modules.events());
                    assert(1u32 & 1u32 == 1u32) by (bit_vector);
                }
            @*/

            /// SystemCostingApi::start_lock_fee -- first call of FungibleVaultBlueprint::lock_fee. With costing DISABLED it
            /// stores the LockFeeEvent itself (FORCE_WRITE, through emit_event_internal) and tells the vault to stop.
            /*@fn radix-engine/src/system/system.rs :: impl<'a, Y: SystemBasedKernelApi> SystemCostingApi<RuntimeError> for SystemService<'a, Y> :: fn start_lock_fee
            @sig
                requires runs_fungible_vault(old(self).api.st().actor)
                ensures
                    final(self).api.st() == old(self).api.st(),
                    *final(final(self).api) == *final(old(self).api),
                    final(self).api.sys().modules.fee_locks() == old(self).api.sys().modules.fee_locks(),
                    final(self).api.sys().modules.enabled_modules == old(self).api.sys().modules.enabled_modules,
                    // "Child subintents are only allowed to use contingent fees"
                    !contingent && old(self).api.stack_id() != 0 ==> ret == Err::<bool, RuntimeError>(RuntimeError::SystemError(SystemError::CannotLockFeeInChildSubintent(old(self).api.stack_id()))),
                    // the answer: is the costing module enabled (then the vault goes on to take the fee)
                    ret matches Ok(b) ==> b == old(self).api.sys().modules.enabled_modules.has(EnabledModules::COSTING),
                    // costing enabled, or any failure: no event
                    (ret is Err || ret == Ok::<bool, RuntimeError>(true)) ==> final(self).api.sys().modules.events() == old(self).api.sys().modules.events(),
                    // costing disabled: exactly one event, the (simulated) LockFeeEvent of the current actor, FORCE_WRITE
                    ret == Ok::<bool, RuntimeError>(false) ==> final(self).api.sys().modules.events().len() == old(self).api.sys().modules.events().len() + 1
                        && final(self).api.sys().modules.events().drop_last() == old(self).api.sys().modules.events()
                        && efw(final(self).api.sys().modules.events().last().flags)
                        && final(self).api.sys().modules.events().last().type_identifier.1@ == LockFeeEvent::EVENT_NAME@
                        && dec::<LockFeeEvent>(final(self).api.sys().modules.events().last().payload@) == Some(LockFeeEvent { amount }),
            @entry
                proof { assert(1u32 & 1u32 == 1u32) by (bit_vector); }
            @*/
        }
    }

    // ==================================================================================================
    // (4) blueprints/resource/fungible/fungible_vault.rs :: FungibleVaultBlueprint::lock_fee -- the one blueprint function
    //     that passes FORCE_WRITE
    // ==================================================================================================
    pub mod vault {
        use vstd::prelude::*;
        use super::super::rt::*;
        use super::super::decimal::*;
        use super::super::decimal::Decimal;
        use super::super::decimal_attos::*;
        use super::super::env::*;
        use super::super::env::bp::*;
        use vstd::arithmetic::power::pow;
        broadcast use {group_decimal, group_i192};

        /*@item radix-engine-interface/src/blueprints/resource/resource.rs :: enum ResourceError
        @derive
        @*/
        /*@item radix-engine/src/blueprints/resource/vault_common.rs :: enum VaultError
        @derive
        @*/
        /*@item radix-engine-interface/src/blueprints/resource/resource.rs :: struct VaultFrozenFlag
        @derive
        @*/
        /*@item radix-engine-interface/src/blueprints/resource/resource.rs :: struct LiquidFungibleResource
        @derive
        @*/
        pub struct FungibleVaultBlueprint;

        // ---- ORACLE ----------------------------------------------------------------------------------------
        /// an amount a resource of divisibility `d` can hold: non-negative and a whole number of 10^(18-d) attos
        pub open spec fn respects_divisibility(attos: int, d: int) -> bool {
            attos >= 0 && attos % pow(10, (18 - d) as nat) == 0
        }
        /// what can be taken out of a container holding `bal`
        pub open spec fn take_ok(bal: int, amt: int) -> bool { amt <= bal && in_dec(bal - amt) }
        pub open spec fn freezable(s: State) -> bool { s.features.contains((ACTOR_STATE_OUTER_OBJECT, FungibleResourceManagerFeature::VaultFreeze)) }
        /// a well-formed fungible vault: a liquid balance, its resource manager's divisibility visible as outer object, a
        /// freeze status if the resource is freezable; its outer object is a resource address
        pub open spec fn wf_vault(s: State) -> bool {
            &&& s.fields.contains_key(C_BAL()) && s.fields[C_BAL()] is Liquid
            &&& s.fields.contains_key(O_DIV()) && s.fields[O_DIV()] is Divisibility && s.fields[O_DIV()]->Divisibility_0 <= 18
            &&& (freezable(s) ==> s.fields.contains_key(V_FREEZE()) && s.fields[V_FREEZE()] is Frozen)
            &&& is_resource_entity(s.outer.0)
        }
        pub open spec fn frozen_for(s: State, flags: VaultFreezeFlags) -> bool {
            freezable(s) && (s.fields[V_FREEZE()]->Frozen_0.frozen.bits & flags.bits) != 0
        }
        pub open spec fn balance(s: State) -> int { s.fields[C_BAL()]->Liquid_0.v() }
        pub open spec fn outer_divisibility(s: State) -> int { s.fields[O_DIV()]->Divisibility_0 as int }
        pub open spec fn is_xrd_vault(s: State) -> bool { ResourceAddress(s.outer) == XRD }
        /// every field except the liquid balance is untouched
        pub open spec fn frame_balance(f0: Map<FieldRef, GhostVal>, f1: Map<FieldRef, GhostVal>) -> bool {
            f1.remove(C_BAL()) =~= f0.remove(C_BAL())
        }
        pub open spec fn handles_kept(h0: Map<FieldHandle, (FieldRef, LockFlags)>, h1: Map<FieldHandle, (FieldRef, LockFlags)>) -> bool {
            forall|h: FieldHandle| h0.contains_key(h) ==> h1.contains_key(h) && h1[h] == h0[h]
        }
        /// the checks made before the fee reserve is consulted: XRD vault, not frozen for withdrawals, a legal amount
        pub open spec fn lock_fee_request_ok(s: State, amount: Decimal) -> bool {
            &&& is_xrd_vault(s) && !frozen_for(s, VaultFreezeFlags::WITHDRAW)
            &&& respects_divisibility(amount.v(), outer_divisibility(s))
        }
        /// the request is one the vault must serve (costing enabled): ... and enough balance
        pub open spec fn lock_fee_admissible(s: State, amount: Decimal) -> bool {
            lock_fee_request_ok(s, amount) && take_ok(balance(s), amount.v())
        }
        /// the blueprint-level error for a request that is not admissible (checked in this order)
        pub open spec fn lock_fee_app_error(s: State, amount: Decimal) -> VaultError {
            if frozen_for(s, VaultFreezeFlags::WITHDRAW) { VaultError::VaultIsFrozen }
            else if !is_xrd_vault(s) { VaultError::LockFeeNotRadixToken }
            else if !respects_divisibility(amount.v(), outer_divisibility(s)) { VaultError::InvalidAmount(amount) }
            else { VaultError::LockFeeInsufficientBalance { requested: amount, actual: s.fields[C_BAL()]->Liquid_0 } }
        }
        /// C02 + C03 for one fee lock that went through: the liquid balance shrank by exactly `amount`, that field was
        /// FORCE-WRITTEN (once), and exactly `amount` was credited to the fee reserve (once) -- nothing else changed
        pub open spec fn fee_locked(s0: State, s1: State, amount: Decimal, contingent: bool) -> bool {
            &&& s1.fields.contains_key(C_BAL()) && s1.fields[C_BAL()] is Liquid
            &&& balance(s1) == balance(s0) - amount.v()
            &&& frame_balance(s0.fields, s1.fields)
            &&& s1.forced == s0.forced.push(C_BAL())
            &&& s1.fee_locks == s0.fee_locks.push((amount, contingent))
            &&& s1.handles =~= s0.handles && s1.features == s0.features && s1.outer == s0.outer && s1.costing == s0.costing && s1.simulated == s0.simulated
        }

        /// bit facts about the three lock flags (MUTABLE = 1, UNMODIFIED_BASE = 2, FORCE_WRITE = 4)
        pub proof fn lemma_flag_bits()
            ensures !fw(LockFlags { bits: 0 }), !fw(LockFlags { bits: 1 }),
                    fw(LockFlags { bits: (1u32 | 2u32) | 4u32 }), is_mutable(LockFlags { bits: (1u32 | 2u32) | 4u32 }),
        {
            assert(0u32 & 4u32 != 4u32) by (bit_vector);
            assert(1u32 & 4u32 != 4u32) by (bit_vector);
            assert(((1u32 | 2u32) | 4u32) & 4u32 == 4u32) by (bit_vector);
            assert(((1u32 | 2u32) | 4u32) & 1u32 == 1u32) by (bit_vector);
        }
        pub proof fn lemma_pow10_bounds(k: nat)
            requires k <= 18
            ensures 1 <= pow(10, k) <= 1_000_000_000_000_000_000
        {
            vstd::arithmetic::power::lemma_pow_positive(10, k);
            vstd::arithmetic::power::lemma_pow_increases(10, k, 18);
            assert(pow(10, 18) == 1_000_000_000_000_000_000) by { reveal_with_fuel(vstd::arithmetic::power::pow, 20); }
        }

        impl LiquidFungibleResource {
            /*@fn radix-engine-interface/src/blueprints/resource/resource.rs :: impl LiquidFungibleResource :: fn new
            @sig
                ensures ret.amount == amount
            @*/
            /*@fn radix-engine-interface/src/blueprints/resource/resource.rs :: impl LiquidFungibleResource :: fn take_by_amount
            @sig
                ensures
                    take_ok(old(self).amount.v(), amount_to_take.v()) ==> ret is Ok,
                    ret matches Ok(r) ==> take_ok(old(self).amount.v(), amount_to_take.v())
                        && r.amount == amount_to_take
                        && final(self).amount.v() == old(self).amount.v() - amount_to_take.v(),
                    ret matches Err(e) ==> *final(self) == *old(self)
                        && (old(self).amount.v() < amount_to_take.v() ==> e == (ResourceError::InsufficientBalance { requested: amount_to_take, actual: old(self).amount })),
            @*/
        }
        /*@fn radix-engine-interface/src/blueprints/resource/mod.rs :: fn check_fungible_amount
        @sig
            requires divisibility <= 18
            ensures ret == respects_divisibility(amount.v(), divisibility as int)
        @entry
            proof {
                let b = pow(10, (18 - divisibility) as nat);
                lemma_pow10_bounds((18 - divisibility) as nat);
                if amount.v() >= 0 {
                    // truncated remainder == mathematical remainder on a non-negative dividend
                    vstd::arithmetic::div_mod::lemma_fundamental_div_mod(amount.v(), b);
                    assert(trem(amount.v(), b) == amount.v() % b);
                }
            }
        @*/

        impl FungibleVaultBlueprint {
            /*@fn radix-engine/src/blueprints/resource/fungible/fungible_vault.rs :: impl FungibleVaultBlueprint :: fn get_divisibility
            @sig
                requires wf_vault(old(api).state())
                ensures
                    ret matches Ok(d) ==> d as int == outer_divisibility(old(api).state())
                        && final(api).state() == (State { handles: final(api).state().handles, ..old(api).state() })
                        && final(api).state().handles =~= old(api).state().handles,
                    ret is Err ==> final(api).state() == (State { handles: final(api).state().handles, ..old(api).state() }),
                    handles_kept(old(api).state().handles, final(api).state().handles),
                    ret matches Err(e) ==> !e.is_application_error(),
            @entry
                proof { lemma_flag_bits(); }
            @*/
            /*@fn radix-engine/src/blueprints/resource/fungible/fungible_vault.rs :: impl FungibleVaultBlueprint :: fn assert_not_frozen
            @sig
                requires wf_vault(old(api).state())
                ensures
                    ret is Ok ==> !frozen_for(old(api).state(), flags) && final(api).state().handles =~= old(api).state().handles,
                    frozen_for(old(api).state(), flags) ==> ret is Err,
                    // the blueprint itself refuses ONLY a vault that really is frozen for the operation
                    ret matches Err(e) ==> (e.is_application_error() ==> frozen_for(old(api).state(), flags)
                        && e == RuntimeError::ApplicationError(ApplicationError::VaultError(VaultError::VaultIsFrozen))),
                    final(api).state() == (State { handles: final(api).state().handles, ..old(api).state() }),
                    handles_kept(old(api).state().handles, final(api).state().handles),
            @entry
                proof { lemma_flag_bits(); }
            @*/

            /// FungibleVault::lock_fee / lock_contingent_fee
            /*@fn radix-engine/src/blueprints/resource/fungible/fungible_vault.rs :: impl FungibleVaultBlueprint :: fn lock_fee
            @sig
                requires wf_vault(old(api).state())
                ensures
                    // whatever happens: force-write log and fee-reserve credits move TOGETHER, by this vault's balance and this amount
                    handles_kept(old(api).state().handles, final(api).state().handles),
                    final(api).state().features == old(api).state().features, final(api).state().outer == old(api).state().outer,
                    final(api).state().costing == old(api).state().costing,
                    // success with costing enabled: exactly `amount` left the liquid balance of an XRD vault, force-written, credited
                    ret is Ok && old(api).state().costing ==> lock_fee_admissible(old(api).state(), amount)
                        && fee_locked(old(api).state(), final(api).state(), amount, contingent),
                    // success with costing disabled (preview): nothing is taken, nothing credited, nothing force-written
                    ret is Ok && !old(api).state().costing ==> lock_fee_request_ok(old(api).state(), amount)
                        && final(api).state().fields == old(api).state().fields && final(api).state().forced == old(api).state().forced
                        && final(api).state().fee_locks == old(api).state().fee_locks && final(api).state().simulated == old(api).state().simulated + 1,
                    // failure: no credit, nothing force-written (a balance write that was not closed is reverted with the transaction)
                    ret is Err ==> final(api).state().forced == old(api).state().forced && final(api).state().fee_locks == old(api).state().fee_locks,
                    // a request that is not admissible fails, before anything is written
                    !lock_fee_request_ok(old(api).state(), amount) || (old(api).state().costing && !lock_fee_admissible(old(api).state(), amount))
                        ==> ret is Err && final(api).state().fields == old(api).state().fields,
                    // the blueprint's own errors are exactly the documented ones
                    ret matches Err(e) ==> (e.is_application_error() ==> !lock_fee_admissible(old(api).state(), amount)
                        && e == RuntimeError::ApplicationError(ApplicationError::VaultError(lock_fee_app_error(old(api).state(), amount)))),
            @entry
                proof { lemma_flag_bits(); }
            @closure 1 := |e: ResourceError| -> (r: RuntimeError) ensures r == RuntimeError::ApplicationError(ApplicationError::VaultError(match e { ResourceError::InsufficientBalance { requested, actual } => VaultError::LockFeeInsufficientBalance { requested, actual }, _ => VaultError::ResourceError(e) }))
            @*/
        }
        impl VerifPayload for LiquidFungibleResource {
            open spec fn accepts(v: GhostVal) -> bool { v is Liquid }
            open spec fn ghost(&self) -> GhostVal { GhostVal::Liquid(self.amount) }
        }
    }

    // ==================================================================================================
    // (5) composition: after a failed transaction the only substates that contribute updates are fields of
    //     fungible vaults that were opened with FORCE_WRITE (= by lock_fee: liquid balances of XRD vaults that paid fees)
    // ==================================================================================================
    pub mod compose {
        use vstd::prelude::*;
        use super::super::env::*;
        use super::super::env::sys::{KState, special_open_permitted, is_fungible_vault};

        /// what the kernel does with substate handles during one transaction, as far as FORCE_WRITE is concerned
        pub enum Step {
            /// kernel_open_substate(_with_default) returned Ok(h): the handle is recorded with its flags (env::sys `opened`)
            Open { h: u32, id: SubstateId, flags: LockFlags },
            /// SubstateIO::close_substate(h) (contract proved in `unit::io`)
            Close { h: u32 },
        }
        pub ghost struct K { pub handles: Map<u32, (SubstateId, LockFlags)>, pub forced: Set<SubstateId> }
        pub open spec fn step(k: K, s: Step) -> K {
            match s {
                Step::Open { h, id, flags } => K { handles: k.handles.insert(h, (id, flags)), forced: k.forced },
                Step::Close { h } => if k.handles.contains_key(h) {
                    K { handles: k.handles.remove(h), forced: if fw(k.handles[h].1) { k.forced.insert(k.handles[h].0) } else { k.forced } }
                } else { k },
            }
        }
        pub open spec fn run(k: K, t: Seq<Step>) -> K decreases t.len() {
            if t.len() == 0 { k } else { step(run(k, t.drop_last()), t.last()) }
        }
        /// the SENSITIVE-CALLEE precondition, for every open of the trace: FORCE_WRITE only on a permitted substate.
        /// (`unit::sys` proves that actor_open_field / actor_open_key_value_entry / key_value_store_open_entry meet it.)
        pub open spec fn guarded(t: Seq<Step>, p: spec_fn(SubstateId) -> bool) -> bool {
            forall|i: int| 0 <= i < t.len() ==> ((#[trigger] t[i]) matches Step::Open { h, id, flags } ==> (fw(flags) ==> p(id)))
        }
        pub open spec fn k_ok(k: K, p: spec_fn(SubstateId) -> bool) -> bool {
            &&& forall|h: u32| #[trigger] k.handles.contains_key(h) && fw(k.handles[h].1) ==> p(k.handles[h].0)
            &&& forall|id: SubstateId| #[trigger] k.forced.contains(id) ==> p(id)
        }
        pub proof fn lemma_run_keeps_ok(k: K, t: Seq<Step>, p: spec_fn(SubstateId) -> bool)
            requires k_ok(k, p), guarded(t, p)
            ensures k_ok(run(k, t), p)
            decreases t.len()
        {
            if t.len() > 0 {
                let t0 = t.drop_last();
                assert forall|i: int| 0 <= i < t0.len() implies ((#[trigger] t0[i]) matches Step::Open { h, id, flags } ==> (fw(flags) ==> p(id))) by {
                    assert(t0[i] == t[i]);
                }
                lemma_run_keeps_ok(k, t0, p);
                let k1 = run(k, t0);
                let s = t.last();
                assert(s == t[t.len() - 1]);
                let k2 = step(k1, s);
                assert(k_ok(k2, p)) by {
                    assert forall|h: u32| #[trigger] k2.handles.contains_key(h) && fw(k2.handles[h].1) implies p(k2.handles[h].0) by {
                        match s {
                            Step::Open { h: h0, id, flags } => { if h != h0 { assert(k1.handles.contains_key(h)); } }
                            Step::Close { h: h0 } => { assert(k1.handles.contains_key(h)); }
                        }
                    }
                    assert forall|id: SubstateId| #[trigger] k2.forced.contains(id) implies p(id) by {
                        match s {
                            Step::Open { .. } => {}
                            Step::Close { h: h0 } => { if k1.handles.contains_key(h0) && !k1.forced.contains(id) { assert(fw(k1.handles[h0].1) && k1.handles[h0].0 == id); } }
                        }
                    }
                }
            }
        }
        /// the model is not vacuous: open with FORCE_WRITE, close ==> the substate IS in the force-write log (and survives)
        pub proof fn lemma_model_records_force_write(id: SubstateId)
            ensures run(K { handles: Map::empty(), forced: Set::empty() },
                        seq![Step::Open { h: 1u32, id, flags: LockFlags { bits: 7 } }, Step::Close { h: 1u32 }]).forced.contains(id),
                    !run(K { handles: Map::empty(), forced: Set::empty() },
                        seq![Step::Open { h: 1u32, id, flags: LockFlags { bits: 1 } }, Step::Close { h: 1u32 }]).forced.contains(id),
        {
            assert(7u32 & 4u32 == 4u32) by (bit_vector);
            assert(1u32 & 4u32 != 4u32) by (bit_vector);
            let k0 = K { handles: Map::empty(), forced: Set::empty() };
            let t = seq![Step::Open { h: 1u32, id, flags: LockFlags { bits: 7 } }, Step::Close { h: 1u32 }];
            let u = seq![Step::Open { h: 1u32, id, flags: LockFlags { bits: 1 } }, Step::Close { h: 1u32 }];
            reveal_with_fuel(run, 4);
            assert(t.drop_last() =~= seq![t[0]]);
            assert(t.drop_last().drop_last() =~= Seq::<Step>::empty());
            assert(u.drop_last() =~= seq![u[0]]);
            assert(u.drop_last().drop_last() =~= Seq::<Step>::empty());
        }
        /// unit c02_result_type, MappedTrack::revert_non_force_write_changes: "every remaining tracked substate either carries
        /// exactly the value recorded under FORCE_WRITE, or contributes no update at all" (+ c12_tracked_substate: update
        /// emitted <==> written) -- abstractly: the substates that contribute updates after the revert are in the force-write log
        pub open spec fn reverted(updates: Set<SubstateId>, forced: Set<SubstateId>) -> bool {
            forall|id: SubstateId| #[trigger] updates.contains(id) ==> forced.contains(id)
        }
        /// C02, composed: a transaction that starts with no open handle and an empty force-write log, all of whose opens
        /// went through the guarded doors, and that FAILS (track reverted): every substate that still contributes an update
        /// is a FIELD of an object whose blueprint is the native fungible vault.
        pub proof fn lemma_failed_transaction_updates_only_vault_fields(s: KState, t: Seq<Step>, updates: Set<SubstateId>)
            requires
                guarded(t, |id: SubstateId| special_open_permitted(s, id.0, id.2)),
                reverted(updates, run(K { handles: Map::empty(), forced: Set::empty() }, t).forced),
            ensures
                forall|id: SubstateId| #[trigger] updates.contains(id) ==> id.2 is Field && is_fungible_vault(s, id.0),
        {
            let p = |id: SubstateId| special_open_permitted(s, id.0, id.2);
            let k0 = K { handles: Map::empty(), forced: Set::empty() };
            lemma_run_keeps_ok(k0, t, p);
            assert forall|id: SubstateId| #[trigger] updates.contains(id) implies id.2 is Field && is_fungible_vault(s, id.0) by {
                assert(run(k0, t).forced.contains(id));
                assert(p(id));
            }
        }
        /// and nothing is force-written at all when no open ever carried FORCE_WRITE (e.g. a transaction that never locked a fee)
        pub proof fn lemma_no_force_write_no_update(t: Seq<Step>, updates: Set<SubstateId>)
            requires
                guarded(t, |id: SubstateId| false),
                reverted(updates, run(K { handles: Map::empty(), forced: Set::empty() }, t).forced),
            ensures updates =~= Set::<SubstateId>::empty(),
        {
            let p = |id: SubstateId| false;
            let k0 = K { handles: Map::empty(), forced: Set::empty() };
            lemma_run_keeps_ok(k0, t, p);
            assert forall|id: SubstateId| !updates.contains(id) by {
                if updates.contains(id) { assert(run(k0, t).forced.contains(id)); assert(p(id)); }
            }
        }
    }

}
} // verus!
fn main() {}
