// Unit c32_tx_hashes -- property C32 "Transaction identifiers commit to the whole transaction"
use vstd::prelude::*;
verus! {
global size_of usize == 8;
/*@include shims/rt.rs @*/
/*@include shims/bytes.rs @*/
/*@include shims/try_from.rs @*/

pub mod env {
    use vstd::prelude::*;
    use super::bytes::spec_hash;


    // ---- sbor ------------------------------------------------------------------------------------
    pub use core::marker::PhantomData;
    /*@item sbor/src/decoder.rs :: enum DecodeError
    @derive Copy, Clone, PartialEq, Eq
    @*/
    /*@item sbor/src/encoder.rs :: enum EncodeError
    @derive Clone, PartialEq, Eq
    @*/
    /// sbor/src/value_kind.rs :: trait CustomValueKind, re-declared with a functional contract
    pub trait CustomValueKind: Copy + Clone + PartialEq + Eq {
        spec fn as_u8_spec(&self) -> u8;
        spec fn from_u8_spec(id: u8) -> Option<Self>;
        fn as_u8(&self) -> (r: u8) ensures r == self.as_u8_spec();
        fn from_u8(id: u8) -> (r: Option<Self>) ensures r == Self::from_u8_spec(id);
    }
    /// the bytes not yet consumed
    pub open spec fn rest_of(input: Seq<u8>, pos: int) -> Seq<u8> { input.subrange(pos, input.len() as int) }
    /// ASSUMED (proved in unit c20_size_codec for the verbatim body of `Decoder::read_size`): the LEB128 size
    /// prefix of a byte string -- `Some((n, k))`: the first k bytes (1..=4) are the canonical encoding of n <= 0x0FFF_FFFF
    pub uninterp spec fn size_at(rest: Seq<u8>) -> Option<(usize, int)>;
    pub broadcast axiom fn ax_size_at(rest: Seq<u8>)
        ensures (#[trigger] size_at(rest)) matches Some(p) ==> p.0 <= 0x0FFF_FFFF && 1 <= p.1 <= 4 && p.1 <= rest.len();


    /// representation invariant of a decoder: read position inside the input, depth within the limit
    pub open spec fn wf_at(input: Seq<u8>, pos: int) -> bool { 0 <= pos <= input.len() }
    pub open spec fn wf_dec(input: Seq<u8>, pos: int, depths: (int, int)) -> bool {
        wf_at(input, pos) && 0 <= depths.0 <= depths.1 < usize::MAX
    }
    /// Ghost state of a decoder + the one provided method of `sbor::Decoder` that is NOT re-verified here.
    /// ASSUMED contract of `read_size` = what unit c20_size_codec proves for its verbatim body.
    pub trait DecoderState: Sized {
        spec fn input(&self) -> Seq<u8>;
        spec fn pos(&self) -> int;
        /// (stack_depth, max_depth)
        spec fn depths(&self) -> (int, int);
        fn read_size(&mut self) -> (ret: Result<usize, DecodeError>)
            requires wf_at(old(self).input(), old(self).pos())
            ensures
                final(self).input() == old(self).input(), final(self).depths() == old(self).depths(),
                wf_at(final(self).input(), final(self).pos()), final(self).pos() >= old(self).pos(),
                ret is Ok <==> size_at(rest_of(old(self).input(), old(self).pos())) is Some,
                ret matches Ok(n) ==> size_at(rest_of(old(self).input(), old(self).pos())) == Some((n, final(self).pos() - old(self).pos())),
                ret matches Err(e) ==> e == DecodeError::InvalidSize || e == (DecodeError::BufferUnderflow { required: 1, remaining: 0 });
    }
    impl<'de, X: CustomValueKind> DecoderState for super::unit::VecDecoder<'de, X> {
        open spec fn input(&self) -> Seq<u8> { self.input@ }
        open spec fn pos(&self) -> int { self.offset as int }
        open spec fn depths(&self) -> (int, int) { (self.stack_depth as int, self.max_depth as int) }
        #[verifier::external_body]
        fn read_size(&mut self) -> (ret: Result<usize, DecodeError>) { unimplemented!() }
    }
    /// sbor/src/decode.rs :: trait Decode -- the typed codecs (derive-generated or hand-written) are NOT under
    /// contract. ASSUMED frame: a successful decode leaves the input and the depth counters alone and only moves
    /// the read position forward inside the input.
    pub trait Decode<X: CustomValueKind, D: DecoderState>: Sized {
        fn decode_body_with_value_kind(decoder: &mut D, value_kind: super::unit::ValueKind<X>) -> (ret: Result<Self, DecodeError>)
            requires wf_dec(old(decoder).input(), old(decoder).pos(), old(decoder).depths())
            ensures ret is Ok ==> final(decoder).input() == old(decoder).input() && final(decoder).depths() == old(decoder).depths()
                && old(decoder).pos() <= final(decoder).pos() <= old(decoder).input().len();
    }

    /// radix-common/src/crypto/hash.rs :: struct Hash (32 raw bytes, Copy)
    #[derive(Clone, Copy, PartialEq, Eq, Debug)]
    pub struct Hash(pub [u8; 32]);

    /// core::convert::AsRef re-declared (vstd has no specification of `AsRef::as_ref`)
    pub trait AsRef<T: ?Sized> {
        spec fn as_ref_spec(&self) -> &T;
        fn as_ref(&self) -> (r: &T)
            ensures r == self.as_ref_spec();
    }
    pub uninterp spec fn arr_as_slice<const N: usize>(a: &[u8; N]) -> &[u8];
    pub broadcast axiom fn ax_arr_as_slice<const N: usize>(a: &[u8; N])
        ensures #[trigger] arr_as_slice(a)@ == a@;
    impl<const N: usize> AsRef<[u8]> for [u8; N] {
        open spec fn as_ref_spec(&self) -> &[u8] { arr_as_slice(self) }
        #[verifier::external_body]
        fn as_ref(&self) -> (r: &[u8]) { &self[..] }
    }
    pub uninterp spec fn hash_as_slice(a: &Hash) -> &[u8];
    pub broadcast axiom fn ax_hash_as_slice(a: &Hash)
        ensures #[trigger] hash_as_slice(a)@ == a.0@;
    impl AsRef<[u8]> for Hash {
        open spec fn as_ref_spec(&self) -> &[u8] { hash_as_slice(self) }
        #[verifier::external_body]
        fn as_ref(&self) -> (r: &[u8]) { &self.0[..] }
    }


    impl<'a> AsRef<[u8]> for &'a [u8] {
        open spec fn as_ref_spec(&self) -> &[u8] { *self }
        fn as_ref(&self) -> (r: &[u8]) { *self }
    }
    pub uninterp spec fn vec_as_slice(a: &Vec<u8>) -> &[u8];
    pub broadcast axiom fn ax_vec_as_slice(a: &Vec<u8>)
        ensures #[trigger] vec_as_slice(a)@ == a@;
    impl<'a> AsRef<[u8]> for &'a Vec<u8> {
        open spec fn as_ref_spec(&self) -> &[u8] { vec_as_slice(*self) }
        #[verifier::external_body]
        fn as_ref(&self) -> (r: &[u8]) { self.as_slice() }
    }
    impl Blake2b256 {
        /// `Digest::digest(data)` = `new().chain_update(data).finalize()`
        #[verifier::external_body]
        pub fn digest<T: AsRef<[u8]>>(data: T) -> (r: Output32)
            ensures r.0@ == spec_hash(data.as_ref_spec()@)
        { unimplemented!() }
    }


    // ---- environment of summarized_raw.rs ---------------------------------------------------------
    /// sbor `Categorize<ManifestCustomValueKind>`: the value kind a type announces
    pub trait ManifestCategorize {
        spec fn value_kind_spec() -> super::unit::ManifestValueKind;
        fn value_kind() -> (r: super::unit::ManifestValueKind) ensures r == Self::value_kind_spec();
    }
    impl ManifestCategorize for Vec<u8> {
        open spec fn value_kind_spec() -> super::unit::ManifestValueKind { super::unit::ValueKind::Array }
        fn value_kind() -> (r: super::unit::ManifestValueKind) { super::unit::ValueKind::Array }
    }
    /// the byte-vector and hash codecs (sbor / radix-common), not under contract: only the assumed `Decode` frame
    impl<'a> Decode<super::unit::ManifestCustomValueKind, super::unit::ManifestDecoder<'a>> for Vec<u8> {
        #[verifier::external_body]
        fn decode_body_with_value_kind(decoder: &mut super::unit::ManifestDecoder<'a>, value_kind: super::unit::ManifestValueKind) -> (ret: Result<Self, DecodeError>) { unimplemented!() }
    }
    impl super::unit::ManifestDecode for Vec<u8> {}
    impl<'a> Decode<super::unit::ManifestCustomValueKind, super::unit::ManifestDecoder<'a>> for Hash {
        #[verifier::external_body]
        fn decode_body_with_value_kind(decoder: &mut super::unit::ManifestDecoder<'a>, value_kind: super::unit::ManifestValueKind) -> (ret: Result<Self, DecodeError>) { unimplemented!() }
    }
    impl super::unit::ManifestDecode for Hash {}
    /// radix-transactions `Reference` / `IndexSet<Reference>` / `extract_references` (SBOR traverser): opaque here --
    /// references do not enter any hash
    pub struct Reference;
    #[verifier::external_body]
    #[verifier::reject_recursive_types(T)]
    pub struct IndexSet<T> { _p: PhantomData<T> }
    pub mod traversal {
        pub enum ExpectedStart<X: super::CustomValueKind> { PayloadPrefix(u8), Value, ValueBody(super::super::unit::ValueKind<X>) }
    }
    #[verifier::external_body]
    pub fn extract_references(encoded: &[u8], expected_start: traversal::ExpectedStart<super::unit::ManifestCustomValueKind>) -> IndexSet<Reference> { unimplemented!() }


    // ---- environment of the representative payloads (V2 notarized transaction / signed intent) ----------
    /// wrapped hashes (`define_wrapped_hash!`): newtypes over Hash; `IsHash::from_hash` = `hash.into()` = `Self(hash)`
    #[derive(Clone, Copy, PartialEq, Eq, Debug)]
    pub struct SignedTransactionIntentHash(pub Hash);
    impl SignedTransactionIntentHash { pub fn from_hash(hash: Hash) -> (r: Self) ensures r.0 == hash { Self(hash) } }
    #[derive(Clone, Copy, PartialEq, Eq, Debug)]
    pub struct NotarizedTransactionHash(pub Hash);
    impl NotarizedTransactionHash { pub fn from_hash(hash: Hash) -> (r: Self) ensures r.0 == hash { Self(hash) } }
    /// the unprepared models: only their names are needed (their derive-generated codecs are not under contract)
    pub struct SignedTransactionIntentV2;
    pub struct NotarizedTransactionV2;
    #[derive(Clone, PartialEq, Eq, Debug)]
    pub struct NotarySignatureV2;
    impl<'a> Decode<super::unit::ManifestCustomValueKind, super::unit::ManifestDecoder<'a>> for NotarySignatureV2 {
        #[verifier::external_body]
        fn decode_body_with_value_kind(decoder: &mut super::unit::ManifestDecoder<'a>, value_kind: super::unit::ManifestValueKind) -> (ret: Result<Self, DecodeError>) { unimplemented!() }
    }
    impl super::unit::ManifestDecode for NotarySignatureV2 {}
    /// `#[sbor(transparent)]` over SignatureV1, an SBOR enum
    impl ManifestCategorize for NotarySignatureV2 {
        open spec fn value_kind_spec() -> super::unit::ManifestValueKind { super::unit::ValueKind::Enum }
        fn value_kind() -> (r: super::unit::ManifestValueKind) { super::unit::ValueKind::Enum }
    }
    /// the raw payload newtypes (`define_raw_transaction_payload!`)
    pub struct RawSignedTransactionIntent(pub Vec<u8>);
    pub struct RawNotarizedTransaction(pub Vec<u8>);
    pub uninterp spec fn raw_as_slice(a: &Vec<u8>) -> &[u8];
    pub broadcast axiom fn ax_raw_as_slice(a: &Vec<u8>) ensures #[trigger] raw_as_slice(a)@ == a@;
    impl AsRef<[u8]> for RawSignedTransactionIntent {
        open spec fn as_ref_spec(&self) -> &[u8] { raw_as_slice(&self.0) }
        #[verifier::external_body]
        fn as_ref(&self) -> (r: &[u8]) { self.0.as_ref() }
    }
    impl AsRef<[u8]> for RawNotarizedTransaction {
        open spec fn as_ref_spec(&self) -> &[u8] { raw_as_slice(&self.0) }
        #[verifier::external_body]
        fn as_ref(&self) -> (r: &[u8]) { self.0.as_ref() }
    }
    /// the three children of a signed V2 intent: ABSTRACT prepared values (any implementation of the trait contract)
    #[derive(Clone, PartialEq, Eq, Debug)]
    pub struct PreparedTransactionIntentV2 { pub summary: super::unit::Summary }
    #[derive(Clone, PartialEq, Eq, Debug)]
    pub struct PreparedIntentSignaturesV2 { pub summary: super::unit::Summary }
    #[derive(Clone, PartialEq, Eq, Debug)]
    pub struct PreparedNonRootSubintentSignaturesV2 { pub summary: super::unit::Summary }
    pub uninterp spec fn abstract_child_rel(s: super::unit::Summary, input: Seq<u8>, start: int, end: int) -> bool;
    impl super::unit::HasSummarySpec for PreparedTransactionIntentV2 {
        open spec fn summary_spec(&self) -> super::unit::Summary { self.summary }
        open spec fn with_summary(self, s: super::unit::Summary) -> Self { PreparedTransactionIntentV2 { summary: s } }
    }
    impl super::unit::HasSummary for PreparedTransactionIntentV2 {
        fn get_summary(&self) -> (r: &super::unit::Summary) { &self.summary }
        fn summary_mut(&mut self) -> (r: &mut super::unit::Summary) { &mut self.summary }
    }
    impl super::unit::ValueSpec for PreparedTransactionIntentV2 {
        open spec fn value_rel(&self, input: Seq<u8>, start: int, end: int) -> bool { abstract_child_rel(self.summary, input, start, end) }
    }
    impl super::unit::TransactionPreparableFromValue for PreparedTransactionIntentV2 {
        #[verifier::external_body]
        fn prepare_from_value(decoder: &mut super::unit::TransactionDecoder) -> (ret: Result<Self, super::unit::PrepareError>) { unimplemented!() }
    }
    impl super::unit::HasSummarySpec for PreparedIntentSignaturesV2 {
        open spec fn summary_spec(&self) -> super::unit::Summary { self.summary }
        open spec fn with_summary(self, s: super::unit::Summary) -> Self { PreparedIntentSignaturesV2 { summary: s } }
    }
    impl super::unit::HasSummary for PreparedIntentSignaturesV2 {
        fn get_summary(&self) -> (r: &super::unit::Summary) { &self.summary }
        fn summary_mut(&mut self) -> (r: &mut super::unit::Summary) { &mut self.summary }
    }
    impl super::unit::ValueSpec for PreparedIntentSignaturesV2 {
        open spec fn value_rel(&self, input: Seq<u8>, start: int, end: int) -> bool { abstract_child_rel(self.summary, input, start, end) }
    }
    impl super::unit::TransactionPreparableFromValue for PreparedIntentSignaturesV2 {
        #[verifier::external_body]
        fn prepare_from_value(decoder: &mut super::unit::TransactionDecoder) -> (ret: Result<Self, super::unit::PrepareError>) { unimplemented!() }
    }
    impl super::unit::HasSummarySpec for PreparedNonRootSubintentSignaturesV2 {
        open spec fn summary_spec(&self) -> super::unit::Summary { self.summary }
        open spec fn with_summary(self, s: super::unit::Summary) -> Self { PreparedNonRootSubintentSignaturesV2 { summary: s } }
    }
    impl super::unit::HasSummary for PreparedNonRootSubintentSignaturesV2 {
        fn get_summary(&self) -> (r: &super::unit::Summary) { &self.summary }
        fn summary_mut(&mut self) -> (r: &mut super::unit::Summary) { &mut self.summary }
    }
    impl super::unit::ValueSpec for PreparedNonRootSubintentSignaturesV2 {
        open spec fn value_rel(&self, input: Seq<u8>, start: int, end: int) -> bool { abstract_child_rel(self.summary, input, start, end) }
    }
    impl super::unit::TransactionPreparableFromValue for PreparedNonRootSubintentSignaturesV2 {
        #[verifier::external_body]
        fn prepare_from_value(decoder: &mut super::unit::TransactionDecoder) -> (ret: Result<Self, super::unit::PrepareError>) { unimplemented!() }
    }

    /// blake2::Blake2b256 (incremental hasher), modelled by the bytes absorbed so far
    #[verifier::external_body]
    pub struct Blake2b256 { _p: () }
    /// `GenericArray<u8, U32>`: output of `finalize`
    pub struct Output32(pub [u8; 32]);
    impl Blake2b256 {
        pub uninterp spec fn absorbed(&self) -> Seq<u8>;
        #[verifier::external_body]
        pub fn chain_update(self, data: &[u8]) -> (r: Self)
            ensures r.absorbed() == self.absorbed() + data@
        { unimplemented!() }
        #[verifier::external_body]
        pub fn update(&mut self, data: &[u8])
            ensures final(self).absorbed() == old(self).absorbed() + data@
        { unimplemented!() }
        #[verifier::external_body]
        pub fn finalize(self) -> (r: Output32)
            ensures r.0@ == spec_hash(self.absorbed())
        { unimplemented!() }
    }
    impl Default for Blake2b256 {
        #[verifier::external_body]
        fn default() -> (r: Self) ensures r.absorbed() == Seq::<u8>::empty() { unimplemented!() }
    }
    impl vstd::std_specs::convert::FromSpecImpl<Output32> for [u8; 32] {
        open spec fn obeys_from_spec() -> bool { true }
        open spec fn from_spec(v: Output32) -> Self { v.0 }
    }
    impl From<Output32> for [u8; 32] {
        fn from(v: Output32) -> (r: Self) ensures r == v.0 { v.0 }
    }
}

pub mod unit {
    use vstd::prelude::*;
    use super::rt::*;
    use super::bytes::{spec_hash, ax_hash_len};
    use super::env::*;
    broadcast use {super::try_from::axiom_question_mark_calls_from, ax_hash_len, ax_arr_as_slice, ax_hash_as_slice, ax_vec_as_slice, ax_raw_as_slice, ax_size_at};

    /*@item radix-common/src/crypto/hash_accumulator.rs :: struct HashAccumulator
    @*/
    impl Default for HashAccumulator {
        fn default() -> (r: Self) ensures r.input() == Seq::<u8>::empty(), r.input_size == 0
        { Self { inner: Blake2b256::default(), input_size: 0 } }
    }

    impl HashAccumulator {
        pub open spec fn input(&self) -> Seq<u8> { self.inner.absorbed() }
        pub open spec fn wf(&self) -> bool { self.input_size == self.input().len() }

        /*@fn radix-common/src/crypto/hash_accumulator.rs :: impl HashAccumulator :: fn new
        @sig
            ensures ret.input() == Seq::<u8>::empty(), ret.wf()
        @*/
        /*@fn radix-common/src/crypto/hash_accumulator.rs :: impl HashAccumulator :: fn concat
        @sig
            requires self.wf(), self.input().len() + data.as_ref_spec()@.len() <= usize::MAX
            ensures ret.wf(), ret.input() == self.input() + data.as_ref_spec()@
        @*/
        /*@fn radix-common/src/crypto/hash_accumulator.rs :: impl HashAccumulator :: fn concat_mut
        @sig
            requires old(self).wf(), old(self).input().len() + data.as_ref_spec()@.len() <= usize::MAX
            ensures final(self).wf(), final(self).input() == old(self).input() + data.as_ref_spec()@
        @*/
        /*@fn radix-common/src/crypto/hash_accumulator.rs :: impl HashAccumulator :: fn input_length
        @sig
            requires self.wf()
            ensures ret == self.input().len()
        @*/
        /*@fn radix-common/src/crypto/hash_accumulator.rs :: impl HashAccumulator :: fn finalize
        @sig
            ensures ret.0@ == spec_hash(self.input())
        @*/
    }
    // =============================================================================================
    // SBOR layer (sbor/src/value_kind.rs, sbor/src/decoder.rs, radix-common manifest custom kinds)
    // =============================================================================================
    /*@item sbor/src/constants.rs :: const CUSTOM_VALUE_KIND_START
    @*/
    /*@item sbor/src/value_kind.rs :: const VALUE_KIND_BOOL
    @*/
    /*@item sbor/src/value_kind.rs :: const VALUE_KIND_I8
    @*/
    /*@item sbor/src/value_kind.rs :: const VALUE_KIND_I16
    @*/
    /*@item sbor/src/value_kind.rs :: const VALUE_KIND_I32
    @*/
    /*@item sbor/src/value_kind.rs :: const VALUE_KIND_I64
    @*/
    /*@item sbor/src/value_kind.rs :: const VALUE_KIND_I128
    @*/
    /*@item sbor/src/value_kind.rs :: const VALUE_KIND_U8
    @*/
    /*@item sbor/src/value_kind.rs :: const VALUE_KIND_U16
    @*/
    /*@item sbor/src/value_kind.rs :: const VALUE_KIND_U32
    @*/
    /*@item sbor/src/value_kind.rs :: const VALUE_KIND_U64
    @*/
    /*@item sbor/src/value_kind.rs :: const VALUE_KIND_U128
    @*/
    /*@item sbor/src/value_kind.rs :: const VALUE_KIND_STRING
    @*/
    /*@item sbor/src/value_kind.rs :: const VALUE_KIND_ARRAY
    @*/
    /*@item sbor/src/value_kind.rs :: const VALUE_KIND_TUPLE
    @*/
    /*@item sbor/src/value_kind.rs :: const VALUE_KIND_ENUM
    @*/
    /*@item sbor/src/value_kind.rs :: const VALUE_KIND_MAP
    @*/
    /*@item sbor/src/value_kind.rs :: enum ValueKind
    @derive Clone, Copy, PartialEq, Eq
    @*/
    /// ASSUMED: the derived `PartialEq` of `ValueKind<X>` is structural equality
    impl<X: CustomValueKind> vstd::std_specs::cmp::PartialEqSpecImpl for ValueKind<X> {
        open spec fn obeys_eq_spec() -> bool { true }
        open spec fn eq_spec(&self, other: &Self) -> bool { *self == *other }
    }

    /// ORACLE (SBOR wire format): the byte that announces a value kind
    pub open spec fn kind_byte<X: CustomValueKind>(k: ValueKind<X>) -> u8 {
        match k {
            ValueKind::Bool => 0x01, ValueKind::I8 => 0x02, ValueKind::I16 => 0x03, ValueKind::I32 => 0x04,
            ValueKind::I64 => 0x05, ValueKind::I128 => 0x06, ValueKind::U8 => 0x07, ValueKind::U16 => 0x08,
            ValueKind::U32 => 0x09, ValueKind::U64 => 0x0a, ValueKind::U128 => 0x0b, ValueKind::String => 0x0c,
            ValueKind::Array => 0x20, ValueKind::Tuple => 0x21, ValueKind::Enum => 0x22, ValueKind::Map => 0x23,
            ValueKind::Custom(x) => x.as_u8_spec(),
        }
    }
    /// ORACLE: the kind announced by a byte (bytes >= 0x80 belong to the custom extension)
    pub open spec fn byte_kind<X: CustomValueKind>(id: u8) -> Option<ValueKind<X>> {
        if id == 0x01 { Some(ValueKind::Bool) } else if id == 0x02 { Some(ValueKind::I8) }
        else if id == 0x03 { Some(ValueKind::I16) } else if id == 0x04 { Some(ValueKind::I32) }
        else if id == 0x05 { Some(ValueKind::I64) } else if id == 0x06 { Some(ValueKind::I128) }
        else if id == 0x07 { Some(ValueKind::U8) } else if id == 0x08 { Some(ValueKind::U16) }
        else if id == 0x09 { Some(ValueKind::U32) } else if id == 0x0a { Some(ValueKind::U64) }
        else if id == 0x0b { Some(ValueKind::U128) } else if id == 0x0c { Some(ValueKind::String) }
        else if id == 0x20 { Some(ValueKind::Array) } else if id == 0x21 { Some(ValueKind::Tuple) }
        else if id == 0x22 { Some(ValueKind::Enum) } else if id == 0x23 { Some(ValueKind::Map) }
        else if id >= 0x80 { match X::from_u8_spec(id) { Some(x) => Some(ValueKind::Custom(x)), None => None } }
        else { None }
    }

    impl<X: CustomValueKind> ValueKind<X> {
        /*@fn sbor/src/value_kind.rs :: impl<X: CustomValueKind> ValueKind<X> :: fn as_u8
        @sig
            ensures ret == kind_byte(*self)
        @*/
        /*@fn sbor/src/value_kind.rs :: impl<X: CustomValueKind> ValueKind<X> :: fn from_u8
        @sig
            ensures ret == byte_kind::<X>(id)
        @subst <<.map(ValueKind::Custom)>> => <<.map(|x: X| -> (r: ValueKind<X>) ensures r == ValueKind::Custom(x) { ValueKind::Custom(x) })>> why: Verus rejects a constructor used as a function value; eta-expanded, same function
        @*/
    }

    /*@item radix-common/src/data/manifest/custom_value_kind.rs :: const MANIFEST_VALUE_KIND_ADDRESS
    @*/
    /*@item radix-common/src/data/manifest/custom_value_kind.rs :: const MANIFEST_VALUE_KIND_BUCKET
    @*/
    /*@item radix-common/src/data/manifest/custom_value_kind.rs :: const MANIFEST_VALUE_KIND_PROOF
    @*/
    /*@item radix-common/src/data/manifest/custom_value_kind.rs :: const MANIFEST_VALUE_KIND_EXPRESSION
    @*/
    /*@item radix-common/src/data/manifest/custom_value_kind.rs :: const MANIFEST_VALUE_KIND_BLOB
    @*/
    /*@item radix-common/src/data/manifest/custom_value_kind.rs :: const MANIFEST_VALUE_KIND_DECIMAL
    @*/
    /*@item radix-common/src/data/manifest/custom_value_kind.rs :: const MANIFEST_VALUE_KIND_PRECISE_DECIMAL
    @*/
    /*@item radix-common/src/data/manifest/custom_value_kind.rs :: const MANIFEST_VALUE_KIND_NON_FUNGIBLE_LOCAL_ID
    @*/
    /*@item radix-common/src/data/manifest/custom_value_kind.rs :: const MANIFEST_VALUE_KIND_ADDRESS_RESERVATION
    @*/
    /*@item radix-common/src/data/manifest/custom_value_kind.rs :: enum ManifestCustomValueKind
    @derive Copy, Clone, PartialEq, Eq
    @*/
    impl CustomValueKind for ManifestCustomValueKind {
        open spec fn as_u8_spec(&self) -> u8 {
            match *self {
                ManifestCustomValueKind::Address => 0x80, ManifestCustomValueKind::Bucket => 0x81,
                ManifestCustomValueKind::Proof => 0x82, ManifestCustomValueKind::Expression => 0x83,
                ManifestCustomValueKind::Blob => 0x84, ManifestCustomValueKind::Decimal => 0x85,
                ManifestCustomValueKind::PreciseDecimal => 0x86, ManifestCustomValueKind::NonFungibleLocalId => 0x87,
                ManifestCustomValueKind::AddressReservation => 0x88,
            }
        }
        open spec fn from_u8_spec(id: u8) -> Option<Self> {
            if id == 0x80 { Some(ManifestCustomValueKind::Address) } else if id == 0x81 { Some(ManifestCustomValueKind::Bucket) }
            else if id == 0x82 { Some(ManifestCustomValueKind::Proof) } else if id == 0x83 { Some(ManifestCustomValueKind::Expression) }
            else if id == 0x84 { Some(ManifestCustomValueKind::Blob) } else if id == 0x85 { Some(ManifestCustomValueKind::Decimal) }
            else if id == 0x86 { Some(ManifestCustomValueKind::PreciseDecimal) } else if id == 0x87 { Some(ManifestCustomValueKind::NonFungibleLocalId) }
            else if id == 0x88 { Some(ManifestCustomValueKind::AddressReservation) } else { None }
        }
        /*@fn radix-common/src/data/manifest/custom_value_kind.rs :: impl CustomValueKind for ManifestCustomValueKind :: fn as_u8
        @*/
        /*@fn radix-common/src/data/manifest/custom_value_kind.rs :: impl CustomValueKind for ManifestCustomValueKind :: fn from_u8
        @*/
    }

    // ---- the decoder ---------------------------------------------------------------------------
    pub trait Decoder<X: CustomValueKind>: DecoderState {
        /*@fn sbor/src/decoder.rs :: trait Decoder<X: CustomValueKind>: Sized :: fn decode
        @sig
            requires wf_dec(old(self).input(), old(self).pos(), old(self).depths())
            ensures ret is Ok ==> final(self).input() == old(self).input() && final(self).depths() == old(self).depths()
                && old(self).pos() < final(self).pos() <= old(self).input().len()
        @*/

        // R12: required method, signature re-declared; the VecDecoder impl below is extracted and must meet it
        fn decode_deeper_body_with_value_kind<T: Decode<X, Self>>(&mut self, value_kind: ValueKind<X>) -> (ret: Result<T, DecodeError>)
            requires wf_dec(old(self).input(), old(self).pos(), old(self).depths())
            ensures ret is Ok ==> final(self).input() == old(self).input() && final(self).depths() == old(self).depths()
                && old(self).pos() <= final(self).pos() <= old(self).input().len();

        /*@fn sbor/src/decoder.rs :: trait Decoder<X: CustomValueKind>: Sized :: fn read_value_kind
        @sig
            requires wf_at(old(self).input(), old(self).pos())
            ensures
                wf_at(final(self).input(), final(self).pos()), final(self).input() == old(self).input(), final(self).depths() == old(self).depths(), final(self).pos() >= old(self).pos(),
                ret is Ok <==> old(self).pos() < old(self).input().len() && byte_kind::<X>(old(self).input()[old(self).pos()]) is Some,
                ret matches Ok(k) ==> Some(k) == byte_kind::<X>(old(self).input()[old(self).pos()]) && final(self).pos() == old(self).pos() + 1,
                ret matches Err(e) ==> e == (if old(self).pos() < old(self).input().len() { DecodeError::UnknownValueKind(old(self).input()[old(self).pos()]) }
                    else { DecodeError::BufferUnderflow { required: 1, remaining: 0 } })
        @*/
        /*@fn sbor/src/decoder.rs :: trait Decoder<X: CustomValueKind>: Sized :: fn read_discriminator
        @sig
            requires wf_at(old(self).input(), old(self).pos())
            ensures
                wf_at(final(self).input(), final(self).pos()), final(self).input() == old(self).input(), final(self).depths() == old(self).depths(), final(self).pos() >= old(self).pos(),
                ret is Ok <==> old(self).pos() < old(self).input().len(),
                ret matches Ok(b) ==> b == old(self).input()[old(self).pos()] && final(self).pos() == old(self).pos() + 1,
                ret matches Err(e) ==> e == (DecodeError::BufferUnderflow { required: 1, remaining: 0 })
        @*/
        /*@fn sbor/src/decoder.rs :: trait Decoder<X: CustomValueKind>: Sized :: fn check_preloaded_value_kind
        @sig
            ensures
                ret is Ok <==> value_kind == expected,
                ret matches Ok(k) ==> k == value_kind,
                ret matches Err(e) ==> e == (DecodeError::UnexpectedValueKind { expected: kind_byte(expected), actual: kind_byte(value_kind) })
        @*/
        /*@fn sbor/src/decoder.rs :: trait Decoder<X: CustomValueKind>: Sized :: fn read_expected_discriminator
        @sig
            requires wf_at(old(self).input(), old(self).pos())
            ensures
                wf_at(final(self).input(), final(self).pos()), final(self).input() == old(self).input(), final(self).depths() == old(self).depths(), final(self).pos() >= old(self).pos(),
                ret is Ok <==> old(self).pos() < old(self).input().len() && old(self).input()[old(self).pos()] == expected_discriminator,
                ret is Ok ==> final(self).pos() == old(self).pos() + 1,
                ret matches Err(e) ==> e == (if old(self).pos() < old(self).input().len() {
                        DecodeError::UnexpectedDiscriminator { expected: expected_discriminator, actual: old(self).input()[old(self).pos()] }
                    } else { DecodeError::BufferUnderflow { required: 1, remaining: 0 } })
        @*/
        /*@fn sbor/src/decoder.rs :: trait Decoder<X: CustomValueKind>: Sized :: fn read_and_check_payload_prefix
        @sig
            requires wf_at(old(self).input(), old(self).pos())
            ensures
                wf_at(final(self).input(), final(self).pos()), final(self).input() == old(self).input(), final(self).depths() == old(self).depths(), final(self).pos() >= old(self).pos(),
                ret is Ok <==> old(self).pos() < old(self).input().len() && old(self).input()[old(self).pos()] == expected_prefix,
                ret is Ok ==> final(self).pos() == old(self).pos() + 1,
                ret matches Err(e) ==> e == (if old(self).pos() < old(self).input().len() {
                        DecodeError::UnexpectedPayloadPrefix { expected: expected_prefix, actual: old(self).input()[old(self).pos()] }
                    } else { DecodeError::BufferUnderflow { required: 1, remaining: 0 } })
        @*/
        /*@fn sbor/src/decoder.rs :: trait Decoder<X: CustomValueKind>: Sized :: fn read_and_check_value_kind
        @sig
            requires wf_at(old(self).input(), old(self).pos())
            ensures
                wf_at(final(self).input(), final(self).pos()), final(self).input() == old(self).input(), final(self).depths() == old(self).depths(), final(self).pos() >= old(self).pos(),
                ret is Ok <==> old(self).pos() < old(self).input().len() && byte_kind::<X>(old(self).input()[old(self).pos()]) == Some(expected),
                ret matches Ok(k) ==> k == expected && final(self).pos() == old(self).pos() + 1,
                ret matches Err(e) ==> e == (if old(self).pos() >= old(self).input().len() { DecodeError::BufferUnderflow { required: 1, remaining: 0 } }
                    else { match byte_kind::<X>(old(self).input()[old(self).pos()]) {
                        None => DecodeError::UnknownValueKind(old(self).input()[old(self).pos()]),
                        Some(k) => DecodeError::UnexpectedValueKind { expected: kind_byte(expected), actual: kind_byte(k) } } })
        @*/
        /*@fn sbor/src/decoder.rs :: trait Decoder<X: CustomValueKind>: Sized :: fn read_and_check_size
        @sig
            requires wf_at(old(self).input(), old(self).pos())
            ensures
                wf_at(final(self).input(), final(self).pos()), final(self).input() == old(self).input(), final(self).depths() == old(self).depths(), final(self).pos() >= old(self).pos(),
                final(self).pos() >= old(self).pos(),
                ret is Ok <==> (size_at(rest_of(old(self).input(), old(self).pos())) matches Some(p) && p.0 == expected),
                ret is Ok ==> final(self).pos() == old(self).pos() + size_at(rest_of(old(self).input(), old(self).pos()))->Some_0.1,
                ret matches Err(e) ==> (match size_at(rest_of(old(self).input(), old(self).pos())) {
                    Some(p) => e == (DecodeError::UnexpectedSize { expected, actual: p.0 }),
                    None => e == DecodeError::InvalidSize || e == (DecodeError::BufferUnderflow { required: 1, remaining: 0 }) })
        @*/

        // R12: required methods
        fn check_end(&self) -> (ret: Result<(), DecodeError>)
            requires wf_at(self.input(), self.pos())
            ensures
                ret is Ok <==> self.pos() == self.input().len(),
                ret matches Err(e) ==> e == DecodeError::ExtraTrailingBytes((self.input().len() - self.pos()) as usize);
        fn read_byte(&mut self) -> (ret: Result<u8, DecodeError>)
            requires wf_at(old(self).input(), old(self).pos())
            ensures
                wf_at(final(self).input(), final(self).pos()), final(self).input() == old(self).input(), final(self).depths() == old(self).depths(), final(self).pos() >= old(self).pos(),
                ret is Ok <==> old(self).pos() < old(self).input().len(),
                ret matches Ok(b) ==> b == old(self).input()[old(self).pos()] && final(self).pos() == old(self).pos() + 1,
                ret matches Err(e) ==> final(self).pos() == old(self).pos() && e == (DecodeError::BufferUnderflow { required: 1, remaining: 0 });
        fn get_offset(&self) -> (ret: usize)
            requires wf_at(self.input(), self.pos())
            ensures ret == self.pos();
    }

    /*@item sbor/src/decoder.rs :: struct VecDecoder
    @*/

    impl<'de, X: CustomValueKind> VecDecoder<'de, X> {
        /*@fn sbor/src/decoder.rs :: impl<'de, X: CustomValueKind> VecDecoder<'de, X> :: fn new
        @sig
            ensures ret.input() == input@, ret.pos() == 0, ret.depths() == (0int, max_depth as int)
        @*/
        /*@fn sbor/src/decoder.rs :: impl<'de, X: CustomValueKind> VecDecoder<'de, X> :: fn get_input_slice
        @sig
            ensures ret@ == self.input()
        @*/
        /*@fn sbor/src/decoder.rs :: impl<'de, X: CustomValueKind> VecDecoder<'de, X> :: fn require_remaining
        @sig
            requires wf_at(self.input(), self.pos())
            ensures
                ret is Ok <==> n <= self.input().len() - self.pos(),
                ret matches Err(e) ==> e == (DecodeError::BufferUnderflow { required: n, remaining: (self.input().len() - self.pos()) as usize })
        @*/
        /*@fn sbor/src/decoder.rs :: impl<'de, X: CustomValueKind> VecDecoder<'de, X> :: fn remaining_bytes
        @sig
            requires wf_at(self.input(), self.pos())
            ensures ret == self.input().len() - self.pos()
        @*/
        /*@fn sbor/src/decoder.rs :: impl<'de, X: CustomValueKind> VecDecoder<'de, X> :: fn track_stack_depth_increase
        @sig
            requires old(self).depths().0 < usize::MAX
            ensures
                final(self).input() == old(self).input(), final(self).pos() == old(self).pos(),
                final(self).depths() == (old(self).depths().0 + 1, old(self).depths().1),
                ret is Ok <==> old(self).depths().0 < old(self).depths().1,
                ret matches Err(e) ==> e == DecodeError::MaxDepthExceeded(old(self).max_depth)
        @*/
        /*@fn sbor/src/decoder.rs :: impl<'de, X: CustomValueKind> VecDecoder<'de, X> :: fn track_stack_depth_decrease
        @sig
            requires old(self).depths().0 >= 1
            ensures
                final(self).input() == old(self).input(), final(self).pos() == old(self).pos(),
                final(self).depths() == (old(self).depths().0 - 1, old(self).depths().1),
                ret is Ok
        @*/
    }

    impl<'de, X: CustomValueKind> Decoder<X> for VecDecoder<'de, X> {
        /*@fn sbor/src/decoder.rs :: impl<'de, X: CustomValueKind> Decoder<X> for VecDecoder<'de, X> :: fn decode_deeper_body_with_value_kind
        @*/
        /*@fn sbor/src/decoder.rs :: impl<'de, X: CustomValueKind> Decoder<X> for VecDecoder<'de, X> :: fn read_byte
        @*/
        /*@fn sbor/src/decoder.rs :: impl<'de, X: CustomValueKind> Decoder<X> for VecDecoder<'de, X> :: fn check_end
        @*/
        /*@fn sbor/src/decoder.rs :: impl<'de, X: CustomValueKind> Decoder<X> for VecDecoder<'de, X> :: fn get_offset
        @*/
    }

    /*@item radix-common/src/data/manifest/definitions.rs :: type ManifestValueKind
    @*/
    /*@item radix-common/src/data/manifest/definitions.rs :: type ManifestDecoder
    @*/

    /// radix-common/src/data/manifest/definitions.rs :: trait ManifestDecode (marker over the assumed `Decode` frame)
    pub trait ManifestDecode: for<'a> Decode<ManifestCustomValueKind, ManifestDecoder<'a>> {}

    // =============================================================================================
    // radix-transactions/src/model/preparation/decoder.rs
    // =============================================================================================
    /*@item radix-common/src/constants/sbor_payload.rs :: const MANIFEST_SBOR_V1_PAYLOAD_PREFIX
    @*/
    /*@item radix-common/src/constants/sbor_payload.rs :: const TRANSACTION_HASHABLE_PAYLOAD_PREFIX
    @*/
    /*@item radix-common/src/constants/sbor_payload.rs :: const MANIFEST_SBOR_V1_MAX_DEPTH
    @*/
    /*@item radix-transactions/src/model/preparation/decoder.rs :: enum ValueType
    @derive Clone, PartialEq, Eq
    @*/
    /*@item radix-transactions/src/model/preparation/decoder.rs :: enum PrepareError
    @derive Clone, PartialEq, Eq
    @*/
    impl vstd::std_specs::convert::FromSpecImpl<DecodeError> for PrepareError {
        open spec fn obeys_from_spec() -> bool { true }
        open spec fn from_spec(v: DecodeError) -> Self { PrepareError::DecodeError(v) }
    }
    impl From<DecodeError> for PrepareError {
        /*@fn radix-transactions/src/model/preparation/decoder.rs :: impl From<DecodeError> for PrepareError :: fn from
        @sig
            ensures ret == PrepareError::DecodeError(value)
        @*/
    }
    impl vstd::std_specs::convert::FromSpecImpl<EncodeError> for PrepareError {
        open spec fn obeys_from_spec() -> bool { true }
        open spec fn from_spec(v: EncodeError) -> Self { PrepareError::EncodeError(v) }
    }
    impl From<EncodeError> for PrepareError {
        /*@fn radix-transactions/src/model/preparation/decoder.rs :: impl From<EncodeError> for PrepareError :: fn from
        @sig
            ensures ret == PrepareError::EncodeError(value)
        @*/
    }
    /*@item radix-transactions/src/model/preparation/decoder.rs :: type PreparationSettings
    @*/
    /*@item radix-transactions/src/model/preparation/decoder.rs :: struct PreparationSettingsV1
    @derive Clone, Copy, PartialEq, Eq
    @*/
    /*@item radix-transactions/src/model/preparation/traits.rs :: enum TransactionPayloadKind
    @derive Copy, Clone
    @*/
    /*@item radix-transactions/src/model/preparation/summarized_composite.rs :: enum ExpectedHeaderKind
    @*/
    /*@item radix-transactions/src/model/preparation/summarized_composite.rs :: enum ExpectedTupleHeader
    @*/

    /// ORACLE (documented limits): the maximal accepted payload length of each payload kind
    pub open spec fn len_limit(s: PreparationSettings, kind: TransactionPayloadKind) -> Option<usize> {
        match kind {
            TransactionPayloadKind::CompleteUserTransaction => Some(s.max_user_payload_length),
            TransactionPayloadKind::LedgerTransaction => Some(s.max_ledger_payload_length),
            TransactionPayloadKind::Other => None,
        }
    }
    pub open spec fn len_ok(s: PreparationSettings, kind: TransactionPayloadKind, len: usize) -> bool {
        len_limit(s, kind) matches Some(m) ==> len <= m
    }

    impl PreparationSettings {
        /*@fn radix-transactions/src/model/preparation/decoder.rs :: impl PreparationSettings :: fn latest
        @sig
            ensures ret == (PreparationSettingsV1 { v2_transactions_permitted: true, max_user_payload_length: 1048576, max_ledger_payload_length: 1048586,
                max_child_subintents_per_intent: 32, max_subintents_per_transaction: 32, max_blobs: 64 })
        @*/
        /*@fn radix-transactions/src/model/preparation/decoder.rs :: impl PreparationSettings :: fn babylon
        @sig
            ensures ret == (PreparationSettingsV1 { v2_transactions_permitted: false, max_user_payload_length: 1048576, max_ledger_payload_length: 1048586,
                max_child_subintents_per_intent: 0, max_subintents_per_transaction: 0, max_blobs: 64 })
        @*/
        /*@fn radix-transactions/src/model/preparation/decoder.rs :: impl PreparationSettings :: fn cuttlefish
        @sig
            ensures ret == (PreparationSettingsV1 { v2_transactions_permitted: true, max_user_payload_length: 1048576, max_ledger_payload_length: 1048586,
                max_child_subintents_per_intent: 32, max_subintents_per_transaction: 32, max_blobs: 64 })
        @*/
        /*@fn radix-transactions/src/model/preparation/decoder.rs :: impl PreparationSettings :: fn check_len
        @sig
            ensures
                ret is Ok <==> len_ok(*self, kind, payload_len),
                ret matches Err(e) ==> e == PrepareError::TransactionTooLarge
        @*/
    }

    impl ExpectedHeaderKind {
        pub open spec fn with_disc_spec(self, discriminator: u8) -> ExpectedTupleHeader {
            match self {
                ExpectedHeaderKind::EnumNoValueKind => ExpectedTupleHeader::EnumNoValueKind { discriminator },
                ExpectedHeaderKind::EnumWithValueKind => ExpectedTupleHeader::EnumWithValueKind { discriminator },
                ExpectedHeaderKind::TupleNoValueKind => ExpectedTupleHeader::TupleNoValueKind,
                ExpectedHeaderKind::TupleWithValueKind => ExpectedTupleHeader::TupleWithValueKind,
            }
        }
        /*@fn radix-transactions/src/model/preparation/summarized_composite.rs :: impl ExpectedHeaderKind :: fn with_discriminator
        @sig
            ensures ret == (match self {
                ExpectedHeaderKind::EnumNoValueKind => ExpectedTupleHeader::EnumNoValueKind { discriminator },
                ExpectedHeaderKind::EnumWithValueKind => ExpectedTupleHeader::EnumWithValueKind { discriminator },
                ExpectedHeaderKind::TupleNoValueKind => ExpectedTupleHeader::TupleNoValueKind,
                ExpectedHeaderKind::TupleWithValueKind => ExpectedTupleHeader::TupleWithValueKind })
        @*/
    }

    /*@item radix-transactions/src/model/preparation/decoder.rs :: struct TransactionDecoder
    @*/

    /// `a` is a prefix of `b`
    pub open spec fn is_prefix(a: Seq<u8>, b: Seq<u8>) -> bool {
        a.len() <= b.len() && forall|j: int| 0 <= j < a.len() ==> a[j] == b[j]
    }
    /// ORACLE (canonical form of a composite header): the fixed bytes that must precede the field count
    pub open spec fn header_bytes(header: ExpectedTupleHeader) -> Seq<u8> {
        match header {
            ExpectedTupleHeader::EnumNoValueKind { discriminator } => seq![discriminator],
            ExpectedTupleHeader::EnumWithValueKind { discriminator } => seq![0x22u8, discriminator],
            ExpectedTupleHeader::TupleWithValueKind => seq![0x21u8],
            ExpectedTupleHeader::TupleNoValueKind => Seq::<u8>::empty(),
        }
    }
    /// the header is accepted exactly when the fixed bytes match and the LEB128 field count equals `n`
    pub open spec fn header_ok(rest: Seq<u8>, header: ExpectedTupleHeader, n: usize) -> bool {
        &&& is_prefix(header_bytes(header), rest)
        &&& size_at(rest.subrange(header_bytes(header).len() as int, rest.len() as int)) matches Some(p) && p.0 == n
    }
    pub open spec fn header_len(rest: Seq<u8>, header: ExpectedTupleHeader) -> int {
        header_bytes(header).len() + size_at(rest.subrange(header_bytes(header).len() as int, rest.len() as int))->Some_0.1
    }
    /// documented errors of a non-canonical header (the first offending byte decides)
    pub open spec fn header_err(rest: Seq<u8>, header: ExpectedTupleHeader, n: usize, e: DecodeError) -> bool {
        let hb = header_bytes(header);
        let kind_pos_bad = (header is EnumWithValueKind || header is TupleWithValueKind) && (rest.len() == 0 || rest[0] != hb[0]);
        let disc_idx: int = if header is EnumWithValueKind { 1 } else { 0 };
        if rest.len() < hb.len() && is_prefix(rest, hb) {
            e == (DecodeError::BufferUnderflow { required: 1, remaining: 0 })
        } else if kind_pos_bad {
            match byte_kind::<ManifestCustomValueKind>(rest[0]) {
                None => e == DecodeError::UnknownValueKind(rest[0]),
                Some(k) => e == (DecodeError::UnexpectedValueKind { expected: hb[0], actual: rest[0] }),
            }
        } else if (header is EnumWithValueKind || header is EnumNoValueKind) && rest[disc_idx] != hb[disc_idx] {
            e == (DecodeError::UnexpectedDiscriminator { expected: hb[disc_idx], actual: rest[disc_idx] })
        } else {
            match size_at(rest.subrange(hb.len() as int, rest.len() as int)) {
                Some(p) => e == (DecodeError::UnexpectedSize { expected: n, actual: p.0 }),
                None => e == DecodeError::InvalidSize || e == (DecodeError::BufferUnderflow { required: 1, remaining: 0 }),
            }
        }
    }


    /// the unread bytes after skipping k of them
    pub proof fn lemma_rest_shift(input: Seq<u8>, pos: int, k: int)
        requires 0 <= pos, 0 <= k, pos + k <= input.len()
        ensures
            rest_of(input, pos).subrange(k, rest_of(input, pos).len() as int) == rest_of(input, pos + k),
            rest_of(input, pos).len() == input.len() - pos,
            forall|j: int| 0 <= j < input.len() - pos ==> rest_of(input, pos)[j] == input[pos + j],
    {
        assert(rest_of(input, pos).subrange(k, rest_of(input, pos).len() as int) =~= rest_of(input, pos + k));
    }

    /// ORACLE (canonical form of an array header): [0x20 if the kind byte is present] element-kind byte, LEB128 count
    pub open spec fn array_header_shape(rest: Seq<u8>, read_value_kind: bool, elem: ManifestValueKind) -> bool {
        let k: int = if read_value_kind { 1 } else { 0 };
        &&& rest.len() >= k + 1
        &&& (read_value_kind ==> rest[0] == 0x20)
        &&& rest[k] == kind_byte(elem)
        &&& size_at(rest.subrange(k + 1, rest.len() as int)) is Some
    }
    pub open spec fn array_header_ok(rest: Seq<u8>, read_value_kind: bool, elem: ManifestValueKind, n: int) -> bool {
        let k: int = if read_value_kind { 1 } else { 0 };
        array_header_shape(rest, read_value_kind, elem) && size_at(rest.subrange(k + 1, rest.len() as int))->Some_0.0 == n
    }
    pub open spec fn array_header_len(rest: Seq<u8>, read_value_kind: bool) -> int {
        let k: int = if read_value_kind { 1 } else { 0 };
        k + 1 + size_at(rest.subrange(k + 1, rest.len() as int))->Some_0.1
    }

    impl<'a> TransactionDecoder<'a> {
        pub open spec fn input(&self) -> Seq<u8> { self.decoder.input() }
        pub open spec fn pos(&self) -> int { self.decoder.pos() }
        pub open spec fn depths(&self) -> (int, int) { self.decoder.depths() }
        pub open spec fn rest(&self) -> Seq<u8> { rest_of(self.input(), self.pos()) }
        pub open spec fn wf(&self) -> bool { wf_dec(self.input(), self.pos(), self.depths()) }
        /// everything but the read position is unchanged
        pub open spec fn same_stream(&self, o: &Self) -> bool {
            self.input() == o.input() && self.depths() == o.depths() && self.settings == o.settings
        }

        /*@fn radix-transactions/src/model/preparation/decoder.rs :: impl<'a> TransactionDecoder<'a> :: fn new_transaction
        @sig
            ensures
                ret is Ok <==> len_ok(*settings, kind, payload@.len() as usize) && payload@.len() >= 1 && payload@[0] == 0x4d,
                ret matches Ok(d) ==> d.wf() && d.input() == payload@ && d.pos() == 1 && d.depths() == (0int, 24int) && *d.settings == *settings,
                ret matches Err(e) ==> e == (
                    if !len_ok(*settings, kind, payload@.len() as usize) { PrepareError::TransactionTooLarge }
                    else if payload@.len() == 0 { PrepareError::DecodeError(DecodeError::BufferUnderflow { required: 1, remaining: 0 }) }
                    else { PrepareError::DecodeError(DecodeError::UnexpectedPayloadPrefix { expected: 0x4d, actual: payload@[0] }) })
        @*/
        /*@fn radix-transactions/src/model/preparation/decoder.rs :: impl<'a> TransactionDecoder<'a> :: fn new_partial
        @sig
            ensures
                ret is Ok <==> payload@.len() >= 1 && payload@[0] == 0x4d,
                ret matches Ok(d) ==> d.wf() && d.input() == payload@ && d.pos() == 1 && d.depths() == (0int, 24int) && *d.settings == *settings,
                ret matches Err(e) ==> e == (
                    if payload@.len() == 0 { PrepareError::DecodeError(DecodeError::BufferUnderflow { required: 1, remaining: 0 }) }
                    else { PrepareError::DecodeError(DecodeError::UnexpectedPayloadPrefix { expected: 0x4d, actual: payload@[0] }) })
        @*/
        /*@fn radix-transactions/src/model/preparation/decoder.rs :: impl<'a> TransactionDecoder<'a> :: fn settings
        @sig
            ensures *ret == *self.settings
        @*/
        /*@fn radix-transactions/src/model/preparation/decoder.rs :: impl<'a> TransactionDecoder<'a> :: fn track_stack_depth_increase
        @sig
            requires old(self).wf()
            ensures
                final(self).input() == old(self).input(), final(self).pos() == old(self).pos(), final(self).settings == old(self).settings,
                final(self).depths() == (old(self).depths().0 + 1, old(self).depths().1),
                ret is Ok <==> old(self).depths().0 < old(self).depths().1,
                ret is Ok ==> final(self).wf(),
                ret matches Err(e) ==> e == PrepareError::DecodeError(DecodeError::MaxDepthExceeded(old(self).depths().1 as usize))
        @*/
        /*@fn radix-transactions/src/model/preparation/decoder.rs :: impl<'a> TransactionDecoder<'a> :: fn read_header
        @sig
            requires old(self).wf()
            ensures
                final(self).same_stream(old(self)), wf_at(final(self).input(), final(self).pos()), final(self).pos() >= old(self).pos(),
                ret is Ok <==> header_ok(old(self).rest(), header, expected_length),
                ret is Ok ==> final(self).pos() == old(self).pos() + header_len(old(self).rest(), header),
                ret matches Err(e) ==> e matches PrepareError::DecodeError(d) && header_err(old(self).rest(), header, expected_length, d)
        @entry
            let ghost inp = self.input(); let ghost p0 = self.pos();
            proof { lemma_rest_shift(inp, p0, 0); if p0 + 1 <= inp.len() { lemma_rest_shift(inp, p0, 1); lemma_rest_shift(inp, p0 + 1, 0); } if p0 + 2 <= inp.len() { lemma_rest_shift(inp, p0, 2); lemma_rest_shift(inp, p0 + 1, 1); }
                let hb = header_bytes(header); let r = rest_of(inp, p0);
                if is_prefix(hb, r) && hb.len() >= 1 { assert(hb[0] == r[0]); }
                if is_prefix(hb, r) && hb.len() >= 2 { assert(hb[1] == r[1]); } }
        @*/
        /*@fn radix-transactions/src/model/preparation/decoder.rs :: impl<'a> TransactionDecoder<'a> :: fn read_enum_header
        @sig
            requires old(self).wf()
            ensures
                final(self).same_stream(old(self)), wf_at(final(self).input(), final(self).pos()), final(self).pos() >= old(self).pos(),
                ret matches Ok(p) ==> old(self).rest().len() >= 2 && old(self).rest()[0] == 0x22 && p.0 == old(self).rest()[1]
                    && size_at(old(self).rest().subrange(2, old(self).rest().len() as int)) == Some((p.1, final(self).pos() - old(self).pos() - 2)),
                ret matches Err(e) ==> e is DecodeError
        @entry
            let ghost inp = self.input(); let ghost p0 = self.pos();
            proof { lemma_rest_shift(inp, p0, 0); if p0 + 1 <= inp.len() { lemma_rest_shift(inp, p0, 1); lemma_rest_shift(inp, p0 + 1, 0); } if p0 + 2 <= inp.len() { lemma_rest_shift(inp, p0, 2); lemma_rest_shift(inp, p0 + 1, 1); } }
        @*/
        /*@fn radix-transactions/src/model/preparation/decoder.rs :: impl<'a> TransactionDecoder<'a> :: fn read_array_header
        @sig
            requires old(self).wf()
            ensures
                final(self).same_stream(old(self)), wf_at(final(self).input(), final(self).pos()), final(self).pos() >= old(self).pos(),
                ret is Ok <==> array_header_shape(old(self).rest(), true, element_value_kind),
                ret matches Ok(n) ==> n <= 0x0FFF_FFFF && array_header_ok(old(self).rest(), true, element_value_kind, n as int)
                    && final(self).pos() == old(self).pos() + array_header_len(old(self).rest(), true),
                ret matches Err(e) ==> e is DecodeError
        @entry
            let ghost inp = self.input(); let ghost p0 = self.pos();
            proof { lemma_rest_shift(inp, p0, 0); if p0 + 1 <= inp.len() { lemma_rest_shift(inp, p0, 1); lemma_rest_shift(inp, p0 + 1, 0); } if p0 + 2 <= inp.len() { lemma_rest_shift(inp, p0, 2); lemma_rest_shift(inp, p0 + 1, 1); } }
        @*/
        /*@fn radix-transactions/src/model/preparation/decoder.rs :: impl<'a> TransactionDecoder<'a> :: fn read_array_header_without_value_kind
        @sig
            requires old(self).wf()
            ensures
                final(self).same_stream(old(self)), wf_at(final(self).input(), final(self).pos()), final(self).pos() >= old(self).pos(),
                ret is Ok <==> array_header_shape(old(self).rest(), false, element_value_kind),
                ret matches Ok(n) ==> n <= 0x0FFF_FFFF && array_header_ok(old(self).rest(), false, element_value_kind, n as int)
                    && final(self).pos() == old(self).pos() + array_header_len(old(self).rest(), false),
                ret matches Err(e) ==> e is DecodeError
        @entry
            let ghost inp = self.input(); let ghost p0 = self.pos();
            proof { lemma_rest_shift(inp, p0, 0); if p0 + 1 <= inp.len() { lemma_rest_shift(inp, p0, 1); lemma_rest_shift(inp, p0 + 1, 0); } if p0 + 2 <= inp.len() { lemma_rest_shift(inp, p0, 2); lemma_rest_shift(inp, p0 + 1, 1); } }
        @*/
        /*@fn radix-transactions/src/model/preparation/decoder.rs :: impl<'a> TransactionDecoder<'a> :: fn read_and_check_value_kind
        @sig
            requires old(self).wf()
            ensures
                final(self).same_stream(old(self)), wf_at(final(self).input(), final(self).pos()),
                ret is Ok <==> old(self).rest().len() >= 1 && old(self).rest()[0] == kind_byte(value_kind),
                ret is Ok ==> final(self).pos() == old(self).pos() + 1,
                ret matches Err(e) ==> final(self).pos() >= old(self).pos() && e == PrepareError::DecodeError(
                    if old(self).rest().len() == 0 { DecodeError::BufferUnderflow { required: 1, remaining: 0 } }
                    else if byte_kind::<ManifestCustomValueKind>(old(self).rest()[0]) is None { DecodeError::UnknownValueKind(old(self).rest()[0]) }
                    else { DecodeError::UnexpectedValueKind { expected: kind_byte(value_kind), actual: old(self).rest()[0] } })
        @entry
            proof { if self.pos() < self.input().len() { lemma_manifest_kind_bijection(value_kind, self.input()[self.pos()]);
                let bk = byte_kind::<ManifestCustomValueKind>(self.input()[self.pos()]); if bk is Some { lemma_manifest_kind_bijection(bk->Some_0, self.input()[self.pos()]); } } }
        @*/
        /*@fn radix-transactions/src/model/preparation/decoder.rs :: impl<'a> TransactionDecoder<'a> :: fn track_stack_depth_decrease
        @sig
            requires old(self).depths().0 >= 1
            ensures
                final(self).input() == old(self).input(), final(self).pos() == old(self).pos(), final(self).settings == old(self).settings,
                final(self).depths() == (old(self).depths().0 - 1, old(self).depths().1),
                ret is Ok
        @*/
        /*@fn radix-transactions/src/model/preparation/decoder.rs :: impl<'a> TransactionDecoder<'a> :: fn decode
        @sig
            requires old(self).wf()
            ensures
                ret is Ok ==> final(self).same_stream(old(self)) && final(self).wf() && old(self).pos() < final(self).pos(),
                ret matches Err(e) ==> e is DecodeError
        @*/
        /*@fn radix-transactions/src/model/preparation/decoder.rs :: impl<'a> TransactionDecoder<'a> :: fn decode_deeper_body_with_value_kind
        @sig
            requires old(self).wf()
            ensures
                ret is Ok ==> final(self).same_stream(old(self)) && final(self).wf() && old(self).pos() <= final(self).pos(),
                ret matches Err(e) ==> e is DecodeError
        @*/
        /*@fn radix-transactions/src/model/preparation/decoder.rs :: impl<'a> TransactionDecoder<'a> :: fn get_offset
        @sig
            requires self.wf()
            ensures ret == self.pos()
        @*/
        /*@fn radix-transactions/src/model/preparation/decoder.rs :: impl<'a> TransactionDecoder<'a> :: fn get_slice_with_valid_bounds
        @sig
            requires start_offset <= end_offset <= self.input().len()
            ensures ret@ == self.input().subrange(start_offset as int, end_offset as int)
        @*/
        /*@fn radix-transactions/src/model/preparation/decoder.rs :: impl<'a> TransactionDecoder<'a> :: fn get_input_slice
        @sig
            ensures ret@ == self.input()
        @*/
        /*@fn radix-transactions/src/model/preparation/decoder.rs :: impl<'a> TransactionDecoder<'a> :: fn check_complete
        @sig
            requires self.wf()
            ensures
                // canonical form: accepted exactly when every byte of the payload was consumed
                ret is Ok <==> self.pos() == self.input().len(),
                ret matches Err(e) ==> e == PrepareError::DecodeError(DecodeError::ExtraTrailingBytes((self.input().len() - self.pos()) as usize))
        @*/
    }

    /*@fn radix-common/src/crypto/blake2b.rs :: fn blake2b_256_hash
    @sig
        ensures ret.0@ == spec_hash(data.as_ref_spec()@)
    @*/
    /*@fn radix-common/src/crypto/hash.rs :: fn hash
    @sig
        ensures ret.0@ == spec_hash(data.as_ref_spec()@)
    @*/

    // =============================================================================================
    // ORACLE of C32: what a composite digest commits to
    // =============================================================================================
    /// the byte string hashed for a composite: `prefix ++ h_1 ++ ... ++ h_n` (children in declaration order,
    /// each exactly once)
    pub open spec fn digest_input(prefix: Seq<u8>, hashes: Seq<Hash>) -> Seq<u8>
        decreases hashes.len()
    {
        if hashes.len() == 0 { prefix } else { digest_input(prefix, hashes.drop_last()) + hashes.last().0@ }
    }
    /// EXPLICIT HYPOTHESIS (never an axiom, never global): the two GIVEN byte strings are not a hash collision.
    /// A global "spec_hash is injective" would contradict the fixed 32-byte output (pigeonhole) and make every lemma
    /// vacuous, so each lemma names exactly the pair(s) of preimages whose non-collision it relies on: read
    /// "equal identifiers ==> equal contents, OR these two concrete preimages are a Blake2b-256 collision".
    pub open spec fn no_collision(a: Seq<u8>, b: Seq<u8>) -> bool { spec_hash(a) == spec_hash(b) ==> a == b }
    /// the preimage prefix of every transaction payload hash: 'T', discriminator
    pub open spec fn payload_prefix(discriminator: u8) -> Seq<u8> { seq![0x54u8, discriminator] }

    pub proof fn lemma_digest_push(prefix: Seq<u8>, hashes: Seq<Hash>, h: Hash)
        ensures digest_input(prefix, hashes.push(h)) == digest_input(prefix, hashes) + h.0@
    {
        assert(hashes.push(h).drop_last() =~= hashes);
    }
    pub proof fn lemma_digest_len(prefix: Seq<u8>, hashes: Seq<Hash>)
        ensures digest_input(prefix, hashes).len() == prefix.len() + 32 * hashes.len()
        decreases hashes.len()
    {
        if hashes.len() > 0 { lemma_digest_len(prefix, hashes.drop_last()); }
    }
    /// NO hash assumption: the concatenation itself is injective in (prefix of a fixed length, child sequence)
    pub proof fn lemma_digest_input_injective(p1: Seq<u8>, h1: Seq<Hash>, p2: Seq<u8>, h2: Seq<Hash>)
        requires p1.len() == p2.len(), digest_input(p1, h1) == digest_input(p2, h2)
        ensures p1 == p2, h1 == h2
        decreases h1.len()
    {
        lemma_digest_len(p1, h1); lemma_digest_len(p2, h2);
        assert(h1.len() == h2.len());
        if h1.len() > 0 {
            let a = digest_input(p1, h1.drop_last()); let b = digest_input(p2, h2.drop_last());
            lemma_digest_len(p1, h1.drop_last()); lemma_digest_len(p2, h2.drop_last());
            let x = h1.last().0@; let y = h2.last().0@;
            assert((a + x).subrange(0, a.len() as int) =~= a);
            assert((b + y).subrange(0, b.len() as int) =~= b);
            assert((a + x).subrange(a.len() as int, a.len() as int + 32) =~= x);
            assert((b + y).subrange(b.len() as int, b.len() as int + 32) =~= y);
            assert(a == b);
            assert(x == y);
            assert(h1.last().0 =~= h2.last().0);
            lemma_digest_input_injective(p1, h1.drop_last(), p2, h2.drop_last());
            assert(h1 =~= h1.drop_last().push(h1.last()));
            assert(h2 =~= h2.drop_last().push(h2.last()));
        } else {
            assert(h1 =~= h2);
        }
    }
    /// C32 "changing any field of a hashed part changes the corresponding hash", composite level:
    /// barring a collision of the two preimages, equal digests (same prefix length) have the same prefix and the same children.
    pub proof fn lemma_digest_commits(p1: Seq<u8>, h1: Seq<Hash>, p2: Seq<u8>, h2: Seq<Hash>)
        requires no_collision(digest_input(p1, h1), digest_input(p2, h2)), p1.len() == p2.len(),
            spec_hash(digest_input(p1, h1)) == spec_hash(digest_input(p2, h2))
        ensures p1 == p2, h1 == h2
    {
        lemma_digest_input_injective(p1, h1, p2, h2);
    }
    /// contrapositive, the way the property states it: one changed child => changed digest
    pub proof fn lemma_changed_child_changes_digest(p: Seq<u8>, h1: Seq<Hash>, h2: Seq<Hash>, i: int)
        requires no_collision(digest_input(p, h1), digest_input(p, h2)), h1.len() == h2.len(), 0 <= i < h1.len(), h1[i] != h2[i]
        ensures spec_hash(digest_input(p, h1)) != spec_hash(digest_input(p, h2))
    {
        if spec_hash(digest_input(p, h1)) == spec_hash(digest_input(p, h2)) { lemma_digest_commits(p, h1, p, h2); }
    }
    /// dropping / adding a child changes the digest as well
    pub proof fn lemma_child_count_changes_digest(p: Seq<u8>, h1: Seq<Hash>, h2: Seq<Hash>)
        requires no_collision(digest_input(p, h1), digest_input(p, h2)), h1.len() != h2.len()
        ensures spec_hash(digest_input(p, h1)) != spec_hash(digest_input(p, h2))
    {
        if spec_hash(digest_input(p, h1)) == spec_hash(digest_input(p, h2)) { lemma_digest_commits(p, h1, p, h2); }
    }
    /// DOMAIN SEPARATION of payload kinds: an intent hash, a signed-intent hash, a notarized hash ... of any
    /// contents never coincide when the discriminators differ
    pub proof fn lemma_discriminator_separates(d1: u8, h1: Seq<Hash>, d2: u8, h2: Seq<Hash>)
        requires no_collision(digest_input(payload_prefix(d1), h1), digest_input(payload_prefix(d2), h2)),
            spec_hash(digest_input(payload_prefix(d1), h1)) == spec_hash(digest_input(payload_prefix(d2), h2))
        ensures d1 == d2, h1 == h2
    {
        lemma_digest_commits(payload_prefix(d1), h1, payload_prefix(d2), h2);
        assert(payload_prefix(d1)[1] == d1 && payload_prefix(d2)[1] == d2);
    }
    /// leaf level: a raw value's hash commits to every byte of its encoding
    pub proof fn lemma_raw_commits(a: Seq<u8>, b: Seq<u8>)
        requires no_collision(a, b), spec_hash(a) == spec_hash(b)
        ensures a == b
    {}

    // =============================================================================================
    // radix-transactions/src/model/preparation/{summary.rs, traits.rs, summarized_composite.rs}
    // =============================================================================================
    /*@item radix-transactions/src/model/preparation/summary.rs :: struct Summary
    @derive Debug, Clone, Eq, PartialEq
    @*/

    /// spec companion of `HasSummary` (R12: the real trait has no supertrait; the companion only carries the ghost
    /// view that the contracts below are phrased in, so that macro-generated impls can be checked against them)
    pub trait HasSummarySpec: Sized {
        spec fn summary_spec(&self) -> Summary;
        spec fn with_summary(self, s: Summary) -> Self;
    }
    pub trait HasSummary: HasSummarySpec {
        fn get_summary(&self) -> (r: &Summary)
            ensures *r == self.summary_spec();
        fn summary_mut(&mut self) -> (r: &mut Summary)
            ensures *r == old(self).summary_spec(), *final(self) == (*old(self)).with_summary(*final(r)), final(self).summary_spec() == *final(r);
    }

    /// frame of every `prepare_*` on success: same input, depth and settings; read position only moves forward
    pub open spec fn prepared_frame(d0: &TransactionDecoder, d1: &TransactionDecoder) -> bool {
        d1.wf() && d1.same_stream(d0) && d0.pos() <= d1.pos()
    }

    /// spec companion of `TransactionPreparableFromValue`: the type-specific guarantee of a successful prepare of
    /// the full value found at input[start..end]
    pub trait ValueSpec: Sized {
        spec fn value_rel(&self, input: Seq<u8>, start: int, end: int) -> bool;
    }
    pub trait TransactionPreparableFromValue: HasSummary + ValueSpec + Sized {
        fn prepare_from_value(decoder: &mut TransactionDecoder) -> (ret: Result<Self, PrepareError>)
            requires old(decoder).wf()
            ensures ret matches Ok(v) ==> prepared_frame(old(decoder), final(decoder))
                && v.value_rel(old(decoder).input(), old(decoder).pos(), final(decoder).pos());
    }

    /// spec companion of `TransactionPreparableFromValueBody` (value of the associated constant, announced kind)
    pub trait ValueBodySpec: HasSummarySpec + Sized {
        spec fn value_kind_spec() -> ManifestValueKind;
        /// the type-specific guarantee of a successful prepare of the value BODY found at input[start..end]
        spec fn body_rel(&self, input: Seq<u8>, start: int, end: int) -> bool;
        /// ... which never constrains the effective length
        proof fn body_rel_frame(&self, s: Summary, input: Seq<u8>, start: int, end: int)
            requires self.body_rel(input, start, end), s.hash == self.summary_spec().hash, s.total_bytes_hashed == self.summary_spec().total_bytes_hashed
            ensures self.with_summary(s).body_rel(input, start, end);
    }
    pub trait TransactionPreparableFromValueBody: HasSummary + ValueBodySpec + Sized {
        const ADDITIONAL_SUMMARY_LENGTH_AS_VALUE: usize = 1usize;
        fn prepare_from_value_body(decoder: &mut TransactionDecoder) -> (ret: Result<Self, PrepareError>)
            requires old(decoder).wf()
            ensures ret matches Ok(v) ==> prepared_frame(old(decoder), final(decoder))
                && v.body_rel(old(decoder).input(), old(decoder).pos(), final(decoder).pos());
        fn value_kind() -> (ret: ManifestValueKind)
            ensures ret == Self::value_kind_spec();
    }

    /// ORACLE for the blanket impl: reading a full value = the announced value-kind byte, then the body; the
    /// hash (and the hashed-byte count) are the body's -- only the effective length grows by the constant
    impl<T: TransactionPreparableFromValueBody> ValueSpec for T {
        open spec fn value_rel(&self, input: Seq<u8>, start: int, end: int) -> bool {
            0 <= start < end <= input.len() && input[start] == kind_byte(T::value_kind_spec()) && self.body_rel(input, start + 1, end)
        }
    }
    impl<T: TransactionPreparableFromValueBody> TransactionPreparableFromValue for T {
        /*@fn radix-transactions/src/model/preparation/traits.rs :: impl<T: TransactionPreparableFromValueBody> TransactionPreparableFromValue for T :: fn prepare_from_value
        @sig
            ensures
                (old(decoder).rest().len() == 0 || old(decoder).rest()[0] != kind_byte(T::value_kind_spec())) ==> ret is Err
        @entry
            let ghost inp = decoder.input(); let ghost p0 = decoder.pos();
            proof { lemma_rest_shift(inp, p0, 0); }
        @after <<let mut prepared>> #1
            let ghost body = prepared; let ghost p1 = decoder.pos();
        @before <<Ok(prepared)>> #1
            proof { body.body_rel_frame(prepared.summary_spec(), inp, p0 + 1, p1); }
        @*/
    }

    // ---- composites: tuples -------------------------------------------------------------------------
    /// spec companion of `TuplePreparable`, written out per arity below (ORACLE: children in declaration order,
    /// every child exactly once)
    pub trait TupleSpec: Sized {
        spec fn arity() -> usize;
        spec fn child_hashes(&self) -> Seq<Hash>;
        /// `prefix ++ h_0 ++ ... ++ h_{n-1}` written out (== digest_input(prefix, child_hashes()), see lemmas)
        spec fn preimage(&self, prefix: Seq<u8>) -> Seq<u8>;
        spec fn eff_sum(&self) -> int;
        spec fn hashed_sum(&self) -> int;
        /// the children were prepared from consecutive, gap-free byte ranges of input[start..end]
        spec fn children_rel(&self, input: Seq<u8>, start: int, end: int) -> bool;
    }
    pub trait TuplePreparable: TupleSpec + Sized {
        fn prepare_into_concatenated_digest(decoder: &mut TransactionDecoder, accumulator: HashAccumulator, header: ExpectedTupleHeader) -> (ret: Result<(Self, Summary), PrepareError>)
            requires old(decoder).wf(), accumulator.wf(), accumulator.input().len() <= 0xFFFF
            ensures
                ret matches Ok(p) ==> prepared_frame(old(decoder), final(decoder))
                    && header_ok(old(decoder).rest(), header, Self::arity())
                    && p.1.hash.0@ == spec_hash(p.0.preimage(accumulator.input()))
                    && p.1.effective_length == 2 + p.0.eff_sum()
                    && p.1.total_bytes_hashed == p.0.hashed_sum() + accumulator.input().len() + 32 * Self::arity()
                    && p.0.children_rel(old(decoder).input(), old(decoder).pos() + header_len(old(decoder).rest(), header), final(decoder).pos());
    }
    /*@item radix-transactions/src/model/preparation/summarized_composite.rs :: macro prepare_tuple
    @*/
    // the invocations of /repo (summarized_composite.rs, below the macro)
    prepare_tuple! { 0 }
    prepare_tuple! { 1 p0 T0 }
    prepare_tuple! { 2 p0 T0 p1 T1 }
    prepare_tuple! { 3 p0 T0 p1 T1 p2 T2 }
    prepare_tuple! { 4 p0 T0 p1 T1 p2 T2 p3 T3 }
    prepare_tuple! { 5 p0 T0 p1 T1 p2 T2 p3 T3 p4 T4 }
    prepare_tuple! { 6 p0 T0 p1 T1 p2 T2 p3 T3 p4 T4 p5 T5 }
    impl<> TupleSpec for () {
        open spec fn arity() -> usize { 0 }
        open spec fn child_hashes(&self) -> Seq<Hash> { seq![] }
        open spec fn preimage(&self, prefix: Seq<u8>) -> Seq<u8> { prefix }
        open spec fn eff_sum(&self) -> int { 0int }
        open spec fn hashed_sum(&self) -> int { 0int }
        open spec fn children_rel(&self, input: Seq<u8>, start: int, end: int) -> bool { start == end }
    }
    impl<T0: TransactionPreparableFromValue, > TupleSpec for (T0,) {
        open spec fn arity() -> usize { 1 }
        open spec fn child_hashes(&self) -> Seq<Hash> { seq![self.0.summary_spec().hash] }
        open spec fn preimage(&self, prefix: Seq<u8>) -> Seq<u8> { prefix + self.0.summary_spec().hash.0@ }
        open spec fn eff_sum(&self) -> int { 0int + self.0.summary_spec().effective_length }
        open spec fn hashed_sum(&self) -> int { 0int + self.0.summary_spec().total_bytes_hashed }
        open spec fn children_rel(&self, input: Seq<u8>, start: int, end: int) -> bool { self.0.value_rel(input, start, end) }
    }
    impl<T0: TransactionPreparableFromValue, T1: TransactionPreparableFromValue, > TupleSpec for (T0,T1,) {
        open spec fn arity() -> usize { 2 }
        open spec fn child_hashes(&self) -> Seq<Hash> { seq![self.0.summary_spec().hash, self.1.summary_spec().hash] }
        open spec fn preimage(&self, prefix: Seq<u8>) -> Seq<u8> { prefix + self.0.summary_spec().hash.0@ + self.1.summary_spec().hash.0@ }
        open spec fn eff_sum(&self) -> int { 0int + self.0.summary_spec().effective_length + self.1.summary_spec().effective_length }
        open spec fn hashed_sum(&self) -> int { 0int + self.0.summary_spec().total_bytes_hashed + self.1.summary_spec().total_bytes_hashed }
        open spec fn children_rel(&self, input: Seq<u8>, start: int, end: int) -> bool { exists|m1: int| self.0.value_rel(input, start, m1) && self.1.value_rel(input, m1, end) }
    }
    impl<T0: TransactionPreparableFromValue, T1: TransactionPreparableFromValue, T2: TransactionPreparableFromValue, > TupleSpec for (T0,T1,T2,) {
        open spec fn arity() -> usize { 3 }
        open spec fn child_hashes(&self) -> Seq<Hash> { seq![self.0.summary_spec().hash, self.1.summary_spec().hash, self.2.summary_spec().hash] }
        open spec fn preimage(&self, prefix: Seq<u8>) -> Seq<u8> { prefix + self.0.summary_spec().hash.0@ + self.1.summary_spec().hash.0@ + self.2.summary_spec().hash.0@ }
        open spec fn eff_sum(&self) -> int { 0int + self.0.summary_spec().effective_length + self.1.summary_spec().effective_length + self.2.summary_spec().effective_length }
        open spec fn hashed_sum(&self) -> int { 0int + self.0.summary_spec().total_bytes_hashed + self.1.summary_spec().total_bytes_hashed + self.2.summary_spec().total_bytes_hashed }
        open spec fn children_rel(&self, input: Seq<u8>, start: int, end: int) -> bool { exists|m1: int, m2: int| self.0.value_rel(input, start, m1) && self.1.value_rel(input, m1, m2) && self.2.value_rel(input, m2, end) }
    }
    impl<T0: TransactionPreparableFromValue, T1: TransactionPreparableFromValue, T2: TransactionPreparableFromValue, T3: TransactionPreparableFromValue, > TupleSpec for (T0,T1,T2,T3,) {
        open spec fn arity() -> usize { 4 }
        open spec fn child_hashes(&self) -> Seq<Hash> { seq![self.0.summary_spec().hash, self.1.summary_spec().hash, self.2.summary_spec().hash, self.3.summary_spec().hash] }
        open spec fn preimage(&self, prefix: Seq<u8>) -> Seq<u8> { prefix + self.0.summary_spec().hash.0@ + self.1.summary_spec().hash.0@ + self.2.summary_spec().hash.0@ + self.3.summary_spec().hash.0@ }
        open spec fn eff_sum(&self) -> int { 0int + self.0.summary_spec().effective_length + self.1.summary_spec().effective_length + self.2.summary_spec().effective_length + self.3.summary_spec().effective_length }
        open spec fn hashed_sum(&self) -> int { 0int + self.0.summary_spec().total_bytes_hashed + self.1.summary_spec().total_bytes_hashed + self.2.summary_spec().total_bytes_hashed + self.3.summary_spec().total_bytes_hashed }
        open spec fn children_rel(&self, input: Seq<u8>, start: int, end: int) -> bool { exists|m1: int, m2: int, m3: int| self.0.value_rel(input, start, m1) && self.1.value_rel(input, m1, m2) && self.2.value_rel(input, m2, m3) && self.3.value_rel(input, m3, end) }
    }
    impl<T0: TransactionPreparableFromValue, T1: TransactionPreparableFromValue, T2: TransactionPreparableFromValue, T3: TransactionPreparableFromValue, T4: TransactionPreparableFromValue, > TupleSpec for (T0,T1,T2,T3,T4,) {
        open spec fn arity() -> usize { 5 }
        open spec fn child_hashes(&self) -> Seq<Hash> { seq![self.0.summary_spec().hash, self.1.summary_spec().hash, self.2.summary_spec().hash, self.3.summary_spec().hash, self.4.summary_spec().hash] }
        open spec fn preimage(&self, prefix: Seq<u8>) -> Seq<u8> { prefix + self.0.summary_spec().hash.0@ + self.1.summary_spec().hash.0@ + self.2.summary_spec().hash.0@ + self.3.summary_spec().hash.0@ + self.4.summary_spec().hash.0@ }
        open spec fn eff_sum(&self) -> int { 0int + self.0.summary_spec().effective_length + self.1.summary_spec().effective_length + self.2.summary_spec().effective_length + self.3.summary_spec().effective_length + self.4.summary_spec().effective_length }
        open spec fn hashed_sum(&self) -> int { 0int + self.0.summary_spec().total_bytes_hashed + self.1.summary_spec().total_bytes_hashed + self.2.summary_spec().total_bytes_hashed + self.3.summary_spec().total_bytes_hashed + self.4.summary_spec().total_bytes_hashed }
        open spec fn children_rel(&self, input: Seq<u8>, start: int, end: int) -> bool { exists|m1: int, m2: int, m3: int, m4: int| self.0.value_rel(input, start, m1) && self.1.value_rel(input, m1, m2) && self.2.value_rel(input, m2, m3) && self.3.value_rel(input, m3, m4) && self.4.value_rel(input, m4, end) }
    }
    impl<T0: TransactionPreparableFromValue, T1: TransactionPreparableFromValue, T2: TransactionPreparableFromValue, T3: TransactionPreparableFromValue, T4: TransactionPreparableFromValue, T5: TransactionPreparableFromValue, > TupleSpec for (T0,T1,T2,T3,T4,T5,) {
        open spec fn arity() -> usize { 6 }
        open spec fn child_hashes(&self) -> Seq<Hash> { seq![self.0.summary_spec().hash, self.1.summary_spec().hash, self.2.summary_spec().hash, self.3.summary_spec().hash, self.4.summary_spec().hash, self.5.summary_spec().hash] }
        open spec fn preimage(&self, prefix: Seq<u8>) -> Seq<u8> { prefix + self.0.summary_spec().hash.0@ + self.1.summary_spec().hash.0@ + self.2.summary_spec().hash.0@ + self.3.summary_spec().hash.0@ + self.4.summary_spec().hash.0@ + self.5.summary_spec().hash.0@ }
        open spec fn eff_sum(&self) -> int { 0int + self.0.summary_spec().effective_length + self.1.summary_spec().effective_length + self.2.summary_spec().effective_length + self.3.summary_spec().effective_length + self.4.summary_spec().effective_length + self.5.summary_spec().effective_length }
        open spec fn hashed_sum(&self) -> int { 0int + self.0.summary_spec().total_bytes_hashed + self.1.summary_spec().total_bytes_hashed + self.2.summary_spec().total_bytes_hashed + self.3.summary_spec().total_bytes_hashed + self.4.summary_spec().total_bytes_hashed + self.5.summary_spec().total_bytes_hashed }
        open spec fn children_rel(&self, input: Seq<u8>, start: int, end: int) -> bool { exists|m1: int, m2: int, m3: int, m4: int, m5: int| self.0.value_rel(input, start, m1) && self.1.value_rel(input, m1, m2) && self.2.value_rel(input, m2, m3) && self.3.value_rel(input, m3, m4) && self.4.value_rel(input, m4, m5) && self.5.value_rel(input, m5, end) }
    }

    /// the written-out preimages of the generated impls ARE the oracle `digest_input` (hand proofs, per arity)
    pub proof fn lemma_preimage_0(prefix: Seq<u8>)
        ensures ().preimage(prefix) == digest_input(prefix, ().child_hashes())
    {}
    pub proof fn lemma_preimage_1<T0: TransactionPreparableFromValue>(t: (T0,), prefix: Seq<u8>)
        ensures t.preimage(prefix) == digest_input(prefix, t.child_hashes())
    {
        let e = Seq::<Hash>::empty();
        lemma_digest_push(prefix, e, t.0.summary_spec().hash);
        assert(t.child_hashes() =~= e.push(t.0.summary_spec().hash));
    }
    pub proof fn lemma_preimage_2<T0: TransactionPreparableFromValue, T1: TransactionPreparableFromValue>(t: (T0, T1), prefix: Seq<u8>)
        ensures t.preimage(prefix) == digest_input(prefix, t.child_hashes())
    {
        let e = Seq::<Hash>::empty();
        let (h0, h1) = (t.0.summary_spec().hash, t.1.summary_spec().hash);
        lemma_digest_push(prefix, e, h0); lemma_digest_push(prefix, e.push(h0), h1);
        assert(t.child_hashes() =~= e.push(h0).push(h1));
    }
    pub proof fn lemma_preimage_3<T0: TransactionPreparableFromValue, T1: TransactionPreparableFromValue, T2: TransactionPreparableFromValue>(t: (T0, T1, T2), prefix: Seq<u8>)
        ensures t.preimage(prefix) == digest_input(prefix, t.child_hashes())
    {
        let e = Seq::<Hash>::empty();
        let (h0, h1, h2) = (t.0.summary_spec().hash, t.1.summary_spec().hash, t.2.summary_spec().hash);
        lemma_digest_push(prefix, e, h0); lemma_digest_push(prefix, e.push(h0), h1); lemma_digest_push(prefix, e.push(h0).push(h1), h2);
        assert(t.child_hashes() =~= e.push(h0).push(h1).push(h2));
    }
    pub proof fn lemma_preimage_4<T0: TransactionPreparableFromValue, T1: TransactionPreparableFromValue, T2: TransactionPreparableFromValue, T3: TransactionPreparableFromValue>(t: (T0, T1, T2, T3), prefix: Seq<u8>)
        ensures t.preimage(prefix) == digest_input(prefix, t.child_hashes())
    {
        let e = Seq::<Hash>::empty();
        let (h0, h1, h2, h3) = (t.0.summary_spec().hash, t.1.summary_spec().hash, t.2.summary_spec().hash, t.3.summary_spec().hash);
        lemma_digest_push(prefix, e, h0); lemma_digest_push(prefix, e.push(h0), h1); lemma_digest_push(prefix, e.push(h0).push(h1), h2);
        lemma_digest_push(prefix, e.push(h0).push(h1).push(h2), h3);
        assert(t.child_hashes() =~= e.push(h0).push(h1).push(h2).push(h3));
    }
    pub proof fn lemma_preimage_5<T0: TransactionPreparableFromValue, T1: TransactionPreparableFromValue, T2: TransactionPreparableFromValue, T3: TransactionPreparableFromValue, T4: TransactionPreparableFromValue>(t: (T0, T1, T2, T3, T4), prefix: Seq<u8>)
        ensures t.preimage(prefix) == digest_input(prefix, t.child_hashes())
    {
        let e = Seq::<Hash>::empty();
        let (h0, h1, h2, h3, h4) = (t.0.summary_spec().hash, t.1.summary_spec().hash, t.2.summary_spec().hash, t.3.summary_spec().hash, t.4.summary_spec().hash);
        lemma_digest_push(prefix, e, h0); lemma_digest_push(prefix, e.push(h0), h1); lemma_digest_push(prefix, e.push(h0).push(h1), h2);
        lemma_digest_push(prefix, e.push(h0).push(h1).push(h2), h3); lemma_digest_push(prefix, e.push(h0).push(h1).push(h2).push(h3), h4);
        assert(t.child_hashes() =~= e.push(h0).push(h1).push(h2).push(h3).push(h4));
    }
    pub proof fn lemma_preimage_6<T0: TransactionPreparableFromValue, T1: TransactionPreparableFromValue, T2: TransactionPreparableFromValue, T3: TransactionPreparableFromValue, T4: TransactionPreparableFromValue, T5: TransactionPreparableFromValue>(t: (T0, T1, T2, T3, T4, T5), prefix: Seq<u8>)
        ensures t.preimage(prefix) == digest_input(prefix, t.child_hashes())
    {
        let e = Seq::<Hash>::empty();
        let (h0, h1, h2, h3, h4, h5) = (t.0.summary_spec().hash, t.1.summary_spec().hash, t.2.summary_spec().hash, t.3.summary_spec().hash, t.4.summary_spec().hash, t.5.summary_spec().hash);
        lemma_digest_push(prefix, e, h0); lemma_digest_push(prefix, e.push(h0), h1); lemma_digest_push(prefix, e.push(h0).push(h1), h2);
        lemma_digest_push(prefix, e.push(h0).push(h1).push(h2), h3); lemma_digest_push(prefix, e.push(h0).push(h1).push(h2).push(h3), h4);
        lemma_digest_push(prefix, e.push(h0).push(h1).push(h2).push(h3).push(h4), h5);
        assert(t.child_hashes() =~= e.push(h0).push(h1).push(h2).push(h3).push(h4).push(h5));
    }

    // ---- composites: arrays ---------------------------------------------------------------------------
    /// the summary hashes of a sequence of prepared children, in order
    pub open spec fn hashes_of<T: HasSummarySpec>(items: Seq<T>) -> Seq<Hash> {
        Seq::new(items.len(), |i: int| items[i].summary_spec().hash)
    }
    pub open spec fn eff_total<T: HasSummarySpec>(items: Seq<T>) -> int
        decreases items.len()
    { if items.len() == 0 { 0 } else { eff_total(items.drop_last()) + items.last().summary_spec().effective_length } }
    pub open spec fn hashed_total<T: HasSummarySpec>(items: Seq<T>) -> int
        decreases items.len()
    { if items.len() == 0 { 0 } else { hashed_total(items.drop_last()) + items.last().summary_spec().total_bytes_hashed } }
    /// the elements were prepared from consecutive, gap-free byte ranges of input[start..end]
    pub open spec fn bodies_rel<T: ValueBodySpec>(items: Seq<T>, input: Seq<u8>, start: int, end: int) -> bool
        decreases items.len()
    {
        if items.len() == 0 { start == end }
        else { exists|m: int| bodies_rel(items.drop_last(), input, start, m) && #[trigger] items.last().body_rel(input, m, end) }
    }

    pub trait ArraySpec: Sized {
        spec fn child_hashes(&self) -> Seq<Hash>;
        spec fn count(&self) -> int;
        spec fn elem_kind() -> ManifestValueKind;
        spec fn eff_sum(&self) -> int;
        spec fn hashed_sum(&self) -> int;
        spec fn children_rel(&self, input: Seq<u8>, start: int, end: int) -> bool;
    }
    pub trait ArrayPreparable: ArraySpec + Sized {
        fn prepare_into_concatenated_digest(decoder: &mut TransactionDecoder, accumulator: HashAccumulator, value_type: ValueType, max_length: usize, read_value_kind: bool) -> (ret: Result<(Self, Summary), PrepareError>)
            requires old(decoder).wf(), accumulator.wf(), accumulator.input().len() <= 0xFFFF
            ensures
                ret matches Ok(p) ==> prepared_frame(old(decoder), final(decoder))
                    && array_header_ok(old(decoder).rest(), read_value_kind, Self::elem_kind(), p.0.count())
                    // over-limit sizes are rejected: exact boundary
                    && p.0.count() <= max_length
                    && p.0.child_hashes().len() == p.0.count()
                    && p.1.hash.0@ == spec_hash(digest_input(accumulator.input(), p.0.child_hashes()))
                    && p.1.effective_length == 2 + p.0.eff_sum()
                    && p.1.total_bytes_hashed == p.0.hashed_sum() + accumulator.input().len() + 32 * p.0.count()
                    && p.0.children_rel(old(decoder).input(), old(decoder).pos() + array_header_len(old(decoder).rest(), read_value_kind), final(decoder).pos()),
                // documented error of an over-limit count (the header itself being well formed)
                forall|n: int| array_header_ok(old(decoder).rest(), read_value_kind, Self::elem_kind(), n) && n > max_length && old(decoder).depths().0 < old(decoder).depths().1
                    ==> ret == Err::<(Self, Summary), PrepareError>(PrepareError::TooManyValues { value_type, actual: n as usize, max: max_length });
    }
    impl<T: TransactionPreparableFromValueBody> ArraySpec for Vec<T> {
        open spec fn child_hashes(&self) -> Seq<Hash> { hashes_of(self@) }
        open spec fn count(&self) -> int { self@.len() as int }
        open spec fn elem_kind() -> ManifestValueKind { T::value_kind_spec() }
        open spec fn eff_sum(&self) -> int { eff_total(self@) }
        open spec fn hashed_sum(&self) -> int { hashed_total(self@) }
        open spec fn children_rel(&self, input: Seq<u8>, start: int, end: int) -> bool { bodies_rel(self@, input, start, end) }
    }
    impl<T: TransactionPreparableFromValueBody> ArrayPreparable for Vec<T> {
        /*@fn radix-transactions/src/model/preparation/summarized_composite.rs :: impl<T: TransactionPreparableFromValueBody> ArrayPreparable for Vec<T> :: fn prepare_into_concatenated_digest
        @entry
            let ghost inp = decoder.input(); let ghost p0 = decoder.pos(); let ghost acc0 = accumulator.input();
            proof { lemma_rest_shift(inp, p0, 0); if p0 + 1 <= inp.len() { lemma_rest_shift(inp, p0, 1); } if p0 + 2 <= inp.len() { lemma_rest_shift(inp, p0, 2); } }
        @after <<let mut all_prepared>> #1
            let ghost p1 = decoder.pos();
            proof { assert(hashes_of(all_prepared@) =~= Seq::<Hash>::empty()); }
        @loop 1 iter it
            invariant
                decoder.wf(), decoder.input() == inp, decoder.settings == old(decoder).settings, p1 <= decoder.pos(), inp == old(decoder).input(),
                decoder.depths().0 >= 1, decoder.depths() == (old(decoder).depths().0 + 1, old(decoder).depths().1),
                length <= 0x0FFF_FFFF, acc0.len() <= 0xFFFF, length <= max_length,
                array_header_ok(old(decoder).rest(), read_value_kind, T::value_kind_spec(), length as int),
                all_prepared@.len() == it.index@,
                accumulator.wf(), accumulator.input() == digest_input(acc0, hashes_of(all_prepared@)),
                effective_length == 2 + eff_total(all_prepared@),
                total_bytes_hashed == hashed_total(all_prepared@),
                bodies_rel(all_prepared@, inp, p1, decoder.pos()),
        @before <<let prepared>> #1
            let ghost items0 = all_prepared@; let ghost pa = decoder.pos();
        @before <<accumulator = accumulator.concat>> #1
            proof { lemma_digest_len(acc0, hashes_of(items0)); }
        @after <<all_prepared.push(>> #1
            proof {
                assert(all_prepared@.drop_last() =~= items0);
                assert(hashes_of(all_prepared@) =~= hashes_of(items0).push(prepared.summary_spec().hash));
                lemma_digest_push(acc0, hashes_of(items0), prepared.summary_spec().hash);
            }
        @before <<total_bytes_hashed = total_bytes_hashed>> #2
            proof { lemma_digest_len(acc0, hashes_of(all_prepared@)); }
        @*/
    }

    // ---- ConcatenatedDigest ---------------------------------------------------------------------------
    /*@item radix-transactions/src/model/any_transaction.rs :: const V1_INTENT
    @*/
    /*@item radix-transactions/src/model/any_transaction.rs :: const V1_SIGNED_INTENT
    @*/
    /*@item radix-transactions/src/model/any_transaction.rs :: const V1_NOTARIZED_TRANSACTION
    @*/
    /*@item radix-transactions/src/model/any_transaction.rs :: const V1_SYSTEM_TRANSACTION
    @*/
    /*@item radix-transactions/src/model/any_transaction.rs :: const V1_ROUND_UPDATE_TRANSACTION
    @*/
    /*@item radix-transactions/src/model/any_transaction.rs :: const LEDGER_TRANSACTION
    @*/
    /*@item radix-transactions/src/model/any_transaction.rs :: const V1_FLASH_TRANSACTION
    @*/
    /*@item radix-transactions/src/model/any_transaction.rs :: const V2_TRANSACTION_INTENT
    @*/
    /*@item radix-transactions/src/model/any_transaction.rs :: const V2_SIGNED_TRANSACTION_INTENT
    @*/
    /*@item radix-transactions/src/model/any_transaction.rs :: const V2_SUBINTENT
    @*/
    /*@item radix-transactions/src/model/any_transaction.rs :: const V2_NOTARIZED_TRANSACTION
    @*/
    /*@item radix-transactions/src/model/any_transaction.rs :: const V2_PARTIAL_TRANSACTION
    @*/
    /*@item radix-transactions/src/model/any_transaction.rs :: const V2_SIGNED_PARTIAL_TRANSACTION
    @*/
    /*@item radix-transactions/src/model/any_transaction.rs :: const V2_PREVIEW_TRANSACTION
    @*/
    #[repr(u8)] // (attribute of the real enum; the extractor drops attributes)
    /*@item radix-transactions/src/model/any_transaction.rs :: enum TransactionDiscriminator
    @derive Copy, Clone, PartialEq, Eq
    @*/
    /// ORACLE (REP-82): the discriminator byte of each payload kind -- all distinct
    pub open spec fn disc_byte(d: TransactionDiscriminator) -> u8 {
        match d {
            TransactionDiscriminator::V1Intent => 1, TransactionDiscriminator::V1SignedIntent => 2, TransactionDiscriminator::V1Notarized => 3,
            TransactionDiscriminator::V1System => 4, TransactionDiscriminator::V1RoundUpdate => 5, TransactionDiscriminator::Ledger => 7,
            TransactionDiscriminator::V1Flash => 8, TransactionDiscriminator::V2TransactionIntent => 9,
            TransactionDiscriminator::V2SignedTransactionIntent => 10, TransactionDiscriminator::V2Subintent => 11,
            TransactionDiscriminator::V2Notarized => 12, TransactionDiscriminator::V2PartialTransaction => 13,
            TransactionDiscriminator::V2SignedPartialTransaction => 14, TransactionDiscriminator::V2PreviewTransaction => 15,
        }
    }
    pub proof fn lemma_disc_byte_injective(a: TransactionDiscriminator, b: TransactionDiscriminator)
        requires disc_byte(a) == disc_byte(b) ensures a == b
    {}

    /// `pub enum ConcatenatedDigest {}` -- an uninhabited enum used purely as a namespace; Verus rejects datatypes
    /// without a variant, so the namespace is declared as a unit struct (no value of it is ever created or used)
    pub struct ConcatenatedDigest;
    impl ConcatenatedDigest {
        /*@fn radix-transactions/src/model/preparation/summarized_composite.rs :: impl ConcatenatedDigest :: fn prepare_transaction_payload
        @sig
            requires old(decoder).wf()
            ensures
                ret matches Ok(p) ==> prepared_frame(old(decoder), final(decoder))
                    // canonical form: the expected enum/tuple header with THIS payload's discriminator and the exact field count
                    && header_ok(old(decoder).rest(), header.with_disc_spec(disc_byte(discriminator)), T::arity())
                    // the identifier commits to 'T', the discriminator and every child hash, in order
                    && p.1.hash.0@ == spec_hash(p.0.preimage(payload_prefix(disc_byte(discriminator))))
                    && p.1.effective_length == 2 + p.0.eff_sum()
                    && p.1.total_bytes_hashed == p.0.hashed_sum() + 2 + 32 * T::arity()
                    && p.0.children_rel(old(decoder).input(), old(decoder).pos() + header_len(old(decoder).rest(), header.with_disc_spec(disc_byte(discriminator))), final(decoder).pos())
        @*/
        /*@fn radix-transactions/src/model/preparation/summarized_composite.rs :: impl ConcatenatedDigest :: fn prepare_from_sbor_array_full_value
        @sig
            requires old(decoder).wf()
            ensures
                ret matches Ok(p) ==> prepared_frame(old(decoder), final(decoder))
                    && array_header_ok(old(decoder).rest(), true, T::elem_kind(), p.0.count())
                    && p.0.count() <= max_length && p.0.child_hashes().len() == p.0.count()
                    && p.1.hash.0@ == spec_hash(digest_input(Seq::<u8>::empty(), p.0.child_hashes()))
                    && p.0.children_rel(old(decoder).input(), old(decoder).pos() + array_header_len(old(decoder).rest(), true), final(decoder).pos()),
                forall|n: int| array_header_ok(old(decoder).rest(), true, T::elem_kind(), n) && n > max_length && old(decoder).depths().0 < old(decoder).depths().1
                    ==> ret == Err::<(T, Summary), PrepareError>(PrepareError::TooManyValues { value_type, actual: n as usize, max: max_length })
        @*/
        /*@fn radix-transactions/src/model/preparation/summarized_composite.rs :: impl ConcatenatedDigest :: fn prepare_from_sbor_array_value_body
        @sig
            requires old(decoder).wf()
            ensures
                ret matches Ok(p) ==> prepared_frame(old(decoder), final(decoder))
                    && array_header_ok(old(decoder).rest(), false, T::elem_kind(), p.0.count())
                    && p.0.count() <= max_length && p.0.child_hashes().len() == p.0.count()
                    && p.1.hash.0@ == spec_hash(digest_input(Seq::<u8>::empty(), p.0.child_hashes()))
                    && p.0.children_rel(old(decoder).input(), old(decoder).pos() + array_header_len(old(decoder).rest(), false), final(decoder).pos()),
                forall|n: int| array_header_ok(old(decoder).rest(), false, T::elem_kind(), n) && n > max_length && old(decoder).depths().0 < old(decoder).depths().1
                    ==> ret == Err::<(T, Summary), PrepareError>(PrepareError::TooManyValues { value_type, actual: n as usize, max: max_length })
        @*/
        /*@fn radix-transactions/src/model/preparation/summarized_composite.rs :: impl ConcatenatedDigest :: fn prepare_from_sbor_tuple_full_value
        @sig
            requires old(decoder).wf()
            ensures
                ret matches Ok(p) ==> prepared_frame(old(decoder), final(decoder))
                    && header_ok(old(decoder).rest(), ExpectedTupleHeader::TupleWithValueKind, T::arity())
                    && p.1.hash.0@ == spec_hash(p.0.preimage(Seq::<u8>::empty()))
                    && p.0.children_rel(old(decoder).input(), old(decoder).pos() + header_len(old(decoder).rest(), ExpectedTupleHeader::TupleWithValueKind), final(decoder).pos())
        @*/
        /*@fn radix-transactions/src/model/preparation/summarized_composite.rs :: impl ConcatenatedDigest :: fn prepare_from_sbor_tuple_value_body
        @sig
            requires old(decoder).wf()
            ensures
                ret matches Ok(p) ==> prepared_frame(old(decoder), final(decoder))
                    && header_ok(old(decoder).rest(), ExpectedTupleHeader::TupleNoValueKind, T::arity())
                    && p.1.hash.0@ == spec_hash(p.0.preimage(Seq::<u8>::empty()))
                    && p.0.children_rel(old(decoder).input(), old(decoder).pos() + header_len(old(decoder).rest(), ExpectedTupleHeader::TupleNoValueKind), final(decoder).pos())
        @*/
    }

    // =============================================================================================
    // radix-transactions/src/model/preparation/summarized_raw.rs : the LEAVES of the hash tree
    // =============================================================================================
    /*@item radix-transactions/src/model/preparation/summary.rs :: macro impl_has_summary
    @*/

    /// ORACLE for a raw leaf: the identifier is the hash of EXACTLY the bytes input[start..end] the value occupied
    pub open spec fn raw_commits(s: Summary, input: Seq<u8>, start: int, end: int) -> bool {
        0 <= start <= end <= input.len() && s.hash.0@ == spec_hash(input.subrange(start, end)) && s.total_bytes_hashed == end - start
    }

    // ---- SummarizedRawFullValue (V1: the hash covers the value-kind byte) ----
    /*@item radix-transactions/src/model/preparation/summarized_raw.rs :: struct SummarizedRawFullValue
    @derive Clone
    @*/
    impl<T: ManifestDecode> HasSummarySpec for SummarizedRawFullValue<T> {
        open spec fn summary_spec(&self) -> Summary { self.summary }
        open spec fn with_summary(self, s: Summary) -> Self { SummarizedRawFullValue { inner: self.inner, summary: s } }
    }
    impl_has_summary!(<T: ManifestDecode> SummarizedRawFullValue<T>);
    impl<T: ManifestDecode> ValueSpec for SummarizedRawFullValue<T> {
        open spec fn value_rel(&self, input: Seq<u8>, start: int, end: int) -> bool {
            start < end && raw_commits(self.summary, input, start, end) && self.summary.effective_length == end - start
        }
    }
    impl<T: ManifestDecode> TransactionPreparableFromValue for SummarizedRawFullValue<T> {
        /*@fn radix-transactions/src/model/preparation/summarized_raw.rs :: impl<T: ManifestDecode> TransactionPreparableFromValue for SummarizedRawFullValue<T> :: fn prepare_from_value
        @*/
    }

    // ---- SummarizedRawFullValueWithReferences ----
    /*@item radix-transactions/src/model/preparation/summarized_raw.rs :: struct SummarizedRawFullValueWithReferences
    @derive
    @*/
    impl<T: ManifestDecode> HasSummarySpec for SummarizedRawFullValueWithReferences<T> {
        open spec fn summary_spec(&self) -> Summary { self.summary }
        open spec fn with_summary(self, s: Summary) -> Self { SummarizedRawFullValueWithReferences { inner: self.inner, summary: s, references: self.references } }
    }
    impl<T: ManifestDecode> HasSummary for SummarizedRawFullValueWithReferences<T> {
        /*@fn radix-transactions/src/model/preparation/summarized_raw.rs :: impl<T: ManifestDecode> HasSummary for SummarizedRawFullValueWithReferences<T> :: fn get_summary
        @*/
        /*@fn radix-transactions/src/model/preparation/summarized_raw.rs :: impl<T: ManifestDecode> HasSummary for SummarizedRawFullValueWithReferences<T> :: fn summary_mut
        @*/
    }
    impl<T: ManifestDecode> ValueSpec for SummarizedRawFullValueWithReferences<T> {
        open spec fn value_rel(&self, input: Seq<u8>, start: int, end: int) -> bool {
            start < end && raw_commits(self.summary, input, start, end) && self.summary.effective_length == end - start
        }
    }
    impl<T: ManifestDecode> TransactionPreparableFromValue for SummarizedRawFullValueWithReferences<T> {
        /*@fn radix-transactions/src/model/preparation/summarized_raw.rs :: impl<T: ManifestDecode> TransactionPreparableFromValue for SummarizedRawFullValueWithReferences<T> :: fn prepare_from_value
        @*/
    }

    // ---- SummarizedRawValueBodyWithReferences (V2: the hash covers the body only) ----
    /*@item radix-transactions/src/model/preparation/summarized_raw.rs :: struct SummarizedRawValueBodyWithReferences
    @derive
    @*/
    impl<T: ManifestDecode + ManifestCategorize> HasSummarySpec for SummarizedRawValueBodyWithReferences<T> {
        open spec fn summary_spec(&self) -> Summary { self.summary }
        open spec fn with_summary(self, s: Summary) -> Self { SummarizedRawValueBodyWithReferences { inner: self.inner, summary: s, references: self.references } }
    }
    impl_has_summary!(<T: ManifestDecode + ManifestCategorize> SummarizedRawValueBodyWithReferences<T>);
    impl<T: ManifestDecode + ManifestCategorize> ValueBodySpec for SummarizedRawValueBodyWithReferences<T> {
        open spec fn value_kind_spec() -> ManifestValueKind { T::value_kind_spec() }
        open spec fn body_rel(&self, input: Seq<u8>, start: int, end: int) -> bool { raw_commits(self.summary, input, start, end) }
        proof fn body_rel_frame(&self, s: Summary, input: Seq<u8>, start: int, end: int) {}
    }
    impl<T: ManifestDecode + ManifestCategorize> TransactionPreparableFromValueBody for SummarizedRawValueBodyWithReferences<T> {
        /*@fn radix-transactions/src/model/preparation/summarized_raw.rs :: impl<T: ManifestDecode + ManifestCategorize> TransactionPreparableFromValueBody for SummarizedRawValueBodyWithReferences<T> :: fn prepare_from_value_body
        @sig
            ensures ret matches Ok(v) ==> v.summary.effective_length == final(decoder).pos() - old(decoder).pos()
        @*/
        /*@fn radix-transactions/src/model/preparation/summarized_raw.rs :: impl<T: ManifestDecode + ManifestCategorize> TransactionPreparableFromValueBody for SummarizedRawValueBodyWithReferences<T> :: fn value_kind
        @*/
    }

    // ---- SummarizedRawValueBody ----
    /*@item radix-transactions/src/model/preparation/summarized_raw.rs :: struct SummarizedRawValueBody
    @derive Debug, Clone, Eq, PartialEq
    @*/
    impl<T: ManifestDecode + ManifestCategorize> HasSummarySpec for SummarizedRawValueBody<T> {
        open spec fn summary_spec(&self) -> Summary { self.summary }
        open spec fn with_summary(self, s: Summary) -> Self { SummarizedRawValueBody { inner: self.inner, summary: s } }
    }
    impl_has_summary!(<T: ManifestDecode + ManifestCategorize> SummarizedRawValueBody<T>);
    impl<T: ManifestDecode + ManifestCategorize> ValueBodySpec for SummarizedRawValueBody<T> {
        open spec fn value_kind_spec() -> ManifestValueKind { T::value_kind_spec() }
        open spec fn body_rel(&self, input: Seq<u8>, start: int, end: int) -> bool { raw_commits(self.summary, input, start, end) }
        proof fn body_rel_frame(&self, s: Summary, input: Seq<u8>, start: int, end: int) {}
    }
    impl<T: ManifestDecode + ManifestCategorize> TransactionPreparableFromValueBody for SummarizedRawValueBody<T> {
        /*@fn radix-transactions/src/model/preparation/summarized_raw.rs :: impl<T: ManifestDecode + ManifestCategorize> TransactionPreparableFromValueBody for SummarizedRawValueBody<T> :: fn prepare_from_value_body
        @sig
            ensures ret matches Ok(v) ==> v.summary.effective_length == final(decoder).pos() - old(decoder).pos()
        @*/
        /*@fn radix-transactions/src/model/preparation/summarized_raw.rs :: impl<T: ManifestDecode + ManifestCategorize> TransactionPreparableFromValueBody for SummarizedRawValueBody<T> :: fn value_kind
        @*/
    }

    // ---- SummarizedRawValueBodyRawBytes (the hash covers the decoded byte vector, not its SBOR framing) ----
    /*@item radix-transactions/src/model/preparation/summarized_raw.rs :: struct SummarizedRawValueBodyRawBytes
    @derive Clone
    @*/
    impl HasSummarySpec for SummarizedRawValueBodyRawBytes {
        open spec fn summary_spec(&self) -> Summary { self.summary }
        open spec fn with_summary(self, s: Summary) -> Self { SummarizedRawValueBodyRawBytes { inner: self.inner, summary: s } }
    }
    impl_has_summary!(SummarizedRawValueBodyRawBytes);
    impl ValueBodySpec for SummarizedRawValueBodyRawBytes {
        open spec fn value_kind_spec() -> ManifestValueKind { ValueKind::Array }
        open spec fn body_rel(&self, input: Seq<u8>, start: int, end: int) -> bool {
            self.summary.hash.0@ == spec_hash(self.inner@) && self.summary.total_bytes_hashed == self.inner@.len()
        }
        proof fn body_rel_frame(&self, s: Summary, input: Seq<u8>, start: int, end: int) {}
    }
    impl TransactionPreparableFromValueBody for SummarizedRawValueBodyRawBytes {
        /*@fn radix-transactions/src/model/preparation/summarized_raw.rs :: impl TransactionPreparableFromValueBody for SummarizedRawValueBodyRawBytes :: fn prepare_from_value_body
        @sig
            ensures ret matches Ok(v) ==> v.summary.effective_length == 2 + v.inner@.len()
        @*/
        /*@fn radix-transactions/src/model/preparation/summarized_raw.rs :: impl TransactionPreparableFromValueBody for SummarizedRawValueBodyRawBytes :: fn value_kind
        @*/
    }

    // ---- RawHash (a value that already IS a hash: taken over as its own identifier, nothing is hashed) ----
    /*@item radix-transactions/src/model/preparation/summarized_raw.rs :: struct RawHash
    @derive Clone
    @*/
    impl HasSummarySpec for RawHash {
        open spec fn summary_spec(&self) -> Summary { self.summary }
        open spec fn with_summary(self, s: Summary) -> Self { RawHash { hash: self.hash, summary: s } }
    }
    impl_has_summary!(RawHash);
    impl ValueBodySpec for RawHash {
        open spec fn value_kind_spec() -> ManifestValueKind { ValueKind::Array }
        open spec fn body_rel(&self, input: Seq<u8>, start: int, end: int) -> bool {
            self.summary.hash == self.hash && self.summary.total_bytes_hashed == 0
        }
        proof fn body_rel_frame(&self, s: Summary, input: Seq<u8>, start: int, end: int) {}
    }
    impl TransactionPreparableFromValueBody for RawHash {
        /*@fn radix-transactions/src/model/preparation/summarized_raw.rs :: impl TransactionPreparableFromValueBody for RawHash :: fn prepare_from_value_body
        @sig
            ensures ret matches Ok(v) ==> v.summary.effective_length == final(decoder).pos() - old(decoder).pos()
        @*/
        /*@fn radix-transactions/src/model/preparation/summarized_raw.rs :: impl TransactionPreparableFromValueBody for RawHash :: fn value_kind
        @*/
    }

    // =============================================================================================
    // radix-transactions/src/model/preparation/traits.rs : payload level + ONE representative chain
    // (V2 notarized transaction -> V2 signed transaction intent), impls generated by the real macro
    // =============================================================================================
    pub trait RawTransactionPayload: AsRef<[u8]> {
        const KIND: TransactionPayloadKind;
        /*@fn radix-transactions/src/model/preparation/traits.rs :: trait RawTransactionPayload: AsRef<[u8]> + From<Vec<u8>> + Into<Vec<u8>> :: fn as_slice
        @sig
            ensures ret == self.as_ref_spec()
        @*/
    }
    impl RawTransactionPayload for RawSignedTransactionIntent { const KIND: TransactionPayloadKind = TransactionPayloadKind::Other; }
    impl RawTransactionPayload for RawNotarizedTransaction { const KIND: TransactionPayloadKind = TransactionPayloadKind::CompleteUserTransaction; }

    pub trait TransactionPayload {
        type Prepared: PreparedTransaction<Raw = Self::Raw>;
        type Raw: RawTransactionPayload;
    }

    /// spec companion of `PreparedTransaction`
    pub trait PreparedTxSpec: HasSummarySpec + Sized {
        spec fn discriminator() -> u8;
        spec fn field_count() -> usize;
        spec fn field_hashes(&self) -> Seq<Hash>;
        /// `'T' ++ discriminator ++ field hashes` written out (== digest_input(payload_prefix(d), field_hashes()))
        spec fn payload_preimage(&self) -> Seq<u8>;
        spec fn fields_rel(&self, input: Seq<u8>, start: int, end: int) -> bool;
    }
    /// ORACLE (C32) for a prepared payload found at input[start..end]: canonical header with the payload's own
    /// discriminator and field count; identifier == hash('T' ++ discriminator ++ field identifiers); the fields
    /// occupy exactly the bytes after the header
    pub open spec fn tx_rel<P: PreparedTxSpec>(v: P, input: Seq<u8>, start: int, end: int, header: ExpectedHeaderKind) -> bool {
        let h = header.with_disc_spec(P::discriminator());
        &&& 0 <= start <= end <= input.len()
        &&& header_ok(rest_of(input, start), h, P::field_count())
        &&& v.summary_spec().hash.0@ == spec_hash(v.payload_preimage())
        &&& v.fields_rel(input, start + header_len(rest_of(input, start), h), end)
    }
    pub trait PreparedTransaction: PreparedTxSpec + Sized {
        type Raw: RawTransactionPayload;

        fn prepare_from_transaction_enum(decoder: &mut TransactionDecoder) -> (ret: Result<Self, PrepareError>)
            requires old(decoder).wf()
            ensures ret matches Ok(v) ==> prepared_frame(old(decoder), final(decoder))
                && tx_rel(v, old(decoder).input(), old(decoder).pos(), final(decoder).pos(), ExpectedHeaderKind::EnumWithValueKind);

        /*@fn radix-transactions/src/model/preparation/traits.rs :: trait PreparedTransaction: Sized :: fn prepare
        @sig
            ensures
                // C32 canonical form: accepted payloads are within the size limit of their kind, start with the manifest
                // SBOR prefix, and are consumed up to the LAST byte (no trailing bytes) by the enum-wrapped payload
                ret matches Ok(v) ==> len_ok(*settings, <Self::Raw as RawTransactionPayload>::KIND, raw.as_ref_spec()@.len() as usize)
                    && raw.as_ref_spec()@.len() >= 1 && raw.as_ref_spec()@[0] == 0x4d
                    && tx_rel(v, raw.as_ref_spec()@, 1, raw.as_ref_spec()@.len() as int, ExpectedHeaderKind::EnumWithValueKind),
                !len_ok(*settings, <Self::Raw as RawTransactionPayload>::KIND, raw.as_ref_spec()@.len() as usize) ==> ret == Err::<Self, PrepareError>(PrepareError::TransactionTooLarge)
        @*/
    }

    /*@item radix-transactions/src/model/preparation/traits.rs :: macro define_transaction_payload
    @subst <<#[derive(Debug, Clone, Eq, PartialEq)]>> => <<#[derive(Clone, Eq, PartialEq)]>> why: the derive filter (R2) that the extractor applies to every struct item, here inside a macro body: Verus cannot process the derived Debug impl (core::fmt::Formatter::debug_struct_fieldN_finish is unsupported); no hashing/decoding code is touched
    @*/

    // ---- V2 signed transaction intent: the invocation of /repo (v2/signed_transaction_intent_v2.rs) ----
    define_transaction_payload!(
        SignedTransactionIntentV2,
        RawSignedTransactionIntent,
        PreparedSignedTransactionIntentV2 {
            transaction_intent: PreparedTransactionIntentV2,
            transaction_intent_signatures: PreparedIntentSignaturesV2,
            non_root_subintent_signatures: PreparedNonRootSubintentSignaturesV2,
        },
        TransactionDiscriminator::V2SignedTransactionIntent,
    );
    impl HasSummarySpec for PreparedSignedTransactionIntentV2 {
        open spec fn summary_spec(&self) -> Summary { self.summary }
        open spec fn with_summary(self, s: Summary) -> Self { PreparedSignedTransactionIntentV2 { summary: s, ..self } }
    }
    impl PreparedTxSpec for PreparedSignedTransactionIntentV2 {
        open spec fn discriminator() -> u8 { 10 }
        open spec fn field_count() -> usize { 3 }
        open spec fn field_hashes(&self) -> Seq<Hash> {
            seq![self.transaction_intent.summary.hash, self.transaction_intent_signatures.summary.hash, self.non_root_subintent_signatures.summary.hash]
        }
        open spec fn payload_preimage(&self) -> Seq<u8> {
            payload_prefix(10) + self.transaction_intent.summary.hash.0@ + self.transaction_intent_signatures.summary.hash.0@ + self.non_root_subintent_signatures.summary.hash.0@
        }
        open spec fn fields_rel(&self, input: Seq<u8>, start: int, end: int) -> bool {
            // consecutive, gap-free byte ranges, in declaration order (the tuple oracle of the same fields)
            (self.transaction_intent, self.transaction_intent_signatures, self.non_root_subintent_signatures).children_rel(input, start, end)
        }
    }
    /// (the derived `PartialEq` of the generated struct is not used and not specified)
    impl vstd::std_specs::cmp::PartialEqSpecImpl for PreparedSignedTransactionIntentV2 {
        open spec fn obeys_eq_spec() -> bool { false }
        open spec fn eq_spec(&self, other: &Self) -> bool { true }
    }
    impl ValueBodySpec for PreparedSignedTransactionIntentV2 {
        open spec fn value_kind_spec() -> ManifestValueKind { ValueKind::Tuple }
        open spec fn body_rel(&self, input: Seq<u8>, start: int, end: int) -> bool { tx_rel(*self, input, start, end, ExpectedHeaderKind::TupleNoValueKind) }
        proof fn body_rel_frame(&self, s: Summary, input: Seq<u8>, start: int, end: int) {}
    }
    impl PreparedSignedTransactionIntentV2 {
        /*@fn radix-transactions/src/model/v2/signed_transaction_intent_v2.rs :: impl HasSignedTransactionIntentHash for PreparedSignedTransactionIntentV2 :: fn signed_transaction_intent_hash
        @sig
            ensures ret.0 == self.summary.hash
        @*/
    }

    // ---- V2 notarized transaction: the invocation of /repo (v2/notarized_transaction_v2.rs) ----
    /*@item radix-transactions/src/model/v2/notarized_transaction_v2.rs :: type PreparedNotarySignatureV2
    @*/
    define_transaction_payload!(
        NotarizedTransactionV2,
        RawNotarizedTransaction,
        PreparedNotarizedTransactionV2 {
            signed_intent: PreparedSignedTransactionIntentV2,
            notary_signature: PreparedNotarySignatureV2,
        },
        TransactionDiscriminator::V2Notarized,
    );
    impl HasSummarySpec for PreparedNotarizedTransactionV2 {
        open spec fn summary_spec(&self) -> Summary { self.summary }
        open spec fn with_summary(self, s: Summary) -> Self { PreparedNotarizedTransactionV2 { summary: s, ..self } }
    }
    impl PreparedTxSpec for PreparedNotarizedTransactionV2 {
        open spec fn discriminator() -> u8 { 12 }
        open spec fn field_count() -> usize { 2 }
        open spec fn field_hashes(&self) -> Seq<Hash> { seq![self.signed_intent.summary.hash, self.notary_signature.summary.hash] }
        open spec fn payload_preimage(&self) -> Seq<u8> {
            payload_prefix(12) + self.signed_intent.summary.hash.0@ + self.notary_signature.summary.hash.0@
        }
        open spec fn fields_rel(&self, input: Seq<u8>, start: int, end: int) -> bool {
            (self.signed_intent, self.notary_signature).children_rel(input, start, end)
        }
    }
    impl vstd::std_specs::cmp::PartialEqSpecImpl for PreparedNotarizedTransactionV2 {
        open spec fn obeys_eq_spec() -> bool { false }
        open spec fn eq_spec(&self, other: &Self) -> bool { true }
    }
    impl ValueBodySpec for PreparedNotarizedTransactionV2 {
        open spec fn value_kind_spec() -> ManifestValueKind { ValueKind::Tuple }
        open spec fn body_rel(&self, input: Seq<u8>, start: int, end: int) -> bool { tx_rel(*self, input, start, end, ExpectedHeaderKind::TupleNoValueKind) }
        proof fn body_rel_frame(&self, s: Summary, input: Seq<u8>, start: int, end: int) {}
    }
    impl PreparedNotarizedTransactionV2 {
        /*@fn radix-transactions/src/model/v2/notarized_transaction_v2.rs :: impl HasNotarizedTransactionHash for PreparedNotarizedTransactionV2 :: fn notarized_transaction_hash
        @sig
            ensures ret.0 == self.summary.hash
        @*/
    }

    // =============================================================================================
    // C32 corollaries for the representative chain (hand proofs over the contracts proved above)
    // =============================================================================================
    pub proof fn lemma_signed_intent_preimage(v: PreparedSignedTransactionIntentV2)
        ensures v.payload_preimage() == digest_input(payload_prefix(10), v.field_hashes())
    {
        lemma_preimage_3((v.transaction_intent, v.transaction_intent_signatures, v.non_root_subintent_signatures), payload_prefix(10));
        assert(v.field_hashes() =~= (v.transaction_intent, v.transaction_intent_signatures, v.non_root_subintent_signatures).child_hashes());
    }
    pub proof fn lemma_notarized_preimage(v: PreparedNotarizedTransactionV2)
        ensures v.payload_preimage() == digest_input(payload_prefix(12), v.field_hashes())
    {
        lemma_preimage_2((v.signed_intent, v.notary_signature), payload_prefix(12));
        assert(v.field_hashes() =~= (v.signed_intent, v.notary_signature).child_hashes());
    }
    /// what `prepare`/`prepare_from_*` establish about the identifier of a prepared payload
    pub open spec fn id_ok<P: PreparedTxSpec>(v: P) -> bool { v.summary_spec().hash.0@ == spec_hash(v.payload_preimage()) }

    /// "changing any field of a hashed part changes the corresponding hash", notarized level:
    /// equal NotarizedTransactionHash ==> same signed-intent hash and same notary-signature hash
    pub proof fn lemma_notarized_hash_commits(a: PreparedNotarizedTransactionV2, b: PreparedNotarizedTransactionV2)
        requires no_collision(a.payload_preimage(), b.payload_preimage()), id_ok(a), id_ok(b), a.summary.hash == b.summary.hash
        ensures a.signed_intent.summary.hash == b.signed_intent.summary.hash, a.notary_signature.summary.hash == b.notary_signature.summary.hash
    {
        lemma_notarized_preimage(a); lemma_notarized_preimage(b);
        lemma_digest_commits(payload_prefix(12), a.field_hashes(), payload_prefix(12), b.field_hashes());
        assert(a.field_hashes()[0] == b.field_hashes()[0] && a.field_hashes()[1] == b.field_hashes()[1]);
    }
    /// signed-intent level: equal SignedTransactionIntentHash ==> same intent hash and same signature-list hashes
    pub proof fn lemma_signed_intent_hash_commits(a: PreparedSignedTransactionIntentV2, b: PreparedSignedTransactionIntentV2)
        requires no_collision(a.payload_preimage(), b.payload_preimage()), id_ok(a), id_ok(b), a.summary.hash == b.summary.hash
        ensures
            a.transaction_intent.summary.hash == b.transaction_intent.summary.hash,
            a.transaction_intent_signatures.summary.hash == b.transaction_intent_signatures.summary.hash,
            a.non_root_subintent_signatures.summary.hash == b.non_root_subintent_signatures.summary.hash,
    {
        lemma_signed_intent_preimage(a); lemma_signed_intent_preimage(b);
        lemma_digest_commits(payload_prefix(10), a.field_hashes(), payload_prefix(10), b.field_hashes());
        assert(a.field_hashes()[0] == b.field_hashes()[0] && a.field_hashes()[1] == b.field_hashes()[1] && a.field_hashes()[2] == b.field_hashes()[2]);
    }
    /// two levels chained: the notarized hash commits to the transaction-intent hash and all signature hashes
    pub proof fn lemma_notarized_hash_commits_deep(a: PreparedNotarizedTransactionV2, b: PreparedNotarizedTransactionV2)
        requires no_collision(a.payload_preimage(), b.payload_preimage()), no_collision(a.signed_intent.payload_preimage(), b.signed_intent.payload_preimage()),
            id_ok(a), id_ok(b), id_ok(a.signed_intent), id_ok(b.signed_intent), a.summary.hash == b.summary.hash
        ensures
            a.signed_intent.transaction_intent.summary.hash == b.signed_intent.transaction_intent.summary.hash,
            a.signed_intent.transaction_intent_signatures.summary.hash == b.signed_intent.transaction_intent_signatures.summary.hash,
            a.signed_intent.non_root_subintent_signatures.summary.hash == b.signed_intent.non_root_subintent_signatures.summary.hash,
            a.notary_signature.summary.hash == b.notary_signature.summary.hash,
    {
        lemma_notarized_hash_commits(a, b);
        lemma_signed_intent_hash_commits(a.signed_intent, b.signed_intent);
    }
    /// leaf level: the notary signature's identifier commits to every byte of its encoded body
    pub proof fn lemma_notary_signature_commits(a: PreparedNotarySignatureV2, ia: Seq<u8>, sa: int, ea: int, b: PreparedNotarySignatureV2, ib: Seq<u8>, sb: int, eb: int)
        requires no_collision(ia.subrange(sa, ea), ib.subrange(sb, eb)), a.body_rel(ia, sa, ea), b.body_rel(ib, sb, eb), a.summary.hash == b.summary.hash
        ensures ia.subrange(sa, ea) == ib.subrange(sb, eb)
    {}
    /// domain separation: a signed-intent identifier never equals a notarized-transaction identifier
    pub proof fn lemma_signed_vs_notarized_distinct(a: PreparedSignedTransactionIntentV2, b: PreparedNotarizedTransactionV2)
        requires no_collision(a.payload_preimage(), b.payload_preimage()), id_ok(a), id_ok(b)
        ensures a.summary.hash != b.summary.hash
    {
        lemma_signed_intent_preimage(a); lemma_notarized_preimage(b);
        if a.summary.hash == b.summary.hash { lemma_discriminator_separates(10, a.field_hashes(), 12, b.field_hashes()); }
    }
    /// canonical form of an accepted notarized payload: `4d 22 0c 02 ...` and nothing after the last field
    pub proof fn lemma_notarized_payload_shape(v: PreparedNotarizedTransactionV2, payload: Seq<u8>)
        requires payload.len() >= 1, payload[0] == 0x4d, tx_rel(v, payload, 1, payload.len() as int, ExpectedHeaderKind::EnumWithValueKind)
        ensures payload.len() >= 4, payload[1] == 0x22, payload[2] == 12, size_at(rest_of(payload, 3)) matches Some(p) && p.0 == 2
    {
        let h = ExpectedTupleHeader::EnumWithValueKind { discriminator: 12u8 };
        let r = rest_of(payload, 1);
        lemma_rest_shift(payload, 1, 0);
        assert(header_bytes(h) =~= seq![0x22u8, 12u8]);
        assert(header_bytes(h)[0] == r[0] && header_bytes(h)[1] == r[1]);
        lemma_rest_shift(payload, 1, 2);
    }

    /// CANONICITY of the value-kind byte for manifest SBOR: a byte announces at most one kind and every kind
    /// has exactly one byte (so "wrong value kind" is decided by one byte comparison)
    pub proof fn lemma_manifest_kind_bijection(k: ManifestValueKind, b: u8)
        ensures byte_kind::<ManifestCustomValueKind>(b) == Some(k) <==> kind_byte(k) == b
    {}

}
} // verus!
fn main() {}
