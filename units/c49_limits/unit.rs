// Unit c49_limits -- property C49 "Execution limits are enforced exactly"
// Real code: radix-engine/src/system/system_modules/limits/module.rs
//              LimitsModule::{new, from_params, config, process_substate_key, process_substate_value, process_io_access}
//              impl SystemModule for LimitsModule :: before_invoke (call depth + payload) and the ten kernel-event
//              handlers on_{drop_node, move_module, open_substate, read_substate, write_substate, set_substate,
//              remove_substate, scan_keys, drain_substates, scan_sorted_substates}   (NOT on_create_node: nested map loops)
//            radix-engine/src/track/interface.rs :: CanonicalSubstateKey::len (the measurement used by the byte counters)
//            radix-engine/src/kernel/kernel_api.rs :: KernelInvocation::len (the measurement of the invoke payload)
//            radix-engine/src/system/system_modules/module_mixer.rs :: SystemModuleMixer::{add_log, assert_can_add_event,
//              add_event_unchecked, checked_add_event, set_panic_message}  (log/event count+size, panic message size)
//            radix-engine/src/system/system_modules/transaction_runtime/module.rs :: TransactionRuntimeModule::{add_log, add_event}
use vstd::prelude::*;
verus! {
/*@include shims/rt.rs @*/
/*@include shims/maps.rs @*/

pub mod env {
    use vstd::prelude::*;
    // ---- String::len (vstd has no spec): the length in bytes of the UTF-8 encoding, uninterpreted.
    // (kept in this unit's env rather than in shims/ because shims/string_len.rs is owned by another unit)
    pub uninterp spec fn string_len(s: &String) -> usize;
    pub assume_specification [std::string::String::len] (s: &std::string::String) -> (r: usize)
        ensures r == string_len(s);
    // ---- key / value shapes (radix-common); only their structure as byte containers matters ----
    pub struct NodeId(pub [u8; 30]);
    impl NodeId {
        // ASSUMED shape of radix-common NodeId::as_bytes (`&self.0`, LENGTH = 30)
        pub fn as_bytes(&self) -> (r: &[u8]) ensures r@ == self.0@ { self.0.as_slice() }
    }
    pub struct PartitionNumber(pub u8);
    /*@item radix-common/src/types/node_and_substate.rs :: type FieldKey
    @*/
    /*@item radix-common/src/types/node_and_substate.rs :: type MapKey
    @*/
    /*@item radix-common/src/types/node_and_substate.rs :: type SortedKey
    @*/
    /*@item radix-common/src/types/node_and_substate.rs :: enum SubstateKey
    @derive
    @*/
    /// opaque: an SBOR value together with its encoded length
    #[verifier::external_body]
    pub struct IndexedScryptoValue { _p: () }
    impl IndexedScryptoValue {
        pub uninterp spec fn spec_len(&self) -> usize;
        #[verifier::external_body]
        pub fn len(&self) -> (r: usize) ensures r == self.spec_len() { unimplemented!() }
    }
    // ---- payload types of error variants that this unit never constructs (opaque) ----
    pub struct KernelError;
    pub struct SystemError;
    pub struct SystemUpstreamError;
    pub struct VmError;
    pub struct ApplicationError;
    pub struct CostingError;
    pub struct AuthError;
    pub struct EventError;

    // ---- module mixer environment ----------------------------------------------------------
    /// `bitflags! { pub struct EnabledModules: u32 { .. } }` -- ASSUMED: bitflags semantics of
    /// `contains` (all bits of `other` set). The two flag values are copied from the `bitflags!`
    /// invocation in module_mixer.rs (a macro invocation cannot be extracted); the contracts only
    /// depend on `spec_contains(..)`, not on the values.
    #[derive(Clone, Copy)]
    pub struct EnabledModules { pub bits: u32 }
    impl EnabledModules {
        pub const LIMITS: EnabledModules = EnabledModules { bits: 0x01 << 1 };
        pub const TRANSACTION_RUNTIME: EnabledModules = EnabledModules { bits: 0x01 << 5 };
        pub open spec fn spec_contains(&self, other: EnabledModules) -> bool { self.bits & other.bits == other.bits }
        #[verifier::external_body]
        pub fn contains(&self, other: EnabledModules) -> (r: bool) ensures r == self.spec_contains(other) { unimplemented!() }
    }
    pub struct KernelTraceModule;
    pub struct CostingModule;
    pub struct AuthModule;
    pub struct ExecutionTraceModule;
    pub struct NetworkDefinition;
    pub struct Hash;
    pub struct ModuleId;
    pub struct Level;
    pub struct EventTypeIdentifier;
    pub struct EventFlags;
    pub struct LockFlags;
    pub struct SubstateDevice;
    pub struct NodeSubstates;
    pub type SubstateHandle = u32;
    /*@item radix-engine/src/transaction/transaction_executor.rs :: struct LimitParameters
    @derive Clone, Copy
    @*/

    // ---- system-module API environment (radix-engine/src/system/module.rs) ------------------
    /// ASSUMED: `current_stack_depth_uncosted` reports the depth of the current call frame
    pub trait SystemModuleApi {
        spec fn depth(&self) -> usize;
        fn current_stack_depth_uncosted(&self) -> (r: usize) ensures r == self.depth();
    }
    /// ASSUMED: `module()` hands out the module state stored in the system, nothing else changes
    pub trait SystemModuleApiFor<M>: SystemModuleApi {
        spec fn module_view(&self) -> M;
        fn module(&mut self) -> (r: &mut M)
            ensures *r == old(self).module_view(),
                    final(self).module_view() == *final(r),
                    final(self).depth() == old(self).depth();
    }
    /// radix-engine/src/kernel/kernel_callback_api.rs :: trait CallFrameReferences (only `len` is used)
    pub trait CallFrameReferences {
        spec fn spec_len(&self) -> usize;
        fn len(&self) -> (r: usize) ensures r == self.spec_len();
    }
    /// opaque call-frame data of the system layer
    #[verifier::external_body]
    pub struct Actor { _p: () }
    impl CallFrameReferences for Actor {
        uninterp spec fn spec_len(&self) -> usize;
        #[verifier::external_body]
        fn len(&self) -> (r: usize) { unimplemented!() }
    }
}

pub mod unit {
    use vstd::prelude::*;
    use super::rt::*;
    use super::env::*;
    use super::maps::*;

    /*@item radix-engine/src/errors.rs :: enum RuntimeError
    @derive
    @*/
    /*@item radix-engine/src/errors.rs :: enum SystemModuleError
    @derive
    @*/
    /*@item radix-engine/src/system/system_modules/limits/module.rs :: enum TransactionLimitsError
    @derive
    @*/
    /*@item radix-engine/src/system/system_modules/limits/module.rs :: struct TransactionLimitsConfig
    @*/
    /*@item radix-engine/src/system/system_modules/limits/module.rs :: struct LimitsModule
    @*/
    /*@item radix-engine/src/track/interface.rs :: struct CanonicalSubstateKey
    @derive
    @*/
    /*@item radix-engine/src/track/interface.rs :: enum IOAccess
    @derive
    @*/

    // ------------------------------------------------------------------------------------------
    // Oracle, from the property: every limit is "fail  <==>  measured > configured".
    // ------------------------------------------------------------------------------------------
    pub open spec fn limit_err(e: TransactionLimitsError) -> RuntimeError {
        RuntimeError::SystemModuleError(SystemModuleError::TransactionLimitsError(e))
    }
    /// size of a substate key as counted against `max_substate_key_size`
    pub open spec fn key_size(k: SubstateKey) -> int {
        match k {
            SubstateKey::Field(_) => 1,
            SubstateKey::Map(m) => m@.len() as int,
            SubstateKey::Sorted(s) => s.1@.len() as int + 2,
        }
    }
    /// size of a canonical substate key as counted in the heap / track byte totals:
    /// node id (30) + partition number (1) + substate key
    pub open spec fn canonical_key_size(k: CanonicalSubstateKey) -> int {
        30 + 1 + key_size(k.substate_key)
    }
    pub open spec fn opt(o: Option<usize>) -> int { match o { Some(v) => v as int, None => 0 } }
    /// C49 byte-counter identity: total' = total + key*[new entry] - key*[removed] + new - old
    pub open spec fn updated_total(total: int, key: int, old_size: Option<usize>, new_size: Option<usize>) -> int {
        total + (if old_size is None { key } else { 0 }) - (if new_size is None { key } else { 0 }) + opt(new_size) - opt(old_size)
    }
    /// what the caller (Track / Heap) guarantees: an entry reported with `old_size == Some(o)` is
    /// currently accounted for in the total with its key and its `o` value bytes.
    pub open spec fn accounted(total: int, key: int, old_size: Option<usize>) -> bool {
        old_size matches Some(o) ==> total >= key + o
    }
    pub open spec fn heap_after(m: LimitsModule, a: IOAccess) -> int {
        match a {
            IOAccess::HeapSubstateUpdated { canonical_substate_key, old_size, new_size } =>
                updated_total(m.heap_substate_total_bytes as int, canonical_key_size(canonical_substate_key), old_size, new_size),
            _ => m.heap_substate_total_bytes as int,
        }
    }
    pub open spec fn track_after(m: LimitsModule, a: IOAccess) -> int {
        match a {
            IOAccess::TrackSubstateUpdated { canonical_substate_key, old_size, new_size } =>
                updated_total(m.track_substate_total_bytes as int, canonical_key_size(canonical_substate_key), old_size, new_size),
            _ => m.track_substate_total_bytes as int,
        }
    }
    pub open spec fn io_pre(m: LimitsModule, a: IOAccess) -> bool {
        match a {
            IOAccess::HeapSubstateUpdated { canonical_substate_key, old_size, new_size } => {
                &&& accounted(m.heap_substate_total_bytes as int, canonical_key_size(canonical_substate_key), old_size)
                &&& m.heap_substate_total_bytes + canonical_key_size(canonical_substate_key) + opt(new_size) <= usize::MAX
            },
            IOAccess::TrackSubstateUpdated { canonical_substate_key, old_size, new_size } => {
                &&& accounted(m.track_substate_total_bytes as int, canonical_key_size(canonical_substate_key), old_size)
                &&& m.track_substate_total_bytes + canonical_key_size(canonical_substate_key) + opt(new_size) <= usize::MAX
            },
            _ => true,
        }
    }

    /*@item radix-engine/src/kernel/kernel_api.rs :: struct KernelInvocation
    @derive
    @*/
    /*@item radix-engine/src/system/system_modules/transaction_runtime/module.rs :: struct Event
    @derive
    @*/
    /*@item radix-engine/src/system/system_modules/transaction_runtime/module.rs :: struct TransactionRuntimeModule
    @derive
    @*/
    /*@item radix-engine/src/system/system_modules/module_mixer.rs :: struct SystemModuleMixer
    @*/

    /// the full contract of one heap/track accounting step (C49): the counters follow the
    /// identity, nothing else changes, and the step fails iff a counter now exceeds its limit
    pub open spec fn io_result(m: LimitsModule, a: IOAccess, m2: LimitsModule, ret: Result<(), RuntimeError>) -> bool {
        &&& m2.config == m.config
        &&& m2.heap_substate_total_bytes == heap_after(m, a)
        &&& m2.track_substate_total_bytes == track_after(m, a)
        &&& (ret is Ok <==> (heap_after(m, a) <= m.config.max_heap_substate_total_bytes
                          && track_after(m, a) <= m.config.max_track_substate_total_bytes))
        &&& (ret matches Err(e) ==> e == (if heap_after(m, a) > m.config.max_heap_substate_total_bytes {
                limit_err(TransactionLimitsError::HeapSubstateSizeExceeded {
                    actual: heap_after(m, a) as usize, max: m.config.max_heap_substate_total_bytes })
            } else {
                limit_err(TransactionLimitsError::TrackSubstateSizeExceeded {
                    actual: track_after(m, a) as usize, max: m.config.max_track_substate_total_bytes })
            }))
    }
    pub open spec fn key_result(m: LimitsModule, k: SubstateKey, ret: Result<(), RuntimeError>) -> bool {
        &&& (ret is Ok <==> key_size(k) <= m.config.max_substate_key_size)
        &&& (ret matches Err(e) ==> e == limit_err(TransactionLimitsError::MaxSubstateKeySizeExceeded(key_size(k) as usize)))
    }
    pub open spec fn value_result(m: LimitsModule, v: IndexedScryptoValue, ret: Result<(), RuntimeError>) -> bool {
        &&& (ret is Ok <==> v.spec_len() <= m.config.max_substate_value_size)
        &&& (ret matches Err(e) ==> e == limit_err(TransactionLimitsError::MaxSubstateSizeExceeded(v.spec_len())))
    }
    /// entry-wise reading of the identity: an entry contributes key + value bytes while it exists
    pub open spec fn entry_bytes(key: int, size: Option<usize>) -> int { match size { Some(s) => key + s, None => 0 } }
    pub proof fn lemma_identity_is_entry_delta(total: int, key: int, old_size: Option<usize>, new_size: Option<usize>)
        ensures updated_total(total, key, old_size, new_size) == total - entry_bytes(key, old_size) + entry_bytes(key, new_size),
                accounted(total, key, old_size) <==> total >= entry_bytes(key, old_size) || (old_size is None && total < 0),
                (accounted(total, key, old_size) && total >= 0 && key >= 0) ==> updated_total(total, key, old_size, new_size) >= 0,
    {}

    /*@item radix-engine/src/kernel/kernel_callback_api.rs :: enum DropNodeEvent
    @derive
    @*/
    /*@item radix-engine/src/kernel/kernel_callback_api.rs :: enum MoveModuleEvent
    @derive
    @*/
    /*@item radix-engine/src/kernel/kernel_callback_api.rs :: enum OpenSubstateEvent
    @derive
    @*/
    /*@item radix-engine/src/kernel/kernel_callback_api.rs :: enum ReadSubstateEvent
    @derive
    @*/
    /*@item radix-engine/src/kernel/kernel_callback_api.rs :: enum WriteSubstateEvent
    @derive
    @*/
    /*@item radix-engine/src/kernel/kernel_callback_api.rs :: enum SetSubstateEvent
    @derive
    @*/
    /*@item radix-engine/src/kernel/kernel_callback_api.rs :: enum RemoveSubstateEvent
    @derive
    @*/
    /*@item radix-engine/src/kernel/kernel_callback_api.rs :: enum ScanKeysEvent
    @derive
    @*/
    /*@item radix-engine/src/kernel/kernel_callback_api.rs :: enum DrainSubstatesEvent
    @derive
    @*/
    /*@item radix-engine/src/kernel/kernel_callback_api.rs :: enum ScanSortedSubstatesEvent
    @derive
    @*/

    impl CanonicalSubstateKey {
        /*@fn radix-engine/src/track/interface.rs :: impl CanonicalSubstateKey :: fn len
        @sig
            requires canonical_key_size(*self) <= usize::MAX
            ensures ret == canonical_key_size(*self)
        @*/
    }

    impl LimitsModule {
        /*@fn radix-engine/src/system/system_modules/limits/module.rs :: impl LimitsModule :: fn new
        @sig
            ensures ret.config == limits_config, ret.heap_substate_total_bytes == 0, ret.track_substate_total_bytes == 0
        @*/
        /*@fn radix-engine/src/system/system_modules/limits/module.rs :: impl LimitsModule :: fn from_params
        @sig
            ensures
                ret.heap_substate_total_bytes == 0, ret.track_substate_total_bytes == 0,
                ret.config.max_call_depth == limit_parameters.max_call_depth,
                ret.config.max_heap_substate_total_bytes == limit_parameters.max_heap_substate_total_bytes,
                ret.config.max_track_substate_total_bytes == limit_parameters.max_track_substate_total_bytes,
                ret.config.max_substate_key_size == limit_parameters.max_substate_key_size,
                ret.config.max_substate_value_size == limit_parameters.max_substate_value_size,
                ret.config.max_invoke_payload_size == limit_parameters.max_invoke_input_size,
                ret.config.max_event_size == limit_parameters.max_event_size,
                ret.config.max_log_size == limit_parameters.max_log_size,
                ret.config.max_panic_message_size == limit_parameters.max_panic_message_size,
                ret.config.max_number_of_logs == limit_parameters.max_number_of_logs,
                ret.config.max_number_of_events == limit_parameters.max_number_of_events,
        @*/
        /*@fn radix-engine/src/system/system_modules/limits/module.rs :: impl LimitsModule :: fn config
        @sig
            ensures *ret == self.config
        @*/
        /*@fn radix-engine/src/system/system_modules/limits/module.rs :: impl LimitsModule :: fn process_substate_key
        @sig
            requires key_size(*substate_key) <= usize::MAX
            ensures key_result(*self, *substate_key, ret)
        @*/
        /*@fn radix-engine/src/system/system_modules/limits/module.rs :: impl LimitsModule :: fn process_substate_value
        @sig
            ensures value_result(*self, *value, ret)
        @*/
        /*@fn radix-engine/src/system/system_modules/limits/module.rs :: impl LimitsModule :: fn process_io_access
        @sig
            requires io_pre(*old(self), *io_access)
            ensures io_result(*old(self), *io_access, *final(self), ret)
        @*/
    }

    // ------------------------------------------------------------------------------------------
    // Call depth and invocation payload (LimitsModule as SystemModule :: before_invoke)
    // ------------------------------------------------------------------------------------------
    pub open spec fn invocation_size(i: KernelInvocation<Actor>) -> int { i.call_frame_data.spec_len() + i.args.spec_len() }

    impl<C: CallFrameReferences> KernelInvocation<C> {
        /*@fn radix-engine/src/kernel/kernel_api.rs :: impl<C: CallFrameReferences> KernelInvocation<C> :: fn len
        @sig
            requires self.call_frame_data.spec_len() + self.args.spec_len() <= usize::MAX
            ensures ret == self.call_frame_data.spec_len() + self.args.spec_len()
        @*/
    }

    pub trait SystemModule<ModuleApi: SystemModuleApiFor<Self>>: Sized {
        /// the accounting precondition of the implementing module (for LimitsModule: `io_pre`)
        spec fn module_io_pre(m: Self, a: IOAccess) -> bool;
        fn before_invoke(api: &mut ModuleApi, invocation: &KernelInvocation<Actor>) -> (ret: Result<(), RuntimeError>)
            requires invocation_size(*invocation) <= usize::MAX;
        // kernel-event handlers: the preconditions are those of the check the event is routed to
        fn on_drop_node(api: &mut ModuleApi, event: &DropNodeEvent) -> (ret: Result<(), RuntimeError>)
            requires event matches DropNodeEvent::IOAccess(a) ==> Self::module_io_pre(api.module_view(), **a);
        fn on_move_module(api: &mut ModuleApi, event: &MoveModuleEvent) -> (ret: Result<(), RuntimeError>)
            requires event matches MoveModuleEvent::IOAccess(a) ==> Self::module_io_pre(api.module_view(), **a);
        fn on_open_substate(api: &mut ModuleApi, event: &OpenSubstateEvent) -> (ret: Result<(), RuntimeError>)
            requires event matches OpenSubstateEvent::IOAccess(a) ==> Self::module_io_pre(api.module_view(), **a),
                     event matches OpenSubstateEvent::Start { substate_key, .. } ==> key_size(**substate_key) <= usize::MAX;
        fn on_read_substate(api: &mut ModuleApi, event: &ReadSubstateEvent) -> (ret: Result<(), RuntimeError>)
            requires event matches ReadSubstateEvent::IOAccess(a) ==> Self::module_io_pre(api.module_view(), **a);
        fn on_write_substate(api: &mut ModuleApi, event: &WriteSubstateEvent) -> (ret: Result<(), RuntimeError>)
            requires event matches WriteSubstateEvent::IOAccess(a) ==> Self::module_io_pre(api.module_view(), **a);
        fn on_set_substate(api: &mut ModuleApi, event: &SetSubstateEvent) -> (ret: Result<(), RuntimeError>)
            requires event matches SetSubstateEvent::IOAccess(a) ==> Self::module_io_pre(api.module_view(), **a),
                     event matches SetSubstateEvent::Start(_, _, k, _) ==> key_size(**k) <= usize::MAX;
        fn on_remove_substate(api: &mut ModuleApi, event: &RemoveSubstateEvent) -> (ret: Result<(), RuntimeError>)
            requires event matches RemoveSubstateEvent::IOAccess(a) ==> Self::module_io_pre(api.module_view(), **a),
                     event matches RemoveSubstateEvent::Start(_, _, k) ==> key_size(**k) <= usize::MAX;
        fn on_scan_keys(api: &mut ModuleApi, event: &ScanKeysEvent) -> (ret: Result<(), RuntimeError>)
            requires event matches ScanKeysEvent::IOAccess(a) ==> Self::module_io_pre(api.module_view(), **a);
        fn on_drain_substates(api: &mut ModuleApi, event: &DrainSubstatesEvent) -> (ret: Result<(), RuntimeError>)
            requires event matches DrainSubstatesEvent::IOAccess(a) ==> Self::module_io_pre(api.module_view(), **a);
        fn on_scan_sorted_substates(api: &mut ModuleApi, event: &ScanSortedSubstatesEvent) -> (ret: Result<(), RuntimeError>)
            requires event matches ScanSortedSubstatesEvent::IOAccess(a) ==> Self::module_io_pre(api.module_view(), **a);
    }

    impl<ModuleApi: SystemModuleApiFor<Self>> SystemModule<ModuleApi> for LimitsModule {
        open spec fn module_io_pre(m: LimitsModule, a: IOAccess) -> bool { io_pre(m, a) }
        /*@fn radix-engine/src/system/system_modules/limits/module.rs :: impl<ModuleApi: SystemModuleApiFor<Self>> SystemModule<ModuleApi> for LimitsModule :: fn before_invoke
        @sig
            ensures
                final(api).module_view() == old(api).module_view(),
                final(api).depth() == old(api).depth(),
                // C49, under the depth invariant `depth <= max` (inductive: depth grows by one per
                // successful invoke, and this check is what lets it grow): the call is let through iff the
                // frame it creates (depth + 1) does not exceed the configured depth and the payload fits
                old(api).depth() <= old(api).module_view().config.max_call_depth ==> {
                    &&& (ret is Ok <==> (old(api).depth() + 1 <= old(api).module_view().config.max_call_depth
                                     && invocation_size(*invocation) <= old(api).module_view().config.max_invoke_payload_size))
                    &&& (ret matches Err(e) ==> e == (if old(api).depth() + 1 > old(api).module_view().config.max_call_depth {
                            limit_err(TransactionLimitsError::MaxCallDepthLimitReached)
                        } else {
                            limit_err(TransactionLimitsError::MaxInvokePayloadSizeExceeded(invocation_size(*invocation) as usize))
                        }))
                },
        @*/

        // ---- kernel events routed to the checks (every handler except on_create_node) ----
        /*@fn radix-engine/src/system/system_modules/limits/module.rs :: impl<ModuleApi: SystemModuleApiFor<Self>> SystemModule<ModuleApi> for LimitsModule :: fn on_drop_node
        @sig
            ensures
                final(api).depth() == old(api).depth(),
                match *event {
                    DropNodeEvent::IOAccess(a) => io_result(old(api).module_view(), *a, final(api).module_view(), ret),
                    DropNodeEvent::Start(..) => final(api).module_view() == old(api).module_view() && ret is Ok,
                    DropNodeEvent::End(..) => final(api).module_view() == old(api).module_view() && ret is Ok,
                },
        @*/
        /*@fn radix-engine/src/system/system_modules/limits/module.rs :: impl<ModuleApi: SystemModuleApiFor<Self>> SystemModule<ModuleApi> for LimitsModule :: fn on_move_module
        @sig
            ensures
                final(api).depth() == old(api).depth(),
                match *event {
                    MoveModuleEvent::IOAccess(a) => io_result(old(api).module_view(), *a, final(api).module_view(), ret),
                },
        @*/
        /*@fn radix-engine/src/system/system_modules/limits/module.rs :: impl<ModuleApi: SystemModuleApiFor<Self>> SystemModule<ModuleApi> for LimitsModule :: fn on_open_substate
        @sig
            ensures
                final(api).depth() == old(api).depth(),
                match *event {
                    OpenSubstateEvent::IOAccess(a) => io_result(old(api).module_view(), *a, final(api).module_view(), ret),
                    OpenSubstateEvent::Start { substate_key, .. } => final(api).module_view() == old(api).module_view() && key_result(old(api).module_view(), *substate_key, ret),
                    OpenSubstateEvent::End { .. } => final(api).module_view() == old(api).module_view() && ret is Ok,
                },
        @*/
        /*@fn radix-engine/src/system/system_modules/limits/module.rs :: impl<ModuleApi: SystemModuleApiFor<Self>> SystemModule<ModuleApi> for LimitsModule :: fn on_read_substate
        @sig
            ensures
                final(api).depth() == old(api).depth(),
                match *event {
                    ReadSubstateEvent::IOAccess(a) => io_result(old(api).module_view(), *a, final(api).module_view(), ret),
                    ReadSubstateEvent::OnRead { .. } => final(api).module_view() == old(api).module_view() && ret is Ok,
                },
        @*/
        /*@fn radix-engine/src/system/system_modules/limits/module.rs :: impl<ModuleApi: SystemModuleApiFor<Self>> SystemModule<ModuleApi> for LimitsModule :: fn on_write_substate
        @sig
            ensures
                final(api).depth() == old(api).depth(),
                match *event {
                    WriteSubstateEvent::IOAccess(a) => io_result(old(api).module_view(), *a, final(api).module_view(), ret),
                    WriteSubstateEvent::Start { value, .. } => final(api).module_view() == old(api).module_view() && value_result(old(api).module_view(), *value, ret),
                },
        @*/
        /*@fn radix-engine/src/system/system_modules/limits/module.rs :: impl<ModuleApi: SystemModuleApiFor<Self>> SystemModule<ModuleApi> for LimitsModule :: fn on_set_substate
        @sig
            ensures
                final(api).depth() == old(api).depth(),
                match *event {
                    SetSubstateEvent::IOAccess(a) => io_result(old(api).module_view(), *a, final(api).module_view(), ret),
                    SetSubstateEvent::Start(_, _, k, v) => final(api).module_view() == old(api).module_view() && {
                        let m = old(api).module_view();
                        &&& (ret is Ok <==> key_size(*k) <= m.config.max_substate_key_size && v.spec_len() <= m.config.max_substate_value_size)
                        &&& (ret matches Err(e) ==> e == (if key_size(*k) > m.config.max_substate_key_size {
                                limit_err(TransactionLimitsError::MaxSubstateKeySizeExceeded(key_size(*k) as usize))
                            } else { limit_err(TransactionLimitsError::MaxSubstateSizeExceeded(v.spec_len())) }))
                    },
                },
        @*/
        /*@fn radix-engine/src/system/system_modules/limits/module.rs :: impl<ModuleApi: SystemModuleApiFor<Self>> SystemModule<ModuleApi> for LimitsModule :: fn on_remove_substate
        @sig
            ensures
                final(api).depth() == old(api).depth(),
                match *event {
                    RemoveSubstateEvent::IOAccess(a) => io_result(old(api).module_view(), *a, final(api).module_view(), ret),
                    RemoveSubstateEvent::Start(_, _, k) => final(api).module_view() == old(api).module_view() && key_result(old(api).module_view(), *k, ret),
                },
        @*/
        /*@fn radix-engine/src/system/system_modules/limits/module.rs :: impl<ModuleApi: SystemModuleApiFor<Self>> SystemModule<ModuleApi> for LimitsModule :: fn on_scan_keys
        @sig
            ensures
                final(api).depth() == old(api).depth(),
                match *event {
                    ScanKeysEvent::IOAccess(a) => io_result(old(api).module_view(), *a, final(api).module_view(), ret),
                    ScanKeysEvent::Start => final(api).module_view() == old(api).module_view() && ret is Ok,
                },
        @*/
        /*@fn radix-engine/src/system/system_modules/limits/module.rs :: impl<ModuleApi: SystemModuleApiFor<Self>> SystemModule<ModuleApi> for LimitsModule :: fn on_drain_substates
        @sig
            ensures
                final(api).depth() == old(api).depth(),
                match *event {
                    DrainSubstatesEvent::IOAccess(a) => io_result(old(api).module_view(), *a, final(api).module_view(), ret),
                    DrainSubstatesEvent::Start(_) => final(api).module_view() == old(api).module_view() && ret is Ok,
                },
        @*/
        /*@fn radix-engine/src/system/system_modules/limits/module.rs :: impl<ModuleApi: SystemModuleApiFor<Self>> SystemModule<ModuleApi> for LimitsModule :: fn on_scan_sorted_substates
        @sig
            ensures
                final(api).depth() == old(api).depth(),
                match *event {
                    ScanSortedSubstatesEvent::IOAccess(a) => io_result(old(api).module_view(), *a, final(api).module_view(), ret),
                    ScanSortedSubstatesEvent::Start => final(api).module_view() == old(api).module_view() && ret is Ok,
                },
        @*/
    }

    // ------------------------------------------------------------------------------------------
    // Logs, events, panic message (SystemModuleMixer)
    // ------------------------------------------------------------------------------------------
    pub open spec fn limits_on(m: SystemModuleMixer) -> bool { m.enabled_modules.spec_contains(EnabledModules::LIMITS) }
    pub open spec fn runtime_on(m: SystemModuleMixer) -> bool { m.enabled_modules.spec_contains(EnabledModules::TRANSACTION_RUNTIME) }

    impl TransactionRuntimeModule {
        /*@fn radix-engine/src/system/system_modules/transaction_runtime/module.rs :: impl TransactionRuntimeModule :: fn add_log
        @sig
            ensures final(self).logs@ == old(self).logs@.push((level, message)), final(self).events == old(self).events
        @*/
        /*@fn radix-engine/src/system/system_modules/transaction_runtime/module.rs :: impl TransactionRuntimeModule :: fn add_event
        @sig
            ensures final(self).events@ == old(self).events@.push(event), final(self).logs == old(self).logs
        @*/
    }

    impl SystemModuleMixer {
        /*@fn radix-engine/src/system/system_modules/module_mixer.rs :: impl SystemModuleMixer :: fn add_log
        @sig
            ensures
                final(self).limits == old(self).limits, final(self).enabled_modules == old(self).enabled_modules,
                final(self).transaction_runtime.events == old(self).transaction_runtime.events,
                // a log is refused iff it would make the count exceed the limit, or it is too long
                ret is Ok <==> !limits_on(*old(self)) ||
                    (old(self).transaction_runtime.logs@.len() + 1 <= old(self).limits.config.max_number_of_logs
                     && string_len(&message) <= old(self).limits.config.max_log_size),
                ret matches Err(e) ==> e == (if old(self).transaction_runtime.logs@.len() + 1 > old(self).limits.config.max_number_of_logs {
                        limit_err(TransactionLimitsError::TooManyLogs)
                    } else {
                        limit_err(TransactionLimitsError::LogSizeTooLarge { actual: string_len(&message), max: old(self).limits.config.max_log_size })
                    }),
                final(self).transaction_runtime.logs@ == (if ret is Ok && runtime_on(*old(self)) {
                        old(self).transaction_runtime.logs@.push((level, message))
                    } else { old(self).transaction_runtime.logs@ }),
        @*/
        /*@fn radix-engine/src/system/system_modules/module_mixer.rs :: impl SystemModuleMixer :: fn assert_can_add_event
        @sig
            ensures
                *final(self) == *old(self),
                ret is Ok <==> !limits_on(*old(self)) ||
                    old(self).transaction_runtime.events@.len() + 1 <= old(self).limits.config.max_number_of_events,
                ret matches Err(e) ==> e == limit_err(TransactionLimitsError::TooManyEvents),
        @*/
        /*@fn radix-engine/src/system/system_modules/module_mixer.rs :: impl SystemModuleMixer :: fn add_event_unchecked
        @sig
            ensures
                final(self).limits == old(self).limits, final(self).enabled_modules == old(self).enabled_modules,
                final(self).transaction_runtime.logs == old(self).transaction_runtime.logs,
                ret is Ok <==> !limits_on(*old(self)) || event.payload@.len() <= old(self).limits.config.max_event_size,
                ret matches Err(e) ==> e == limit_err(TransactionLimitsError::EventSizeTooLarge {
                        actual: event.payload@.len() as usize, max: old(self).limits.config.max_event_size }),
                final(self).transaction_runtime.events@ == (if ret is Ok && runtime_on(*old(self)) {
                        old(self).transaction_runtime.events@.push(event)
                    } else { old(self).transaction_runtime.events@ }),
        @*/
        /*@fn radix-engine/src/system/system_modules/module_mixer.rs :: impl SystemModuleMixer :: fn checked_add_event
        @sig
            ensures
                final(self).limits == old(self).limits, final(self).enabled_modules == old(self).enabled_modules,
                final(self).transaction_runtime.logs == old(self).transaction_runtime.logs,
                ret is Ok <==> !limits_on(*old(self)) ||
                    (old(self).transaction_runtime.events@.len() + 1 <= old(self).limits.config.max_number_of_events
                     && event.payload@.len() <= old(self).limits.config.max_event_size),
                ret matches Err(e) ==> e == (if old(self).transaction_runtime.events@.len() + 1 > old(self).limits.config.max_number_of_events {
                        limit_err(TransactionLimitsError::TooManyEvents)
                    } else {
                        limit_err(TransactionLimitsError::EventSizeTooLarge {
                            actual: event.payload@.len() as usize, max: old(self).limits.config.max_event_size })
                    }),
                final(self).transaction_runtime.events@ == (if ret is Ok && runtime_on(*old(self)) {
                        old(self).transaction_runtime.events@.push(event)
                    } else { old(self).transaction_runtime.events@ }),
        @*/
        /*@fn radix-engine/src/system/system_modules/module_mixer.rs :: impl SystemModuleMixer :: fn set_panic_message
        @sig
            ensures
                *final(self) == *old(self),
                ret is Ok <==> !limits_on(*old(self)) || string_len(&message) <= old(self).limits.config.max_panic_message_size,
                ret matches Err(e) ==> e == limit_err(TransactionLimitsError::PanicMessageSizeTooLarge {
                        actual: string_len(&message), max: old(self).limits.config.max_panic_message_size }),
        @*/
    }
}
} // verus!
fn main() {}
