// Unit c06_fee_reserve -- property C06 "Fees are fully paid and exactly distributed" (reserve side)
// Real code: radix-engine/src/system/system_modules/costing/fee_reserve.rs
//              free fns checked_add / checked_add_assign, every method of SystemLoanFeeReserve (inherent and
//              the PreExecutionFeeReserve / ExecutionFeeReserve / FinalizingFeeReserve impls, placed in one
//              inherent impl here: static dispatch, same bodies),
//            radix-transactions/src/model/execution/executable_common.rs :: TipSpecifier::{basis_points, proportion, fee_multiplier},
//            radix-common/src/types/royalty_amount.rs :: RoyaltyAmount::{is_zero, is_negative}.
// Amounts are integers counting attos (Decimal::v()).  The unit ends with the BRIDGE obligation of the
// property text (reserve deduction == cost reported by finalize()), stated twice: with the weakest
// parameter precondition (verifies) and without it (lemma_bridge_all_prices_KNOWN_FINDING: EXPECTED TO FAIL).
use vstd::prelude::*;
// `dec!(0.01)` / `dec!(0.0001)` (radix-common-derive proc macro, cannot be expanded here): ASSUMED to be the
// constants 10^16 / 10^14 attos (shims/decimal_c06.rs).  Only these two literals occur in the extracted code.
macro_rules! dec { (0.01) => { dec_lit_0_01() }; (0.0001) => { dec_lit_0_0001() }; }
verus! {
/*@include shims/rt.rs @*/
/*@include shims/decimal.rs @*/
/*@include shims/bigint.rs @*/
/*@include shims/decimal_c06.rs @*/
/*@include shims/maps.rs @*/
/*@include shims/maps_c06.rs @*/

pub mod env {
    use vstd::prelude::*;
    use super::decimal::*;
    use super::decimal::Decimal;
    // ---- identifiers: opaque plain data ----
    #[derive(Clone, Copy)]
    pub struct NodeId(pub [u8; 30]);
    #[derive(Clone, Copy)]
    pub struct PackageAddress(pub NodeId);
    #[derive(Clone, Copy)]
    pub struct ComponentAddress(pub NodeId);

    /// radix-engine-interface resource.rs :: LiquidFungibleResource.  ASSUMED here; exactly these two
    /// contracts are PROVED on the real type by unit c03_resource_containers.
    pub struct LiquidFungibleResource { pub amount: Decimal }
    impl LiquidFungibleResource {
        #[verifier::external_body]
        pub fn amount(&self) -> (r: Decimal) ensures r == self.amount { unimplemented!() }
        #[verifier::external_body]
        pub fn take_all(&mut self) -> (r: LiquidFungibleResource)
            ensures r.amount == old(self).amount, final(self).amount.v() == 0
        { unimplemented!() }
    }
}

pub mod unit {
    use vstd::prelude::*;
    use core::ops::AddAssign;
    use super::rt::*;
    use super::decimal::*;
    use super::decimal::Decimal;
    use super::bigint::I192;
    use super::bigint::group_i192;
    use super::decimal_c06::*;
    use super::maps::*;
    use super::maps_c06::*;
    use super::env::*;
    // NOTE: group_decimal minus ax_dec_ext.  The extensionality axiom (v() injective) has the two-trigger
    // pattern {a.v(), b.v()} and is instantiated quadratically in the number of Decimal terms (96% of all
    // instantiations with this 15-Decimal-field struct); it is called explicitly where it is needed.
    broadcast use {ax_dec_range, ax_dec_of, ax_dec_consts, group_i192, group_decimal_c06, group_maps_c06};

    // ---- plain data of the real crates (verbatim) -------------------------------------------------
    /*@item radix-engine/src/transaction/transaction_receipt.rs :: enum AbortReason
    @derive
    @*/
    /*@item radix-common/src/types/royalty_amount.rs :: enum RoyaltyAmount
    @derive
    @*/
    /*@item radix-engine/src/transaction/transaction_executor.rs :: struct CostingParameters
    @derive
    @*/
    /*@item radix-transactions/src/model/execution/executable_common.rs :: enum TipSpecifier
    @derive Clone, Copy
    @*/
    /*@item radix-transactions/src/model/execution/executable_common.rs :: struct TransactionCostingParameters
    @derive
    @*/
    /*@item radix-engine/src/system/system_modules/costing/fee_reserve.rs :: enum FeeReserveError
    @derive
    @*/
    /*@item radix-engine/src/system/system_modules/costing/fee_reserve.rs :: enum StorageType
    @derive Clone, Copy
    @*/
    /*@item radix-engine/src/system/system_modules/costing/fee_reserve.rs :: enum RoyaltyRecipient
    @derive
    @*/
    /*@item radix-engine/src/system/system_modules/costing/fee_reserve.rs :: struct SystemLoanFeeReserve
    @derive
    @*/
    /*@item radix-engine/src/system/system_modules/costing/fee_summary.rs :: struct FeeReserveFinalizationSummary
    @derive
    @*/
    pub type R = SystemLoanFeeReserve;

    // ==========================================================================================
    // ORACLE, part 1: tips.  A tip of b basis points is the proportion b / 10_000 = b * 10^14 attos;
    // a percentage p is 100 p basis points.  fee multiplier = 1 + proportion.
    // ==========================================================================================
    pub open spec fn e14() -> int { 100_000_000_000_000 }
    pub open spec fn tip_bp(t: TipSpecifier) -> int {
        match t { TipSpecifier::None => 0, TipSpecifier::Percentage(p) => p as int * 100, TipSpecifier::BasisPoints(b) => b as int }
    }
    pub open spec fn tip_prop(t: TipSpecifier) -> int { tip_bp(t) * e14() }
    pub open spec fn tip_mult(t: TipSpecifier) -> int { one18() + tip_prop(t) }

    impl TipSpecifier {
        /*@fn radix-transactions/src/model/execution/executable_common.rs :: impl TipSpecifier :: fn basis_points
        @sig
            ensures ret as int == tip_bp(*self)
        @*/
        /*@fn radix-transactions/src/model/execution/executable_common.rs :: impl TipSpecifier :: fn proportion
        @sig
            ensures ret.v() == tip_prop(*self), 0 <= ret.v() <= 0xffff_ffff * e14()
        @*/
        /*@fn radix-transactions/src/model/execution/executable_common.rs :: impl TipSpecifier :: fn fee_multiplier
        @sig
            ensures ret.v() == one18() + tip_prop(*self), ret.v() == tip_mult(*self), ret.v() >= one18()
        @*/
    }

    impl RoyaltyAmount {
        /*@fn radix-common/src/types/royalty_amount.rs :: impl RoyaltyAmount :: fn is_zero
        @sig
            ensures ret == (ra_raw(*self) == 0)
        @*/
        /*@fn radix-common/src/types/royalty_amount.rs :: impl RoyaltyAmount :: fn is_negative
        @sig
            ensures ret == (ra_raw(*self) < 0)
        @*/
    }
    /// the number carried by a royalty amount (XRD or USD attos; Free = 0)
    pub open spec fn ra_raw(a: RoyaltyAmount) -> int {
        match a { RoyaltyAmount::Free => 0, RoyaltyAmount::Xrd(x) => x.v(), RoyaltyAmount::Usd(x) => x.v() }
    }

    // ==========================================================================================
    // ORACLE, part 2: the reserve.
    // ==========================================================================================
    pub open spec fn params_ok(cp: CostingParameters, tp: TransactionCostingParameters) -> bool {
        &&& cp.execution_cost_unit_price.v() >= 0
        &&& cp.finalization_cost_unit_price.v() >= 0
        &&& cp.usd_price.v() >= 0
        &&& cp.state_storage_price.v() >= 0
        &&& cp.archive_storage_price.v() >= 0
        &&& tp.free_credit_in_xrd.v() >= 0
    }
    /// what the reserve holds or has booked as paid: never more than a Decimal can represent
    pub open spec fn headroom(r: R) -> int {
        r.xrd_balance.v() + r.royalty_cost_committed.v() + r.storage_cost_committed.v()
    }
    /// STRUCT INVARIANT (DESIGN C06)
    pub open spec fn inv(r: R) -> bool {
        &&& params_ok(r.costing_parameters, r.transaction_costing_parameters)
        &&& r.effective_execution_cost_unit_price.v()
                == dec_mul(r.costing_parameters.execution_cost_unit_price.v(), tip_mult(r.transaction_costing_parameters.tip))
        &&& r.effective_finalization_cost_unit_price.v()
                == dec_mul(r.costing_parameters.finalization_cost_unit_price.v(), tip_mult(r.transaction_costing_parameters.tip))
        &&& r.effective_execution_cost_unit_price.v() >= 0
        &&& r.effective_finalization_cost_unit_price.v() >= 0
        &&& r.xrd_balance.v() >= 0
        &&& r.xrd_owed.v() >= 0
        &&& r.execution_cost_units_committed <= r.costing_parameters.execution_cost_unit_limit
        &&& r.finalization_cost_units_committed <= r.costing_parameters.finalization_cost_unit_limit
        &&& r.royalty_cost_committed.v() >= 0
        &&& r.storage_cost_committed.v() >= 0
        &&& in_dec(headroom(r))
        &&& forall|k: RoyaltyRecipient| #[trigger] r.royalty_cost_breakdown@.contains_key(k) ==>
                0 <= r.royalty_cost_breakdown@[k].v() <= r.royalty_cost_committed.v()
        &&& r.royalty_cost_committed.v() == map_sum(r.royalty_cost_breakdown@)
    }

    /// sum of the royalty breakdown (the map is finite)
    pub open spec fn map_sum(m: Map<RoyaltyRecipient, Decimal>) -> int
        decreases m.dom().len()
        via map_sum_decreases
    {
        if m.dom().len() == 0 { 0 } else {
            let k = m.dom().choose();
            m[k].v() + map_sum(m.remove(k))
        }
    }
    #[via_fn]
    proof fn map_sum_decreases(m: Map<RoyaltyRecipient, Decimal>) {
        if m.dom().len() != 0 {
            let k = m.dom().choose();
            assert(m.dom().contains(k)) by { if m.dom() =~= Set::<RoyaltyRecipient>::empty() {} }
            assert(m.remove(k).dom() =~= m.dom().remove(k));
        }
    }
    pub proof fn lemma_map_sum_empty()
        ensures map_sum(Map::<RoyaltyRecipient, Decimal>::empty()) == 0
    {
        assert(Map::<RoyaltyRecipient, Decimal>::empty().dom() =~= Set::<RoyaltyRecipient>::empty());
    }
    /// the sum does not depend on the order in which entries are picked
    pub proof fn lemma_map_sum_remove(m: Map<RoyaltyRecipient, Decimal>, k: RoyaltyRecipient)
        requires m.contains_key(k)
        ensures map_sum(m) == m[k].v() + map_sum(m.remove(k))
        decreases m.dom().len()
    {
        assert(m.dom().len() != 0) by { if m.dom().len() == 0 { assert(m.dom() =~= Set::<RoyaltyRecipient>::empty()); } }
        let c = m.dom().choose();
        assert(m.dom().contains(c));
        if c != k {
            assert(m.remove(c).dom() =~= m.dom().remove(c));
            assert(m.remove(k).dom() =~= m.dom().remove(k));
            lemma_map_sum_remove(m.remove(c), k);
            lemma_map_sum_remove(m.remove(k), c);
            assert(m.remove(c).remove(k) =~= m.remove(k).remove(c));
        }
    }
    pub proof fn lemma_map_sum_insert(m: Map<RoyaltyRecipient, Decimal>, k: RoyaltyRecipient, v: Decimal)
        ensures map_sum(m.insert(k, v)) == map_sum(m) - (if m.contains_key(k) { m[k].v() } else { 0 }) + v.v()
    {
        lemma_map_sum_remove(m.insert(k, v), k);
        assert(m.insert(k, v).remove(k) =~= m.remove(k));
        if m.contains_key(k) { lemma_map_sum_remove(m, k); } else { assert(m.remove(k) =~= m); }
    }

    /// sum of the NON-contingent locked fees
    pub open spec fn locked_nc(s: Seq<(NodeId, LiquidFungibleResource, bool)>) -> int
        decreases s.len()
    {
        if s.len() == 0 { 0 } else { locked_nc(s.drop_last()) + (if s.last().2 { 0 } else { s.last().1.amount.v() }) }
    }
    /// LEDGER IDENTITY (DESIGN C06; `repaid` = loan - xrd_owed eliminated):
    /// balance - owed == credit + non-contingent locked - everything consumed
    pub open spec fn ledger_ok(r: R) -> bool {
        r.xrd_balance.v() - r.xrd_owed.v() ==
            r.transaction_costing_parameters.free_credit_in_xrd.v() + locked_nc(r.locked_fees@)
            - r.effective_execution_cost_unit_price.v() * r.execution_cost_units_committed
            - r.effective_finalization_cost_unit_price.v() * r.finalization_cost_units_committed
            - r.storage_cost_committed.v() - r.royalty_cost_committed.v()
    }

    /// decision oracle of a cost-unit consumption: which error (if any), in the order of the property text
    pub open spec fn unit_limit_err(committed: u32, limit: u32, n: u32) -> Option<FeeReserveError> {
        if committed + n > u32::MAX { Some(FeeReserveError::Overflow) }
        else if committed + n > limit { Some(FeeReserveError::LimitExceeded { limit, committed, new: n }) }
        else { None }
    }
    pub open spec fn pay_err(balance: Decimal, amount: int) -> Option<FeeReserveError> {
        if !in_dec(amount) { Some(FeeReserveError::Overflow) }
        else if balance.v() < amount { Some(FeeReserveError::InsufficientBalance { required: Decimal::of(amount), remaining: balance }) }
        else { None }
    }
    pub open spec fn unit_consume_err(committed: u32, limit: u32, price: Decimal, balance: Decimal, n: u32) -> Option<FeeReserveError> {
        if unit_limit_err(committed, limit, n) is Some { unit_limit_err(committed, limit, n) } else { pay_err(balance, price.v() * n) }
    }
    pub open spec fn as_result(e: Option<FeeReserveError>) -> Result<(), FeeReserveError> {
        match e { Some(e) => Err(e), None => Ok(()) }
    }
    pub open spec fn exec_applied(r: R, n: u32) -> R {
        SystemLoanFeeReserve {
            xrd_balance: Decimal::of(r.xrd_balance.v() - r.effective_execution_cost_unit_price.v() * n),
            execution_cost_units_committed: (r.execution_cost_units_committed + n) as u32,
            ..r
        }
    }
    pub open spec fn fin_applied(r: R, n: u32) -> R {
        SystemLoanFeeReserve {
            xrd_balance: Decimal::of(r.xrd_balance.v() - r.effective_finalization_cost_unit_price.v() * n),
            finalization_cost_units_committed: (r.finalization_cost_units_committed + n) as u32,
            ..r
        }
    }

    pub proof fn lemma_mul_distr(a: int, b: int, c: int)
        ensures a * (b + c) == a * b + a * c
    { assert(a * (b + c) == a * b + a * c) by (nonlinear_arith); }
    pub proof fn lemma_mul_nonneg(a: int, b: int)
        requires a >= 0, b >= 0 ensures a * b >= 0
    { assert(a * b >= 0) by (nonlinear_arith) requires a >= 0, b >= 0; }

    /*@fn radix-engine/src/system/system_modules/costing/fee_reserve.rs :: fn checked_add
    @sig
        ensures ret == (if a + b > u32::MAX { Err::<u32, FeeReserveError>(FeeReserveError::Overflow) } else { Ok((a + b) as u32) })
    @*/
    /*@fn radix-engine/src/system/system_modules/costing/fee_reserve.rs :: fn checked_add_assign
    @sig
        ensures
            ret == (if *old(value) + summand > u32::MAX { Err::<(), FeeReserveError>(FeeReserveError::Overflow) } else { Ok(()) }),
            ret is Ok ==> *final(value) == *old(value) + summand,
            ret is Err ==> *final(value) == *old(value),
    @*/

    impl SystemLoanFeeReserve {
        /*@fn radix-engine/src/system/system_modules/costing/fee_reserve.rs :: impl SystemLoanFeeReserve :: fn check_execution_cost_unit_limit
        @sig
            ensures ret == as_result(unit_limit_err(self.execution_cost_units_committed, self.costing_parameters.execution_cost_unit_limit, cost_units))
        @*/
        /*@fn radix-engine/src/system/system_modules/costing/fee_reserve.rs :: impl SystemLoanFeeReserve :: fn check_finalization_cost_unit_limit
        @sig
            ensures ret == as_result(unit_limit_err(self.finalization_cost_units_committed, self.costing_parameters.finalization_cost_unit_limit, cost_units))
        @*/
        /*@fn radix-engine/src/system/system_modules/costing/fee_reserve.rs :: impl SystemLoanFeeReserve :: fn consume_execution_internal
        @sig
            requires inv(*old(self))
            ensures
                ret == as_result(unit_consume_err(old(self).execution_cost_units_committed, old(self).costing_parameters.execution_cost_unit_limit,
                                                  old(self).effective_execution_cost_unit_price, old(self).xrd_balance, cost_units)),
                ret is Err ==> *final(self) == *old(self),
                ret is Ok ==> *final(self) == exec_applied(*old(self), cost_units),
                // DESIGN form of the boundary
                old(self).execution_cost_units_committed + cost_units <= u32::MAX ==>
                    ((ret matches Err(FeeReserveError::LimitExceeded { .. })) <==>
                        old(self).execution_cost_units_committed + cost_units > old(self).costing_parameters.execution_cost_unit_limit),
                ret is Ok ==> final(self).xrd_balance.v() == old(self).xrd_balance.v() - old(self).effective_execution_cost_unit_price.v() * cost_units
                           && final(self).execution_cost_units_committed == old(self).execution_cost_units_committed + cost_units,
                inv(*final(self)),
                ledger_ok(*old(self)) ==> ledger_ok(*final(self)),
        @entry
            proof {
                lemma_mul_nonneg(self.effective_execution_cost_unit_price.v(), cost_units as int);
                lemma_mul_distr(self.effective_execution_cost_unit_price.v(), self.execution_cost_units_committed as int, cost_units as int);
            }
        @*/

        /*@fn radix-engine/src/system/system_modules/costing/fee_reserve.rs :: impl SystemLoanFeeReserve :: fn consume_finalization_internal
        @sig
            requires inv(*old(self))
            ensures
                ret == as_result(unit_consume_err(old(self).finalization_cost_units_committed, old(self).costing_parameters.finalization_cost_unit_limit,
                                                  old(self).effective_finalization_cost_unit_price, old(self).xrd_balance, cost_units)),
                ret is Err ==> *final(self) == *old(self),
                ret is Ok ==> *final(self) == fin_applied(*old(self), cost_units),
                old(self).finalization_cost_units_committed + cost_units <= u32::MAX ==>
                    ((ret matches Err(FeeReserveError::LimitExceeded { .. })) <==>
                        old(self).finalization_cost_units_committed + cost_units > old(self).costing_parameters.finalization_cost_unit_limit),
                ret is Ok ==> final(self).xrd_balance.v() == old(self).xrd_balance.v() - old(self).effective_finalization_cost_unit_price.v() * cost_units
                           && final(self).finalization_cost_units_committed == old(self).finalization_cost_units_committed + cost_units,
                inv(*final(self)),
                ledger_ok(*old(self)) ==> ledger_ok(*final(self)),
        @entry
            proof {
                lemma_mul_nonneg(self.effective_finalization_cost_unit_price.v(), cost_units as int);
                lemma_mul_distr(self.effective_finalization_cost_unit_price.v(), self.finalization_cost_units_committed as int, cost_units as int);
            }
        @*/

        /*@fn radix-engine/src/system/system_modules/costing/fee_reserve.rs :: impl ExecutionFeeReserve for SystemLoanFeeReserve :: fn consume_storage
        @sig
            requires inv(*old(self))
            ensures
                ret == as_result(pay_err(old(self).xrd_balance, storage_price(old(self).costing_parameters, storage_type).v() * size_increase)),
                ret is Err ==> *final(self) == *old(self),
                ret is Ok ==> *final(self) == storage_applied(*old(self), storage_price(old(self).costing_parameters, storage_type).v() * size_increase),
                inv(*final(self)),
                ledger_ok(*old(self)) ==> ledger_ok(*final(self)),
        @entry
            proof { lemma_mul_nonneg(storage_price(self.costing_parameters, storage_type).v(), size_increase as int); }
        @*/

        /*@fn radix-engine/src/system/system_modules/costing/fee_reserve.rs :: impl SystemLoanFeeReserve :: fn consume_royalty_internal
        @sig
            requires inv(*old(self)), ra_raw(royalty_amount) >= 0
            ensures
                ret == as_result(royalty_err(*old(self), royalty_amount)),
                ret is Err ==> *final(self) == *old(self),
                ret is Ok ==> royalty_applied(*old(self), *final(self), royalty_xrd(old(self).costing_parameters, royalty_amount), recipient),
                inv(*final(self)),
                ledger_ok(*old(self)) ==> ledger_ok(*final(self)),
        @entry
            proof {
                lemma_dec_mul_nonneg(ra_raw(royalty_amount), self.costing_parameters.usd_price.v());
                match royalty_amount {
                    RoyaltyAmount::Xrd(x) => { assert(Decimal::of(x.v()).v() == x.v()); ax_dec_ext(Decimal::of(x.v()), x); }
                    RoyaltyAmount::Free => { assert(Decimal::of(0).v() == 0); ax_dec_ext(Decimal::of(0), Decimal::ZERO); }
                    _ => {}
                }
            }
        @after <<self.royalty_cost_committed += amount>> #1
            proof {
                let m0 = old(self).royalty_cost_breakdown@;
                let prev = if m0.contains_key(recipient) { m0[recipient].v() } else { 0 };
                assert(amount.v() == royalty_xrd(old(self).costing_parameters, royalty_amount));
                assert(Decimal::of(prev + amount.v()).v() == prev + amount.v());
                assert(self.royalty_cost_breakdown@[recipient].v() == prev + amount.v());
                assert(self.royalty_cost_breakdown@ == m0.insert(recipient, Decimal::of(prev + amount.v())));
                lemma_royalty_step(*old(self), *self, amount.v(), recipient);
            }
        @*/

        /*@fn radix-engine/src/system/system_modules/costing/fee_reserve.rs :: impl SystemLoanFeeReserve :: fn revert_royalty
        @sig
            requires inv(*old(self))
            ensures
                revert_applied(*old(self), *final(self)),
                final(self).xrd_balance.v() == old(self).xrd_balance.v() + old(self).royalty_cost_committed.v(),
                final(self).royalty_cost_committed.v() == 0,
                inv(*final(self)),
                ledger_ok(*old(self)) ==> ledger_ok(*final(self)),
        @entry
            proof { lemma_map_sum_empty(); }
        @*/

        /*@fn radix-engine/src/system/system_modules/costing/fee_reserve.rs :: impl SystemLoanFeeReserve :: fn fully_repaid
        @sig
            ensures ret == (self.xrd_owed.v() == 0)
        @*/

        // ---- getters ------------------------------------------------------------------------------
        /*@fn radix-engine/src/system/system_modules/costing/fee_reserve.rs :: impl SystemLoanFeeReserve :: fn costing_parameters
        @sig
            ensures *ret == self.costing_parameters
        @*/
        /*@fn radix-engine/src/system/system_modules/costing/fee_reserve.rs :: impl SystemLoanFeeReserve :: fn transaction_costing_parameters
        @sig
            ensures *ret == self.transaction_costing_parameters
        @*/
        /*@fn radix-engine/src/system/system_modules/costing/fee_reserve.rs :: impl SystemLoanFeeReserve :: fn execution_cost_unit_limit
        @sig
            ensures ret == self.costing_parameters.execution_cost_unit_limit
        @*/
        /*@fn radix-engine/src/system/system_modules/costing/fee_reserve.rs :: impl SystemLoanFeeReserve :: fn execution_cost_unit_price
        @sig
            ensures ret == self.costing_parameters.execution_cost_unit_price
        @*/
        /*@fn radix-engine/src/system/system_modules/costing/fee_reserve.rs :: impl SystemLoanFeeReserve :: fn finalization_cost_unit_limit
        @sig
            ensures ret == self.costing_parameters.finalization_cost_unit_limit
        @*/
        /*@fn radix-engine/src/system/system_modules/costing/fee_reserve.rs :: impl SystemLoanFeeReserve :: fn finalization_cost_unit_price
        @sig
            ensures ret == self.costing_parameters.finalization_cost_unit_price
        @*/
        /*@fn radix-engine/src/system/system_modules/costing/fee_reserve.rs :: impl SystemLoanFeeReserve :: fn usd_price
        @sig
            ensures ret == self.costing_parameters.usd_price
        @*/
        /*@fn radix-engine/src/system/system_modules/costing/fee_reserve.rs :: impl SystemLoanFeeReserve :: fn tip
        @sig
            ensures ret == self.transaction_costing_parameters.tip
        @*/
        /*@fn radix-engine/src/system/system_modules/costing/fee_reserve.rs :: impl SystemLoanFeeReserve :: fn fee_balance
        @sig
            ensures ret == self.xrd_balance
        @*/
        /*@fn radix-engine/src/system/system_modules/costing/fee_reserve.rs :: impl SystemLoanFeeReserve :: fn royalty_cost_breakdown
        @sig
            ensures *ret == self.royalty_cost_breakdown
        @*/

        // ---- PreExecutionFeeReserve ---------------------------------------------------------------
        /*@fn radix-engine/src/system/system_modules/costing/fee_reserve.rs :: impl PreExecutionFeeReserve for SystemLoanFeeReserve :: fn consume_deferred_execution
        @sig
            ensures
                ret == (if old(self).execution_cost_units_deferred + cost_units > u32::MAX { Err::<(), FeeReserveError>(FeeReserveError::Overflow) } else { Ok(()) }),
                ret is Err ==> *final(self) == *old(self),
                ret is Ok ==> *final(self) == (SystemLoanFeeReserve {
                    execution_cost_units_deferred: (old(self).execution_cost_units_deferred + cost_units) as u32, ..*old(self) }),
        @*/
        /*@fn radix-engine/src/system/system_modules/costing/fee_reserve.rs :: impl PreExecutionFeeReserve for SystemLoanFeeReserve :: fn consume_deferred_finalization
        @sig
            ensures
                ret == (if old(self).finalization_cost_units_deferred + cost_units > u32::MAX { Err::<(), FeeReserveError>(FeeReserveError::Overflow) } else { Ok(()) }),
                ret is Err ==> *final(self) == *old(self),
                ret is Ok ==> *final(self) == (SystemLoanFeeReserve {
                    finalization_cost_units_deferred: (old(self).finalization_cost_units_deferred + cost_units) as u32, ..*old(self) }),
        @*/
        /*@fn radix-engine/src/system/system_modules/costing/fee_reserve.rs :: impl PreExecutionFeeReserve for SystemLoanFeeReserve :: fn consume_deferred_storage
        @sig
            requires deferred_size(old(self).storage_cost_deferred@, storage_type) + size_increase <= usize::MAX
            ensures
                ret is Ok,
                deferred_storage_applied(*old(self), *final(self), storage_type, size_increase),
        @*/

        // ---- ExecutionFeeReserve ------------------------------------------------------------------
        /*@fn radix-engine/src/system/system_modules/costing/fee_reserve.rs :: impl ExecutionFeeReserve for SystemLoanFeeReserve :: fn consume_finalization
        @sig
            requires inv(*old(self))
            ensures
                cost_units == 0 ==> ret is Ok && *final(self) == *old(self),
                cost_units != 0 ==> ret == as_result(unit_consume_err(old(self).finalization_cost_units_committed, old(self).costing_parameters.finalization_cost_unit_limit,
                                                  old(self).effective_finalization_cost_unit_price, old(self).xrd_balance, cost_units)),
                ret is Err ==> *final(self) == *old(self),
                ret is Ok ==> *final(self) == fin_applied(*old(self), cost_units),
                (ret matches Err(FeeReserveError::LimitExceeded { .. })) <==>
                    (old(self).finalization_cost_units_committed + cost_units <= u32::MAX && cost_units != 0 &&
                     old(self).finalization_cost_units_committed + cost_units > old(self).costing_parameters.finalization_cost_unit_limit),
                inv(*final(self)),
                ledger_ok(*old(self)) ==> ledger_ok(*final(self)),
        @entry
            proof {
                assert(Decimal::of(self.xrd_balance.v() - self.effective_finalization_cost_unit_price.v() * 0).v() == self.xrd_balance.v());
                ax_dec_ext(Decimal::of(self.xrd_balance.v() - self.effective_finalization_cost_unit_price.v() * 0), self.xrd_balance);
            }
        @*/
        /*@fn radix-engine/src/system/system_modules/costing/fee_reserve.rs :: impl ExecutionFeeReserve for SystemLoanFeeReserve :: fn consume_royalty
        @sig
            requires inv(*old(self)),
                ra_raw(royalty_amount) >= 0,      // the real code panics ("System invariant broken") on a negative royalty amount
            ensures
                ra_raw(royalty_amount) == 0 ==> ret is Ok && *final(self) == *old(self),
                ra_raw(royalty_amount) != 0 ==> ret == as_result(royalty_err(*old(self), royalty_amount)),
                ret is Err ==> *final(self) == *old(self),
                ret is Ok && ra_raw(royalty_amount) != 0 ==> royalty_applied(*old(self), *final(self), royalty_xrd(old(self).costing_parameters, royalty_amount), recipient),
                inv(*final(self)),
                ledger_ok(*old(self)) ==> ledger_ok(*final(self)),
        @*/
        /*@fn radix-engine/src/system/system_modules/costing/fee_reserve.rs :: impl ExecutionFeeReserve for SystemLoanFeeReserve :: fn lock_fee
        @sig
            requires inv(*old(self)),
                fee.amount.v() >= 0,                                            // C03: a resource container never holds a negative amount
                !contingent ==> in_dec(headroom(*old(self)) + fee.amount.v()),    // "No overflow due to limited XRD supply"
            ensures
                lock_applied(*old(self), *final(self), vault_id, fee.amount, contingent),
                inv(*final(self)),
                ledger_ok(*old(self)) ==> ledger_ok(*final(self)),
        @entry
            let ghost fee0 = fee;
        @after <<.push(>> #1
            proof {
                let s0 = old(self).locked_fees@;
                let x = (vault_id, LiquidFungibleResource { amount: fee0.amount }, contingent);
                assert(self.locked_fees@ == s0.push(x));
                assert(s0.push(x).drop_last() == s0);
            }
        @*/
    }

    // ==========================================================================================
    // ORACLE, part 3: loan repayment.
    // ==========================================================================================
    /// cost of the deferred storage entries (the only two storage types)
    pub open spec fn pending_storage(cp: CostingParameters, m: Map<StorageType, usize>) -> int {
        (if m.contains_key(StorageType::State) { cp.state_storage_price.v() * m[StorageType::State] } else { 0 })
        + (if m.contains_key(StorageType::Archive) { cp.archive_storage_price.v() * m[StorageType::Archive] } else { 0 })
    }
    pub open spec fn total_deferred_cost(r: R) -> int {
        r.effective_execution_cost_unit_price.v() * r.execution_cost_units_deferred
        + r.effective_finalization_cost_unit_price.v() * r.finalization_cost_units_deferred
        + pending_storage(r.costing_parameters, r.storage_cost_deferred@)
    }
    /// the reserve after the deferred execution and finalization units have been consumed
    pub open spec fn after_units(r: R) -> R {
        let a = SystemLoanFeeReserve { execution_cost_units_deferred: 0, ..exec_applied(r, r.execution_cost_units_deferred) };
        SystemLoanFeeReserve { finalization_cost_units_deferred: 0, ..fin_applied(a, r.finalization_cost_units_deferred) }
    }
    /// every deferred cost has been applied
    pub open spec fn deferred_applied(r: R, f: R) -> bool {
        &&& f.execution_cost_units_committed == r.execution_cost_units_committed + r.execution_cost_units_deferred
        &&& f.execution_cost_units_deferred == 0
        &&& f.finalization_cost_units_committed == r.finalization_cost_units_committed + r.finalization_cost_units_deferred
        &&& f.finalization_cost_units_deferred == 0
        &&& f.storage_cost_deferred@ == Map::<StorageType, usize>::empty()
        &&& f.storage_cost_committed.v() == r.storage_cost_committed.v() + pending_storage(r.costing_parameters, r.storage_cost_deferred@)
    }
    /// fields repay_all never touches (parameters, cached prices, abort flag, royalties, locked fees)
    pub open spec fn repay_frame(r: R, f: R) -> bool {
        SystemLoanFeeReserve {
            xrd_balance: r.xrd_balance, xrd_owed: r.xrd_owed,
            execution_cost_units_committed: r.execution_cost_units_committed, execution_cost_units_deferred: r.execution_cost_units_deferred,
            finalization_cost_units_committed: r.finalization_cost_units_committed, finalization_cost_units_deferred: r.finalization_cost_units_deferred,
            storage_cost_committed: r.storage_cost_committed, storage_cost_deferred: r.storage_cost_deferred,
            ..f } == r
    }
    /// the storage loop of repay_all only touches the balance, the committed storage cost and the deferred map
    pub open spec fn storage_loop_frame(mid: R, cur: R) -> bool {
        SystemLoanFeeReserve { xrd_balance: mid.xrd_balance, storage_cost_committed: mid.storage_cost_committed,
                               storage_cost_deferred: mid.storage_cost_deferred, ..cur } == mid
    }
    /// repay_all as a relation between pre-state, post-state and result
    pub open spec fn repay_rel(r: R, f: R, ret: Result<(), FeeReserveError>) -> bool {
        &&& repay_frame(r, f)
        &&& match ret {
            // loan fully repaid out of the balance that is left after all deferred costs
            Ok(()) => deferred_applied(r, f) && f.xrd_owed.v() == 0 && !r.abort_when_loan_repaid
                && f.xrd_balance.v() == r.xrd_balance.v() - total_deferred_cost(r) - r.xrd_owed.v(),
            // not enough: the whole remaining balance went into the loan and something is still owed
            Err(FeeReserveError::LoanRepaymentFailed { xrd_owed }) => deferred_applied(r, f) && xrd_owed == f.xrd_owed
                && f.xrd_owed.v() > 0 && f.xrd_balance.v() == 0
                && f.xrd_owed.v() == r.xrd_owed.v() - (r.xrd_balance.v() - total_deferred_cost(r)),
            Err(FeeReserveError::Abort(_)) => deferred_applied(r, f) && f.xrd_owed.v() == 0 && r.abort_when_loan_repaid
                && f.xrd_balance.v() == r.xrd_balance.v() - total_deferred_cost(r) - r.xrd_owed.v(),
            // a deferred cost could not be charged: the loan is exactly as outstanding as before
            Err(_) => f.xrd_owed == r.xrd_owed,
        }
    }
    /// consume_execution as a relation: nothing for 0 units; the oracle error with the state unchanged; otherwise
    /// the units are charged and, when the loan is outstanding and the loan threshold is reached, repay_all runs
    pub open spec fn consume_execution_rel(r: R, f: R, n: u32, ret: Result<(), FeeReserveError>) -> bool {
        let e = unit_consume_err(r.execution_cost_units_committed, r.costing_parameters.execution_cost_unit_limit,
                                 r.effective_execution_cost_unit_price, r.xrd_balance, n);
        let mid = exec_applied(r, n);
        if n == 0 { ret is Ok && f == r }
        else if e is Some { ret == Err::<(), FeeReserveError>(e->Some_0) && f == r }
        else if mid.xrd_owed.v() != 0 && mid.execution_cost_units_committed >= r.costing_parameters.execution_cost_unit_loan { repay_rel(mid, f, ret) }
        else { ret is Ok && f == mid }
    }

    impl SystemLoanFeeReserve {
        /*@fn radix-engine/src/system/system_modules/costing/fee_reserve.rs :: impl SystemLoanFeeReserve :: fn repay_all
        @sig
            requires inv(*old(self))
            ensures
                repay_rel(*old(self), *final(self), ret),
                // DESIGN form
                ret is Ok ==> final(self).xrd_owed.v() == 0,
                (ret matches Err(FeeReserveError::LoanRepaymentFailed { .. })) ==> final(self).xrd_owed.v() > 0,
                inv(*final(self)),
                ledger_ok(*old(self)) ==> ledger_ok(*final(self)),
        @after <<.collect()>> #1
            let ghost ks = types@;
            let ghost mid = *self;
            let ghost m0 = self.storage_cost_deferred@;
            proof {
                assert(mid == after_units(*old(self)));
                assert forall|k: StorageType| m0.contains_key(k) <==> (exists|j: int| 0 <= j < ks.len() && ks[j] == k) by {
                    assert(ks.to_set().contains(k) <==> ks.contains(k));
                }
            }
        @loop 1 iter it
            invariant
                it.seq() == ks,
                ks.no_duplicates(),
                inv(*self),
                mid == after_units(*old(self)),
                inv(*old(self)), inv(mid),
                m0 == old(self).storage_cost_deferred@,
                storage_loop_frame(mid, *self),
                forall|k: StorageType| self.storage_cost_deferred@.contains_key(k) <==> (exists|j: int| it.index@ <= j < ks.len() && ks[j] == k),
                forall|k: StorageType| self.storage_cost_deferred@.contains_key(k) ==> self.storage_cost_deferred@[k] == m0[k],
                self.storage_cost_committed.v() + pending_storage(mid.costing_parameters, self.storage_cost_deferred@)
                    == mid.storage_cost_committed.v() + pending_storage(mid.costing_parameters, m0),
                self.xrd_balance.v() + self.storage_cost_committed.v() == mid.xrd_balance.v() + mid.storage_cost_committed.v(),
                ledger_ok(*old(self)) ==> ledger_ok(*self),
        @before <<self.consume_storage(>> #1
            let ghost pre = self.storage_cost_deferred@;
            let ghost i = it.index@ as int;
            proof {
                assert(t == ks[i]);
                assert(pre.contains_key(t));
            }
        @after <<self.storage_cost_deferred.swap_remove(>> #1
            proof {
                let post = self.storage_cost_deferred@;
                assert(post == pre.remove(t));
                assert forall|k: StorageType| post.contains_key(k) <==> (exists|j: int| i + 1 <= j < ks.len() && ks[j] == k) by {
                    if post.contains_key(k) {
                        let j = choose|j: int| i <= j < ks.len() && ks[j] == k;
                        assert(j != i);
                    }
                    if exists|j: int| i + 1 <= j < ks.len() && ks[j] == k {
                        let j = choose|j: int| i + 1 <= j < ks.len() && ks[j] == k;
                        assert(pre.contains_key(k));
                        assert(ks[j] != ks[i]);
                    }
                }
            }
        @before <<let amount = min(>> #1
            proof {
                assert(self.storage_cost_deferred@ =~= Map::<StorageType, usize>::empty());
                lemma_mul_nonneg(old(self).effective_execution_cost_unit_price.v(), old(self).execution_cost_units_deferred as int);
                lemma_mul_nonneg(old(self).effective_finalization_cost_unit_price.v(), old(self).finalization_cost_units_deferred as int);
            }
        @*/

        /*@fn radix-engine/src/system/system_modules/costing/fee_reserve.rs :: impl ExecutionFeeReserve for SystemLoanFeeReserve :: fn consume_execution
        @sig
            requires inv(*old(self))
            ensures
                consume_execution_rel(*old(self), *final(self), cost_units, ret),
                // DESIGN form of the boundary (LimitExceeded can also come out of repay_all, for the deferred units)
                (cost_units != 0 && old(self).execution_cost_units_committed + cost_units <= u32::MAX
                    && old(self).execution_cost_units_committed + cost_units > old(self).costing_parameters.execution_cost_unit_limit)
                    ==> (ret matches Err(FeeReserveError::LimitExceeded { .. })) && *final(self) == *old(self),
                ret is Ok ==> final(self).execution_cost_units_committed >= old(self).execution_cost_units_committed + cost_units,
                inv(*final(self)),
                ledger_ok(*old(self)) ==> ledger_ok(*final(self)),
        @*/
    }

    pub open spec fn deferred_size(m: Map<StorageType, usize>, t: StorageType) -> int {
        if m.contains_key(t) { m[t] as int } else { 0 }
    }
    /// only the deferred-storage counter of `t` changes: + size (created at 0)
    pub open spec fn deferred_storage_applied(r: R, f: R, t: StorageType, size: usize) -> bool {
        &&& SystemLoanFeeReserve { storage_cost_deferred: r.storage_cost_deferred, ..f } == r
        &&& f.storage_cost_deferred@ == r.storage_cost_deferred@.insert(t, (deferred_size(r.storage_cost_deferred@, t) + size) as usize)
    }
    /// the WHOLE resource moves into locked_fees (appended with vault id and flag); the balance grows by exactly
    /// its amount iff the lock is not contingent; nothing else changes
    pub open spec fn lock_applied(r: R, f: R, vault_id: NodeId, amount: Decimal, contingent: bool) -> bool {
        &&& SystemLoanFeeReserve { locked_fees: r.locked_fees, ..f }
                == SystemLoanFeeReserve {
                    xrd_balance: if contingent { r.xrd_balance } else { Decimal::of(r.xrd_balance.v() + amount.v()) }, ..r }
        &&& f.locked_fees@ == r.locked_fees@.push((vault_id, LiquidFungibleResource { amount }, contingent))
        &&& f.xrd_balance.v() == r.xrd_balance.v() + (if contingent { 0 } else { amount.v() })
    }

    pub open spec fn storage_price(cp: CostingParameters, t: StorageType) -> Decimal {
        match t { StorageType::State => cp.state_storage_price, StorageType::Archive => cp.archive_storage_price }
    }
    pub open spec fn storage_applied(r: R, amount: int) -> R {
        SystemLoanFeeReserve {
            xrd_balance: Decimal::of(r.xrd_balance.v() - amount),
            storage_cost_committed: Decimal::of(r.storage_cost_committed.v() + amount),
            ..r
        }
    }
    /// a royalty in XRD attos: USD amounts are converted with the (truncating) Decimal product
    pub open spec fn royalty_xrd(cp: CostingParameters, a: RoyaltyAmount) -> int {
        match a { RoyaltyAmount::Free => 0, RoyaltyAmount::Xrd(x) => x.v(), RoyaltyAmount::Usd(x) => dec_mul(x.v(), cp.usd_price.v()) }
    }
    pub open spec fn royalty_err(r: R, a: RoyaltyAmount) -> Option<FeeReserveError> {
        pay_err(r.xrd_balance, royalty_xrd(r.costing_parameters, a))
    }
    /// balance - amount, committed + amount, the recipient's entry + amount (created at 0), nothing else
    pub open spec fn royalty_applied(r: R, f: R, amount: int, recipient: RoyaltyRecipient) -> bool {
        &&& SystemLoanFeeReserve { royalty_cost_breakdown: r.royalty_cost_breakdown, ..f }
                == SystemLoanFeeReserve {
                    xrd_balance: Decimal::of(r.xrd_balance.v() - amount),
                    royalty_cost_committed: Decimal::of(r.royalty_cost_committed.v() + amount), ..r }
        &&& f.royalty_cost_breakdown@ == r.royalty_cost_breakdown@.insert(recipient,
                Decimal::of((if r.royalty_cost_breakdown@.contains_key(recipient) { r.royalty_cost_breakdown@[recipient].v() } else { 0 }) + amount))
        &&& f.xrd_balance.v() == r.xrd_balance.v() - amount
        &&& f.royalty_cost_committed.v() == r.royalty_cost_committed.v() + amount
    }
    /// the royalties go back to the balance, the breakdown is emptied, nothing else changes
    pub open spec fn revert_applied(r: R, f: R) -> bool {
        &&& SystemLoanFeeReserve { royalty_cost_breakdown: r.royalty_cost_breakdown, ..f }
                == SystemLoanFeeReserve {
                    xrd_balance: Decimal::of(r.xrd_balance.v() + r.royalty_cost_committed.v()),
                    royalty_cost_committed: Decimal::ZERO, ..r }
        &&& f.royalty_cost_breakdown@ == Map::<RoyaltyRecipient, Decimal>::empty()
    }
    pub proof fn lemma_royalty_step(r: R, f: R, amount: int, recipient: RoyaltyRecipient)
        requires inv(r), royalty_applied(r, f, amount, recipient), 0 <= amount <= r.xrd_balance.v()
        ensures inv(f), ledger_ok(r) ==> ledger_ok(f)
    {
        let m0 = r.royalty_cost_breakdown@;
        let prev = if m0.contains_key(recipient) { m0[recipient].v() } else { 0 };
        assert(Decimal::of(prev + amount).v() == prev + amount);
        lemma_map_sum_insert(m0, recipient, Decimal::of(prev + amount));
        assert forall|k: RoyaltyRecipient| #[trigger] f.royalty_cost_breakdown@.contains_key(k) implies
            0 <= f.royalty_cost_breakdown@[k].v() <= f.royalty_cost_committed.v() by {
            if k != recipient { assert(m0.contains_key(k)); }
        }
    }
    pub proof fn lemma_dec_mul_nonneg(a: int, b: int)
        requires a >= 0, b >= 0 ensures dec_mul(a, b) >= 0
    {
        lemma_mul_nonneg(a, b);
        assert((a * b) / one18() >= 0) by (nonlinear_arith) requires a * b >= 0;
    }

    // ==========================================================================================
    // Construction and finalization
    // ==========================================================================================
    /// magnitude assumptions of `new` (exactly its four `unwrap`/`expect` sites)
    pub open spec fn new_in_range(cp: CostingParameters, tp: TransactionCostingParameters) -> bool {
        let ee = dec_mul(cp.execution_cost_unit_price.v(), tip_mult(tp.tip));
        let ef = dec_mul(cp.finalization_cost_unit_price.v(), tip_mult(tp.tip));
        &&& in_dec(ee)
        &&& in_dec(ef)
        &&& in_dec(ee * cp.execution_cost_unit_loan)
        &&& in_dec(ee * cp.execution_cost_unit_loan + tp.free_credit_in_xrd.v())
    }
    /// what finalize() reports, from the property text: cost = price x units (no tip); the tip is the tip
    /// proportion of each of the two costs (each product truncated to 18 decimals); the rest is copied
    pub open spec fn summary_of(r: R) -> FeeReserveFinalizationSummary {
        let ex = r.costing_parameters.execution_cost_unit_price.v() * r.execution_cost_units_committed;
        let fi = r.costing_parameters.finalization_cost_unit_price.v() * r.finalization_cost_units_committed;
        let p = tip_prop(r.transaction_costing_parameters.tip);
        FeeReserveFinalizationSummary {
            total_execution_cost_units_consumed: r.execution_cost_units_committed,
            total_finalization_cost_units_consumed: r.finalization_cost_units_committed,
            total_execution_cost_in_xrd: Decimal::of(ex),
            total_finalization_cost_in_xrd: Decimal::of(fi),
            total_tipping_cost_in_xrd: Decimal::of(dec_mul(ex, p) + dec_mul(fi, p)),
            total_royalty_cost_in_xrd: r.royalty_cost_committed,
            total_storage_cost_in_xrd: r.storage_cost_committed,
            total_bad_debt_in_xrd: r.xrd_owed,
            locked_fees: r.locked_fees,
            royalty_cost_breakdown: r.royalty_cost_breakdown,
        }
    }
    /// magnitude assumptions of finalize() (exactly its five `unwrap` sites)
    pub open spec fn finalize_in_range(r: R) -> bool {
        let ex = r.costing_parameters.execution_cost_unit_price.v() * r.execution_cost_units_committed;
        let fi = r.costing_parameters.finalization_cost_unit_price.v() * r.finalization_cost_units_committed;
        let p = tip_prop(r.transaction_costing_parameters.tip);
        &&& in_dec(ex) && in_dec(fi)
        &&& in_dec(dec_mul(ex, p)) && in_dec(dec_mul(fi, p))
        &&& in_dec(dec_mul(ex, p) + dec_mul(fi, p))
    }

    /// x * (u * 10^18) / 10^18 == x * u : multiplying by a whole number is exact
    pub proof fn lemma_dec_mul_whole(x: int, u: int)
        requires x >= 0, u >= 0
        ensures dec_mul(x, u * one18()) == x * u
    {
        lemma_mul_nonneg(x, u);
        assert(x * (u * one18()) == (x * u) * one18()) by (nonlinear_arith);
        lemma_mul_nonneg(x * u, one18());
        vstd::arithmetic::div_mod::lemma_div_by_multiple(x * u, one18());
    }
    /// (a*d + b) / d == a + b / d
    pub proof fn lemma_div_add_multiple(a: int, b: int, d: int)
        requires d > 0
        ensures (a * d + b) / d == a + b / d, (a * d + b) % d == b % d
    {
        vstd::arithmetic::div_mod::lemma_fundamental_div_mod(b, d);
        let q = a + b / d;
        let m = b % d;
        assert(a * d + b == q * d + m) by (nonlinear_arith) requires b == d * (b / d) + m, q == a + b / d;
        vstd::arithmetic::div_mod::lemma_mod_bound(b, d);
        vstd::arithmetic::div_mod::lemma_fundamental_div_mod_converse(a * d + b, d, q, m);
    }
    /// the tip-inclusive price: price + trunc(price * proportion)
    pub proof fn lemma_effective_price(p: int, prop: int)
        requires p >= 0, prop >= 0
        ensures dec_mul(p, one18() + prop) == p + (p * prop) / one18(), dec_mul(p, one18() + prop) >= 0, (p * prop) / one18() >= 0
    {
        lemma_mul_nonneg(p, prop);
        lemma_mul_nonneg(p, one18() + prop);
        assert(p * (one18() + prop) == p * one18() + p * prop) by (nonlinear_arith);
        lemma_div_add_multiple(p, p * prop, one18());
        assert((p * prop) / one18() >= 0) by (nonlinear_arith) requires p * prop >= 0;
    }

    impl SystemLoanFeeReserve {
        /*@fn radix-engine/src/system/system_modules/costing/fee_reserve.rs :: impl SystemLoanFeeReserve :: fn new
        @sig
            requires
                params_ok(costing_parameters, transaction_costing_parameters),      // the six `assert!`s
                new_in_range(costing_parameters, transaction_costing_parameters),   // the four unwrap/expect sites
            ensures
                inv(ret), ledger_ok(ret),
                ret.costing_parameters == costing_parameters,
                ret.transaction_costing_parameters == transaction_costing_parameters,
                ret.abort_when_loan_repaid == abort_when_loan_repaid,
                ret.xrd_owed.v() == ret.effective_execution_cost_unit_price.v() * costing_parameters.execution_cost_unit_loan,
                ret.xrd_balance.v() == ret.xrd_owed.v() + transaction_costing_parameters.free_credit_in_xrd.v(),
                ret.execution_cost_units_committed == 0, ret.execution_cost_units_deferred == 0,
                ret.finalization_cost_units_committed == 0, ret.finalization_cost_units_deferred == 0,
                ret.royalty_cost_committed.v() == 0, ret.storage_cost_committed.v() == 0,
                ret.royalty_cost_breakdown@ == Map::<RoyaltyRecipient, Decimal>::empty(),
                ret.storage_cost_deferred@ == Map::<StorageType, usize>::empty(),
                ret.locked_fees@ == Seq::<(NodeId, LiquidFungibleResource, bool)>::empty(),
        @entry
            proof {
                lemma_mul_nonneg(tip_bp(transaction_costing_parameters.tip), e14());
                lemma_effective_price(costing_parameters.execution_cost_unit_price.v(), tip_prop(transaction_costing_parameters.tip));
                lemma_effective_price(costing_parameters.finalization_cost_unit_price.v(), tip_prop(transaction_costing_parameters.tip));
                lemma_mul_nonneg(dec_mul(costing_parameters.execution_cost_unit_price.v(), tip_mult(transaction_costing_parameters.tip)),
                                 costing_parameters.execution_cost_unit_loan as int);
            }
        @before <<Self {>> #1
            proof {
                let t = transaction_costing_parameters.tip;
                assert(tip_multiplier.v() == tip_mult(t));
                assert(effective_execution_cost_unit_price.v() == dec_mul(costing_parameters.execution_cost_unit_price.v(), tip_mult(t)));
                assert(effective_finalization_cost_unit_price.v() == dec_mul(costing_parameters.finalization_cost_unit_price.v(), tip_mult(t)));
                assert(effective_execution_cost_unit_price.v() >= 0 && effective_finalization_cost_unit_price.v() >= 0);
                assert(system_loan_in_xrd.v() == effective_execution_cost_unit_price.v() * costing_parameters.execution_cost_unit_loan);
                assert(system_loan_in_xrd.v() >= 0);
                assert(starting_xrd_balance.v() == system_loan_in_xrd.v() + transaction_costing_parameters.free_credit_in_xrd.v());
                assert(effective_execution_cost_unit_price.v() * 0 == 0);
                assert(effective_finalization_cost_unit_price.v() * 0 == 0);
                assert(locked_nc(Seq::<(NodeId, LiquidFungibleResource, bool)>::empty()) == 0);
                lemma_map_sum_empty();
            }
        @*/

        /*@fn radix-engine/src/system/system_modules/costing/fee_reserve.rs :: impl FinalizingFeeReserve for SystemLoanFeeReserve :: fn finalize
        @sig
            requires inv(self), finalize_in_range(self)
            ensures
                ret.0 == summary_of(self),
                ret.1 == self.costing_parameters,
                ret.2 == self.transaction_costing_parameters,
        @entry
            proof {
                lemma_dec_mul_whole(self.costing_parameters.execution_cost_unit_price.v(), self.execution_cost_units_committed as int);
                lemma_dec_mul_whole(self.costing_parameters.finalization_cost_unit_price.v(), self.finalization_cost_units_committed as int);
            }
        @*/
    }

    // ==========================================================================================
    // BRIDGE OBLIGATION (property text): what the reserve deducted for execution and finalization
    // equals total_execution_cost + total_finalization_cost + total_tipping_cost as recomputed by finalize().
    // ==========================================================================================
    /// what the consume_* contracts above took from the balance for the committed units
    pub open spec fn deducted(r: R) -> int {
        r.effective_execution_cost_unit_price.v() * r.execution_cost_units_committed
        + r.effective_finalization_cost_unit_price.v() * r.finalization_cost_units_committed
    }
    pub open spec fn reported(s: FeeReserveFinalizationSummary) -> int {
        s.total_execution_cost_in_xrd.v() + s.total_finalization_cost_in_xrd.v() + s.total_tipping_cost_in_xrd.v()
    }
    /// the fraction (in units of 10^-36) that `price * proportion` loses when truncated to 18 decimals
    pub open spec fn tip_loss(price: int, t: TipSpecifier) -> int { (price * tip_prop(t)) % one18() }
    /// WEAKEST precondition of the bridge: for both prices, units x (truncation loss of price x tip) stays below one
    /// atto, i.e. truncating per unit and truncating the total give the same number.  In particular it holds for
    /// every number of units when price x tip is exact at 18 decimals (tip_loss == 0; genesis price 5e-8 with any
    /// basis-point tip: 5*10^10 * b * 10^14 is a multiple of 10^18).
    pub open spec fn tip_exact(r: R) -> bool {
        &&& r.execution_cost_units_committed * tip_loss(r.costing_parameters.execution_cost_unit_price.v(), r.transaction_costing_parameters.tip) < one18()
        &&& r.finalization_cost_units_committed * tip_loss(r.costing_parameters.finalization_cost_unit_price.v(), r.transaction_costing_parameters.tip) < one18()
    }

    /// per price: units*(p + trunc(p*prop)) vs p*units + trunc(p*units*prop); never more, equal iff u*loss < 10^18
    pub proof fn lemma_bridge_one_price(p: int, prop: int, u: int)
        requires p >= 0, prop >= 0, u >= 0
        ensures
            dec_mul(p, one18() + prop) * u <= p * u + dec_mul(p * u, prop),
            (dec_mul(p, one18() + prop) * u == p * u + dec_mul(p * u, prop)) <==> u * ((p * prop) % one18()) < one18(),
    {
        let d = one18();
        let x = p * prop;
        lemma_effective_price(p, prop);
        lemma_mul_nonneg(p, prop);
        lemma_mul_nonneg(p, u);
        vstd::arithmetic::div_mod::lemma_fundamental_div_mod(x, d);
        vstd::arithmetic::div_mod::lemma_mod_bound(x, d);
        let q = x / d;
        let m = x % d;
        lemma_mul_nonneg(u, m);
        assert((p * u) * prop == (u * q) * d + u * m) by (nonlinear_arith) requires p * prop == d * q + m;
        lemma_mul_nonneg(p * u, prop);
        lemma_div_add_multiple(u * q, u * m, d);
        // dec_mul(p*u, prop) == u*q + (u*m)/d
        assert((p + q) * u == p * u + u * q) by (nonlinear_arith);
        vstd::arithmetic::div_mod::lemma_fundamental_div_mod(u * m, d);
        vstd::arithmetic::div_mod::lemma_mod_bound(u * m, d);
        assert((u * m) / d >= 0) by (nonlinear_arith) requires u * m >= 0, d > 0;
        if u * m < d {
            vstd::arithmetic::div_mod::lemma_small_div_converse(u * m, d);   // hint only
            vstd::arithmetic::div_mod::lemma_basic_div(u * m, d);
        } else {
            assert((u * m) / d >= 1) by (nonlinear_arith) requires u * m >= d, d > 0, u * m == d * ((u * m) / d) + (u * m) % d, 0 <= (u * m) % d < d;
        }
    }

    /// BRIDGE under the weakest parameter precondition: deducted == reported
    pub proof fn lemma_bridge_exact_tip(r: R)
        requires inv(r), finalize_in_range(r), tip_exact(r)
        ensures deducted(r) == reported(summary_of(r))
    {
        let t = r.transaction_costing_parameters.tip;
        lemma_mul_nonneg(tip_bp(t), e14());
        lemma_bridge_one_price(r.costing_parameters.execution_cost_unit_price.v(), tip_prop(t), r.execution_cost_units_committed as int);
        lemma_bridge_one_price(r.costing_parameters.finalization_cost_unit_price.v(), tip_prop(t), r.finalization_cost_units_committed as int);
    }
    /// headline of the property at reserve level (under the same precondition): free credit + non-contingent locked
    /// fees - what is left in the balance (+ bad debt) == the total cost reported by finalize()
    /// (total_cost() == the sum of the five cost fields is proved on the real code in unit c06_fee_summary)
    pub open spec fn total_cost_of(s: FeeReserveFinalizationSummary) -> int {
        s.total_execution_cost_in_xrd.v() + s.total_finalization_cost_in_xrd.v() + s.total_tipping_cost_in_xrd.v()
        + s.total_storage_cost_in_xrd.v() + s.total_royalty_cost_in_xrd.v()
    }
    pub proof fn lemma_paid_equals_total_cost(r: R)
        requires inv(r), ledger_ok(r), finalize_in_range(r), tip_exact(r)
        ensures
            r.transaction_costing_parameters.free_credit_in_xrd.v() + locked_nc(r.locked_fees@) - r.xrd_balance.v() + r.xrd_owed.v()
                == total_cost_of(summary_of(r))
    {
        lemma_bridge_exact_tip(r);
    }
    /// ... and that precondition is the weakest one: whenever the two numbers agree, tip_exact holds
    /// (the reserve never deducts MORE than finalize() reports, so the two per-price gaps cannot cancel)
    pub proof fn lemma_bridge_exact_tip_is_weakest(r: R)
        requires inv(r), finalize_in_range(r)
        ensures
            deducted(r) <= reported(summary_of(r)),
            deducted(r) == reported(summary_of(r)) ==> tip_exact(r),
    {
        let t = r.transaction_costing_parameters.tip;
        lemma_mul_nonneg(tip_bp(t), e14());
        lemma_bridge_one_price(r.costing_parameters.execution_cost_unit_price.v(), tip_prop(t), r.execution_cost_units_committed as int);
        lemma_bridge_one_price(r.costing_parameters.finalization_cost_unit_price.v(), tip_prop(t), r.finalization_cost_units_committed as int);
    }
    /// sufficient, units-independent form: price x basis points is a multiple of 10^4 attos
    pub proof fn lemma_tip_exact_if_divisible(r: R)
        requires inv(r),
            (r.costing_parameters.execution_cost_unit_price.v() * tip_bp(r.transaction_costing_parameters.tip)) % 10_000 == 0,
            (r.costing_parameters.finalization_cost_unit_price.v() * tip_bp(r.transaction_costing_parameters.tip)) % 10_000 == 0,
        ensures tip_exact(r)
    {
        let t = r.transaction_costing_parameters.tip;
        lemma_mul_nonneg(tip_bp(t), e14());
        lemma_loss_zero(r.costing_parameters.execution_cost_unit_price.v(), tip_bp(t));
        lemma_loss_zero(r.costing_parameters.finalization_cost_unit_price.v(), tip_bp(t));
        assert(r.execution_cost_units_committed * 0 == 0);
        assert(r.finalization_cost_units_committed * 0 == 0);
    }
    pub proof fn lemma_loss_zero(p: int, bp: int)
        requires p >= 0, bp >= 0, (p * bp) % 10_000 == 0
        ensures (p * (bp * e14())) % one18() == 0
    {
        lemma_mul_nonneg(p, bp);
        vstd::arithmetic::div_mod::lemma_fundamental_div_mod(p * bp, 10_000);
        let k = (p * bp) / 10_000;
        assert(p * (bp * e14()) == k * one18()) by (nonlinear_arith) requires p * bp == 10_000 * k, e14() == 100_000_000_000_000, one18() == 1_000_000_000_000_000_000;
        vstd::arithmetic::div_mod::lemma_mod_multiples_basic(k, one18());
    }

    /// the concrete witness of the finding, in the oracle's own terms: price 3 attos, tip 50 % (5000 bp), 12 units:
    /// the reserve deducts trunc(3 * 1.5) * 12 = 48 attos, finalize() reports 3*12 + trunc(36 * 0.5) = 54 attos
    pub proof fn lemma_bridge_witness_3_attos_50_percent()
        ensures
            tip_prop(TipSpecifier::Percentage(50)) == 500_000_000_000_000_000,
            dec_mul(3, tip_mult(TipSpecifier::Percentage(50))) * 12 == 48,
            36 + dec_mul(36, tip_prop(TipSpecifier::Percentage(50))) == 54,
            12 * tip_loss(3, TipSpecifier::Percentage(50)) >= one18(),
    {
        assert(tip_prop(TipSpecifier::Percentage(50)) == 500_000_000_000_000_000);
        assert(3 * 1_500_000_000_000_000_000int == 4_500_000_000_000_000_000);
        assert(4_500_000_000_000_000_000int / 1_000_000_000_000_000_000 == 4);
        assert(36 * 500_000_000_000_000_000int == 18_000_000_000_000_000_000);
        assert(18_000_000_000_000_000_000int / 1_000_000_000_000_000_000 == 18);
        assert(3 * 500_000_000_000_000_000int == 1_500_000_000_000_000_000);
        assert(1_500_000_000_000_000_000int % 1_000_000_000_000_000_000 == 500_000_000_000_000_000);
    }

    /// BRIDGE for EVERY costing parameter set (the quantifier of the property).  KNOWN FINDING: this does NOT hold
    /// (execution_cost_unit_price = 3 attos, tip 50 %, 12 units: deducted 48, reported 54) -- EXPECTED TO FAIL.
    pub proof fn lemma_bridge_all_prices_KNOWN_FINDING(r: R)
        requires inv(r), finalize_in_range(r)
        ensures deducted(r) == reported(summary_of(r))
    {
        let t = r.transaction_costing_parameters.tip;
        lemma_mul_nonneg(tip_bp(t), e14());
        lemma_bridge_one_price(r.costing_parameters.execution_cost_unit_price.v(), tip_prop(t), r.execution_cost_units_committed as int);
        lemma_bridge_one_price(r.costing_parameters.finalization_cost_unit_price.v(), tip_prop(t), r.finalization_cost_units_committed as int);
    }
}
} // verus!
fn main() {}
