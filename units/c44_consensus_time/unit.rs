// Unit c44_consensus_time -- property C44 "Consensus time and rounds only move forward"
// Real code: radix-engine/src/blueprints/consensus_manager/consensus_manager.rs ::
//              ConsensusManagerBlueprint::{check_non_decreasing_and_update_timestamps, milli_to_minute,
//              epoch_minute_to_instant, epoch_milli_to_instant, get_current_time_v1/v2,
//              compare_current_time_v1/v2, next_round, start, get_current_epoch}
//            radix-common/src/types/consensus.rs :: Epoch::next, Round::{zero, of, calculate_progress}
//            radix-common/src/time/instant.rs   :: Instant::{new, compare}
// Environment (trusted, shims/sysapi_c44.rs): ghost-heap SystemApi, payload wrappers, frame conditions of
// update_proposal_statistics / epoch_change / emit_event / should_epoch_change.
use vstd::prelude::*;
verus! {
/*@include shims/rt.rs @*/

pub mod env {
    use vstd::prelude::*;
    // std: i64::is_negative
    pub assume_specification [i64::is_negative] (x: i64) -> (r: bool) ensures r == (x < 0);

    /// radix-common Decimal: opaque here (only carried inside ConsensusManagerConfig)
    #[verifier::external_body]
    pub struct Decimal { _p: () }

    /*@item radix-common/src/types/consensus.rs :: type ValidatorIndex
    @*/
    /*@item radix-common/src/types/consensus.rs :: struct Epoch
    @derive Clone, Copy
    @*/
    /*@item radix-common/src/types/consensus.rs :: struct Round
    @derive Clone, Copy
    @*/
    /*@item radix-common/src/time/instant.rs :: struct Instant
    @derive Clone, Copy
    @*/
    /*@item radix-common/src/time/instant.rs :: enum TimeComparisonOperator
    @derive Clone, Copy
    @*/
    /*@item radix-engine-interface/src/blueprints/consensus_manager/invocations.rs :: enum TimePrecisionV1
    @derive Clone, Copy
    @*/
    /*@item radix-engine-interface/src/blueprints/consensus_manager/invocations.rs :: enum TimePrecisionV2
    @derive Clone, Copy
    @*/
    /*@item radix-engine-interface/src/blueprints/consensus_manager/invocations.rs :: struct EpochChangeCondition
    @derive
    @*/
    /*@item radix-engine-interface/src/blueprints/consensus_manager/invocations.rs :: enum EpochChangeOutcome
    @*/
    /*@item radix-engine-interface/src/blueprints/consensus_manager/invocations.rs :: struct ConsensusManagerConfig
    @derive
    @*/
    /*@item radix-engine-interface/src/blueprints/consensus_manager/invocations.rs :: struct LeaderProposalHistory
    @derive
    @*/
    /*@item radix-engine/src/blueprints/consensus_manager/consensus_manager.rs :: struct ConsensusManagerConfigSubstate
    @derive
    @*/
    /*@item radix-engine/src/blueprints/consensus_manager/consensus_manager.rs :: struct ConsensusManagerSubstate
    @derive
    @*/
    /*@item radix-engine/src/blueprints/consensus_manager/consensus_manager.rs :: struct ProposerMilliTimestampSubstate
    @derive
    @*/
    /*@item radix-engine/src/blueprints/consensus_manager/consensus_manager.rs :: struct ProposerMinuteTimestampSubstate
    @derive
    @*/
    /*@item radix-engine/src/blueprints/consensus_manager/consensus_manager.rs :: enum ConsensusManagerError
    @derive
    @*/
    /*@item radix-engine/src/blueprints/consensus_manager/consensus_manager.rs :: struct ConsensusManagerBlueprint
    @*/
    /*@item radix-engine/src/blueprints/consensus_manager/events/consensus_manager.rs :: struct RoundChangeEvent
    @derive
    @*/
    /// radix-engine/src/errors.rs: only the variants constructed by the code under contract are named
    pub enum ApplicationError { ConsensusManagerError(ConsensusManagerError), Other }
    pub enum RuntimeError { ApplicationError(ApplicationError), Other }
}

/*@include shims/sysapi_c44.rs @*/

pub mod unit {
    use vstd::prelude::*;
    use super::rt::*;
    use super::env::*;
    use super::shim_sysapi::*;

    // module-private constants of consensus_manager.rs (re-read from /repo on every run)
    /*@item radix-engine/src/blueprints/consensus_manager/consensus_manager.rs :: const MILLIS_IN_SECOND
    @*/
    /*@item radix-engine/src/blueprints/consensus_manager/consensus_manager.rs :: const SECONDS_IN_MINUTE
    @*/
    /*@item radix-engine/src/blueprints/consensus_manager/consensus_manager.rs :: const MILLIS_IN_MINUTE
    @*/

    // ------------------------------------------------------------------------------------------
    // Oracle (from the property statement)
    // ------------------------------------------------------------------------------------------
    /// Rust `/` on signed integers: quotient truncated toward zero.  For t >= 0 this IS floor(t/d).
    pub open spec fn tdiv(a: int, d: int) -> int { if a >= 0 { a / d } else { -((-a) / d) } }
    pub open spec fn max(a: int, b: int) -> int { if a >= b { a } else { b } }
    pub open spec fn fits_i32(x: int) -> bool { i32::MIN <= x <= i32::MAX }
    pub open spec fn sat_i32(x: int) -> int { if x < i32::MIN { i32::MIN as int } else if x > i32::MAX { i32::MAX as int } else { x } }
    /// the minute a millisecond timestamp falls into
    pub open spec fn minute_of(t: int) -> int { tdiv(t, 60000) }

    pub open spec fn milli(h: Heap) -> int { h[I_MILLI()]->Milli_0.epoch_milli as int }
    pub open spec fn minute(h: Heap) -> int { h[I_MINUTE()]->Minute_0.epoch_minute as int }
    pub open spec fn state(h: Heap) -> ConsensusManagerSubstate { h[I_STATE()]->State_0 }

    /// what `get_current_time` must answer: the stored clock of the requested precision, in seconds
    pub open spec fn clock_seconds_v1(p: TimePrecisionV1, h: Heap) -> int {
        match p { TimePrecisionV1::Minute => minute(h) * 60 }
    }
    pub open spec fn clock_seconds_v2(p: TimePrecisionV2, h: Heap) -> int {
        match p { TimePrecisionV2::Minute => minute(h) * 60, TimePrecisionV2::Second => tdiv(milli(h), 1000) }
    }
    /// the minute an arbitrary-precision instant falls into, saturated to the range of the minute clock
    pub open spec fn other_minute(i: Instant) -> int { sat_i32(tdiv(i.seconds_since_unix_epoch as int, 60)) }

    /// C44: what one successful round-change transaction may do to (epoch, round)
    pub open spec fn round_step(s: ConsensusManagerSubstate, s2: ConsensusManagerSubstate, round_arg: Round, t: i64) -> bool {
        ||| (s2.epoch == s.epoch && s2.round == round_arg && round_arg.0 > s.round.0
             && s2.actual_epoch_start_milli == s.actual_epoch_start_milli && s2.effective_epoch_start_milli == s.effective_epoch_start_milli)
        ||| (s2.epoch.0 == s.epoch.0 + 1 && s2.round.0 == 0 && round_arg.0 > s.round.0 && s2.actual_epoch_start_milli == t)
    }

    /// truncating division by a positive constant is monotone
    pub proof fn lemma_minute_of_mono(a: int, b: int)
        ensures a <= b ==> minute_of(a) <= minute_of(b)
    {
        if a <= b {
            if a >= 0 {
                assert(a / 60000 <= b / 60000) by (nonlinear_arith) requires 0 <= a <= b;
            } else if b >= 0 {
                assert((-a) / 60000 >= 0) by (nonlinear_arith) requires -a >= 0;
                assert(b / 60000 >= 0) by (nonlinear_arith) requires b >= 0;
            } else {
                assert((-b) / 60000 <= (-a) / 60000) by (nonlinear_arith) requires 0 <= -b <= -a;
            }
        }
    }

    pub open spec fn cmp_op(op: TimeComparisonOperator, a: int, b: int) -> bool {
        match op {
            TimeComparisonOperator::Eq => a == b,
            TimeComparisonOperator::Lt => a < b,
            TimeComparisonOperator::Lte => a <= b,
            TimeComparisonOperator::Gt => a > b,
            TimeComparisonOperator::Gte => a >= b,
        }
    }

    impl Instant {
        /*@fn radix-common/src/time/instant.rs :: impl Instant :: fn new
        @sig
            ensures ret.seconds_since_unix_epoch == seconds_since_unix_epoch
        @*/
        /*@fn radix-common/src/time/instant.rs :: impl Instant :: fn compare
        @sig
            ensures ret == cmp_op(operator, self.seconds_since_unix_epoch as int, other.seconds_since_unix_epoch as int)
        @*/
    }

    impl Epoch {
        /*@fn radix-common/src/types/consensus.rs :: impl Epoch :: fn next
        @sig
            ensures ret == (if self.0 == u64::MAX { None } else { Some(Epoch((self.0 + 1) as u64)) })
        @subst <<.map(Self)>> => <<.map(|x: u64| -> (r: Epoch) ensures r.0 == x { Epoch(x) })>> why: Verus does not accept a tuple-struct constructor used as a function value; the closure is its eta-expansion
        @*/
    }
    impl Round {
        /*@fn radix-common/src/types/consensus.rs :: impl Round :: fn zero
        @sig
            ensures ret.0 == 0
        @*/
        /*@fn radix-common/src/types/consensus.rs :: impl Round :: fn of
        @sig
            ensures ret.0 == number
        @*/
        /*@fn radix-common/src/types/consensus.rs :: impl Round :: fn calculate_progress
        @sig
            ensures ret == (if to.0 > from.0 { Some((to.0 - from.0) as u64) } else { None })
        @*/
    }

    impl ConsensusManagerBlueprint {
        /*@fn radix-engine/src/blueprints/consensus_manager/consensus_manager.rs :: impl ConsensusManagerBlueprint :: fn epoch_minute_to_instant
        @sig
            ensures ret.seconds_since_unix_epoch == epoch_minute * 60
        @*/
        /*@fn radix-engine/src/blueprints/consensus_manager/consensus_manager.rs :: impl ConsensusManagerBlueprint :: fn epoch_milli_to_instant
        @sig
            ensures ret.seconds_since_unix_epoch == tdiv(epoch_milli as int, 1000)
        @*/
        /*@fn radix-engine/src/blueprints/consensus_manager/consensus_manager.rs :: impl ConsensusManagerBlueprint :: fn milli_to_minute
        @sig
            ensures ret == (if fits_i32(minute_of(epoch_milli as int)) { Some(minute_of(epoch_milli as int) as i32) } else { None })
        @*/

        /*@fn radix-engine/src/blueprints/consensus_manager/consensus_manager.rs :: impl ConsensusManagerBlueprint :: fn check_non_decreasing_and_update_timestamps
        @sig
            requires typed(old(api).fields())
            ensures
                typed(final(api).fields()),
                // frame: nothing but the two clock fields is ever written
                final(api).fields() =~= old(api).fields().insert(I_MILLI(), final(api).fields()[I_MILLI()]).insert(I_MINUTE(), final(api).fields()[I_MINUTE()]),
                ret is Ok ==> final(api).handles() =~= old(api).handles(),
                // C44: Ok ==> milli' == t >= milli  &&  minute' == max(minute, floor(t / 60000))
                ret is Ok ==> milli(final(api).fields()) == current_time_ms && current_time_ms >= milli(old(api).fields()),
                ret is Ok ==> minute(final(api).fields()) == max(minute(old(api).fields()), minute_of(current_time_ms as int)),
                ret is Ok && current_time_ms >= 0 ==> minute(final(api).fields()) == max(minute(old(api).fields()), current_time_ms as int / 60000),
                // C44: t < milli ==> Err with nothing written
                current_time_ms < milli(old(api).fields()) ==> ret is Err && final(api).fields() == old(api).fields(),
                // a timestamp whose minute does not fit the i32 minute clock is refused
                !fits_i32(minute_of(current_time_ms as int)) ==> ret is Err && minute(final(api).fields()) == minute(old(api).fields()),
                // whatever the outcome (an Err after a partial write included) neither clock moved backwards
                milli(final(api).fields()) >= milli(old(api).fields()),
                minute(final(api).fields()) >= minute(old(api).fields()),
                milli(final(api).fields()) == milli(old(api).fields()) || milli(final(api).fields()) == current_time_ms,
                // the ONLY blueprint-level refusals are the two above (everything else is a system API failure):
                // an equal or later timestamp with a representable minute is never refused by this code
                (ret matches Err(e) && e is ApplicationError) ==> current_time_ms < milli(old(api).fields()) || !fits_i32(minute_of(current_time_ms as int)),
                ret matches Err(RuntimeError::ApplicationError(ApplicationError::ConsensusManagerError(ConsensusManagerError::InvalidProposerTimestampUpdate { from_millis, to_millis })))
                    ==> from_millis == milli(old(api).fields()) && to_millis == current_time_ms && to_millis < from_millis,
                // the two clocks stay in step: if the minute clock was the minute of the milli clock, it still is
                ret is Ok && minute(old(api).fields()) == minute_of(milli(old(api).fields())) ==> minute(final(api).fields()) == minute_of(milli(final(api).fields())),
        @entry
            proof { lemma_minute_of_mono(milli(old(api).fields()), current_time_ms as int); }
        @*/

        // ---- reading the clock -------------------------------------------------------------------
        /*@fn radix-engine/src/blueprints/consensus_manager/consensus_manager.rs :: impl ConsensusManagerBlueprint :: fn get_current_time_v1
        @sig
            requires typed(old(api).fields())
            ensures
                final(api).fields() == old(api).fields(),
                ret is Ok ==> final(api).handles() =~= old(api).handles(),
                ret matches Ok(i) ==> i.seconds_since_unix_epoch == clock_seconds_v1(precision, old(api).fields()),
        @*/
        /*@fn radix-engine/src/blueprints/consensus_manager/consensus_manager.rs :: impl ConsensusManagerBlueprint :: fn get_current_time_v2
        @sig
            requires typed(old(api).fields())
            ensures
                final(api).fields() == old(api).fields(),
                ret is Ok ==> final(api).handles() =~= old(api).handles(),
                ret matches Ok(i) ==> i.seconds_since_unix_epoch == clock_seconds_v2(precision, old(api).fields()),
        @*/

        // ---- comparing against the clock ---------------------------------------------------------
        /*@fn radix-engine/src/blueprints/consensus_manager/consensus_manager.rs :: impl ConsensusManagerBlueprint :: fn compare_current_time_v1
        @sig
            requires typed(old(api).fields())
            ensures
                final(api).fields() == old(api).fields(),
                ret is Ok ==> final(api).handles() =~= old(api).handles(),
                ret matches Ok(b) ==> b == cmp_op(operator, minute(old(api).fields()), other_minute(other_arbitrary_precision_instant)),
        @closure 1 := || -> (r: i32) ensures r == (if other_arbitrary_precision_instant.seconds_since_unix_epoch < 0 { i32::MIN } else { i32::MAX })
        @*/
        /*@fn radix-engine/src/blueprints/consensus_manager/consensus_manager.rs :: impl ConsensusManagerBlueprint :: fn compare_current_time_v2
        @sig
            requires typed(old(api).fields())
            ensures
                final(api).fields() == old(api).fields(),
                ret is Ok ==> final(api).handles() =~= old(api).handles(),
                ret matches Ok(b) ==> b == (match precision {
                    TimePrecisionV2::Minute => cmp_op(operator, minute(old(api).fields()), other_minute(other_arbitrary_precision_instant)),
                    TimePrecisionV2::Second => cmp_op(operator, tdiv(milli(old(api).fields()), 1000), other_arbitrary_precision_instant.seconds_since_unix_epoch as int),
                }),
        @closure 1 := || -> (r: i32) ensures r == (if other_arbitrary_precision_instant.seconds_since_unix_epoch < 0 { i32::MIN } else { i32::MAX })
        @*/

        // ---- rounds and epochs -------------------------------------------------------------------
        /*@fn radix-engine/src/blueprints/consensus_manager/consensus_manager.rs :: impl ConsensusManagerBlueprint :: fn get_current_epoch
        @sig
            requires typed(old(api).fields())
            ensures
                final(api).fields() == old(api).fields(),
                ret matches Ok(e) ==> e == state(old(api).fields()).epoch,
        @*/

        /*@fn radix-engine/src/blueprints/consensus_manager/consensus_manager.rs :: impl ConsensusManagerBlueprint :: fn next_round
        @sig
            requires typed(old(api).fields())
            ensures
                typed(final(api).fields()),
                ret is Ok ==> final(api).handles() =~= old(api).handles(),
                // C44 rounds/epochs: either the round advances inside the epoch, or the epoch advances by one and the round is reset
                ret is Ok ==> round_step(state(old(api).fields()), state(final(api).fields()), round, proposer_timestamp_milli),
                ret is Ok ==> state(final(api).fields()).started == state(old(api).fields()).started
                           && state(final(api).fields()).current_leader == Some(proposal_history.current_leader),
                // a round that does not advance is refused with State as it was; whatever the outcome (an Err
                // from the final field_close after the write included) State is unchanged or made a legal step
                round.0 <= state(old(api).fields()).round.0 ==> ret is Err && state(final(api).fields()) == state(old(api).fields()),
                state(final(api).fields()) == state(old(api).fields())
                    || round_step(state(old(api).fields()), state(final(api).fields()), round, proposer_timestamp_milli),
                // C44 time (inherited from check_non_decreasing_and_update_timestamps)
                ret is Ok ==> milli(final(api).fields()) == proposer_timestamp_milli && proposer_timestamp_milli >= milli(old(api).fields()),
                ret is Ok ==> minute(final(api).fields()) == max(minute(old(api).fields()), minute_of(proposer_timestamp_milli as int)),
                proposer_timestamp_milli < milli(old(api).fields()) ==> ret is Err && final(api).fields() == old(api).fields(),
                milli(final(api).fields()) >= milli(old(api).fields()),
                minute(final(api).fields()) >= minute(old(api).fields()),
                // the configuration is never written
                final(api).fields()[I_CONFIG()] == old(api).fields()[I_CONFIG()],
                // link to the history lemma below
                ret is Ok ==> committed_step(view(old(api).fields()), view(final(api).fields())),
        @*/

        /*@fn radix-engine/src/blueprints/consensus_manager/consensus_manager.rs :: impl ConsensusManagerBlueprint :: fn start
        @sig
            requires typed(old(api).fields())
            ensures
                typed(final(api).fields()),
                ret is Ok ==> final(api).handles() =~= old(api).handles(),
                // genesis -> first epoch: epoch + 1, round 0
                ret is Ok ==> !state(old(api).fields()).started && state(final(api).fields()).started
                           && state(final(api).fields()).epoch.0 == state(old(api).fields()).epoch.0 + 1
                           && state(final(api).fields()).round.0 == 0,
                state(old(api).fields()).started ==> ret is Err && state(final(api).fields()) == state(old(api).fields()),
                state(final(api).fields()) == state(old(api).fields())
                    || (state(final(api).fields()).epoch.0 == state(old(api).fields()).epoch.0 + 1 && state(final(api).fields()).round.0 == 0),
                // the clocks and the configuration are not touched
                final(api).fields()[I_MILLI()] == old(api).fields()[I_MILLI()],
                final(api).fields()[I_MINUTE()] == old(api).fields()[I_MINUTE()],
                final(api).fields()[I_CONFIG()] == old(api).fields()[I_CONFIG()],
                ret is Ok ==> committed_step(view(old(api).fields()), view(final(api).fields())),
        @*/
    }

    // ------------------------------------------------------------------------------------------
    // History lemma: "every sequence of round-change system transactions".  A transaction either
    // commits the effect of an Ok `next_round` (contract above: `committed_step`) or is rolled back
    // (state as before).  Over any such sequence the clocks never decrease, (epoch, round) never
    // decreases lexicographically and the epoch grows by at most one per transaction.
    // ------------------------------------------------------------------------------------------
    pub struct Clock { pub milli: int, pub minute: int, pub epoch: int, pub round: int }
    pub open spec fn view(h: Heap) -> Clock {
        Clock { milli: milli(h), minute: minute(h), epoch: state(h).epoch.0 as int, round: state(h).round.0 as int }
    }
    pub open spec fn committed_step(a: Clock, b: Clock) -> bool {
        &&& b.milli >= a.milli
        &&& b.minute >= a.minute
        &&& ((b.epoch == a.epoch && b.round > a.round) || (b.epoch == a.epoch + 1 && b.round == 0))
    }
    pub open spec fn tx_step(a: Clock, b: Clock) -> bool { b == a || committed_step(a, b) }
    pub open spec fn lex_le(a: Clock, b: Clock) -> bool { a.epoch < b.epoch || (a.epoch == b.epoch && a.round <= b.round) }
    pub open spec fn is_history(s: Seq<Clock>) -> bool {
        forall|i: int| #![trigger s[i]] 0 <= i < s.len() - 1 ==> tx_step(s[i], s[i + 1])
    }
    pub proof fn lemma_history(s: Seq<Clock>, i: int, j: int)
        requires is_history(s), 0 <= i <= j < s.len()
        ensures
            s[i].milli <= s[j].milli,
            s[i].minute <= s[j].minute,
            lex_le(s[i], s[j]),
            s[j].epoch - s[i].epoch <= j - i,
            s[i].epoch <= s[j].epoch,
        decreases j - i
    {
        if i < j {
            lemma_history(s, i, j - 1);
            assert(tx_step(s[j - 1], s[j - 1 + 1]));
        }
    }
}
} // verus!
fn main() {}
