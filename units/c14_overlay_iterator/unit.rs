// Unit c14_overlay_iterator -- property C14 "A database overlay behaves like the database with the commits
// applied" (ordered-listing merge core) and the merge part of C12.
// Real code: radix-rust/src/iterators/{overlaying_iterator.rs, overlaying_result_iterator.rs, traits.rs}.
use vstd::prelude::*;
verus! {
/*@include shims/rt.rs @*/
/*@include shims/peekable.rs @*/

pub mod unit {
    use vstd::prelude::*;
    use core::cmp::Ordering;
    use super::rt::*;
    use super::peekable::{Iterator, Peekable, SeqIter};

    /*@item radix-rust/src/iterators/traits.rs :: trait PeekableKeyExt<'a, K>
    @*/

    impl<'a, K, V: 'a, I> PeekableKeyExt<'a, K> for Peekable<I>
    where
        I: Iterator<Item = (K, V)>,
    {
        /*@fn radix-rust/src/iterators/traits.rs :: impl<'a, K, V: 'a, I> PeekableKeyExt<'a, K> for Peekable<I> :: fn peek_key
        @sig
            ensures
                final(self).rest() == old(self).rest(),
                old(self).rest().len() == 0 ==> ret is None,
                old(self).rest().len() > 0 ==> ret == Some(&old(self).rest()[0].0),
        @subst <<|(key, _value)| key>> => <<|kv: &(K, V)| -> (r: &K) ensures r == &kv.0 { let (key, _value) = kv; key }>> why: Verus closures accept only plain variables as parameters ("only variables are supported here, not general patterns"); the tuple pattern is moved into a `let` on the same argument, and the closure gets the type/ensures annotation Verus needs for Option::map
        @*/
    }

    #[verifier::reject_recursive_types(U)]
    #[verifier::reject_recursive_types(O)]
    /*@item radix-rust/src/iterators/overlaying_iterator.rs :: struct OverlayingIterator
    @*/

    // ---- oracle: ordered merge ---------------------------------------------------
    pub open spec fn merged<V>(u: Seq<(u64, V)>, o: Seq<(u64, Option<V>)>) -> Seq<(u64, V)>
        decreases u.len() + o.len()
    {
        if o.len() == 0 { u }
        else if u.len() > 0 && u[0].0 < o[0].0 { seq![u[0]] + merged(u.subrange(1, u.len() as int), o) }
        else {
            let u2 = if u.len() > 0 && u[0].0 == o[0].0 { u.subrange(1, u.len() as int) } else { u };
            let rest = merged(u2, o.subrange(1, o.len() as int));
            match o[0].1 { Some(v) => seq![(o[0].0, v)] + rest, None => rest }
        }
    }


    // ---- what the oracle means (C14 statement: "equals the base with the commits applied") ----
    // For strictly ascending inputs, `merged(u, o)` is strictly ascending and holds exactly the
    // entries of the overlaid map: key k maps to v  iff  the overlay upserts (k, v), or the overlay
    // does not mention k and the underlying sequence holds (k, v).
    pub open spec fn tl<T>(s: Seq<T>) -> Seq<T> { s.subrange(1, s.len() as int) }
    pub open spec fn sorted<X>(s: Seq<(u64, X)>) -> bool {
        forall|i: int, j: int| 0 <= i < j < s.len() ==> s[i].0 < s[j].0
    }
    pub open spec fn all_gt<X>(s: Seq<(u64, X)>, b: u64) -> bool {
        forall|i: int| 0 <= i < s.len() ==> (#[trigger] s[i]).0 > b
    }
    pub open spec fn holds<X>(s: Seq<(u64, X)>, k: u64, x: X) -> bool {
        exists|i: int| 0 <= i < s.len() && #[trigger] s[i] == (k, x)
    }
    pub open spec fn has_key<X>(s: Seq<(u64, X)>, k: u64) -> bool {
        exists|i: int| 0 <= i < s.len() && (#[trigger] s[i]).0 == k
    }
    pub open spec fn overlay_holds<V>(u: Seq<(u64, V)>, o: Seq<(u64, Option<V>)>, k: u64, v: V) -> bool {
        if has_key(o, k) { holds(o, k, Some(v)) } else { holds(u, k, v) }
    }

    pub proof fn lemma_holds_tail<X>(s: Seq<(u64, X)>, k: u64, x: X)
        requires s.len() > 0
        ensures holds(s, k, x) <==> (s[0] == (k, x) || holds(tl(s), k, x))
    {
        if holds(s, k, x) {
            let i = choose|i: int| 0 <= i < s.len() && #[trigger] s[i] == (k, x);
            if i != 0 { assert(tl(s)[i - 1] == (k, x)); }
        }
        if holds(tl(s), k, x) {
            let j = choose|j: int| 0 <= j < tl(s).len() && #[trigger] tl(s)[j] == (k, x);
            assert(s[j + 1] == (k, x));
        }
    }
    pub proof fn lemma_holds_key_tail<X>(s: Seq<(u64, X)>, k: u64)
        requires s.len() > 0
        ensures has_key(s, k) <==> (s[0].0 == k || has_key(tl(s), k))
    {
        if has_key(s, k) {
            let i = choose|i: int| 0 <= i < s.len() && (#[trigger] s[i]).0 == k;
            if i != 0 { assert(tl(s)[i - 1].0 == k); }
        }
        if has_key(tl(s), k) {
            let j = choose|j: int| 0 <= j < tl(s).len() && (#[trigger] tl(s)[j]).0 == k;
            assert(s[j + 1].0 == k);
        }
    }
    pub proof fn lemma_holds_cons<X>(x0: (u64, X), r: Seq<(u64, X)>, k: u64, x: X)
        ensures holds(seq![x0] + r, k, x) <==> (x0 == (k, x) || holds(r, k, x))
    {
        let s = seq![x0] + r;
        assert(s[0] == x0);
        assert(tl(s) =~= r);
        lemma_holds_tail(s, k, x);
    }
    pub proof fn lemma_sorted_tail<X>(s: Seq<(u64, X)>)
        requires sorted(s), s.len() > 0
        ensures sorted(tl(s)), all_gt(tl(s), s[0].0)
    {
        assert forall|i: int, j: int| 0 <= i < j < tl(s).len() implies tl(s)[i].0 < tl(s)[j].0 by {
            assert(tl(s)[i] == s[i + 1] && tl(s)[j] == s[j + 1]);
        }
        assert forall|i: int| 0 <= i < tl(s).len() implies (#[trigger] tl(s)[i]).0 > s[0].0 by {
            assert(tl(s)[i] == s[i + 1]);
        }
    }
    pub proof fn lemma_all_gt_no_key<X>(s: Seq<(u64, X)>, b: u64, k: u64)
        requires all_gt(s, b), k <= b
        ensures !has_key(s, k), forall|x: X| !holds(s, k, x)
    {
        assert forall|x: X| !holds(s, k, x) by {
            if holds(s, k, x) {
                let i = choose|i: int| 0 <= i < s.len() && #[trigger] s[i] == (k, x);
                assert(s[i].0 > b);
            }
        }
    }
    pub proof fn lemma_sorted_all_gt<X>(s: Seq<(u64, X)>, b: u64)
        requires sorted(s), s.len() > 0 ==> s[0].0 > b
        ensures all_gt(s, b)
    {
        assert forall|i: int| 0 <= i < s.len() implies (#[trigger] s[i]).0 > b by {
            if i > 0 { assert(s[0].0 < s[i].0); }
        }
    }
    pub proof fn lemma_sorted_cons<X>(x0: (u64, X), r: Seq<(u64, X)>)
        requires sorted(r), all_gt(r, x0.0)
        ensures sorted(seq![x0] + r)
    {
        let s = seq![x0] + r;
        assert forall|i: int, j: int| 0 <= i < j < s.len() implies s[i].0 < s[j].0 by {
            assert(s[j] == r[j - 1]);
            if i > 0 { assert(s[i] == r[i - 1]); }
        }
    }

    /// every key of the merge is above a common lower bound of the inputs
    pub proof fn lemma_merged_gt<V>(u: Seq<(u64, V)>, o: Seq<(u64, Option<V>)>, b: u64)
        requires all_gt(u, b), all_gt(o, b)
        ensures all_gt(merged(u, o), b)
        decreases u.len() + o.len()
    {
        if o.len() == 0 {
        } else if u.len() > 0 && u[0].0 < o[0].0 {
            assert forall|i: int| 0 <= i < tl(u).len() implies (#[trigger] tl(u)[i]).0 > b by { assert(tl(u)[i] == u[i + 1]); }
            lemma_merged_gt(tl(u), o, b);
            let r = merged(tl(u), o);
            let m = seq![u[0]] + r;
            assert forall|i: int| 0 <= i < m.len() implies (#[trigger] m[i]).0 > b by {
                if i > 0 { assert(m[i] == r[i - 1]); }
            }
        } else {
            let u2 = if u.len() > 0 && u[0].0 == o[0].0 { tl(u) } else { u };
            assert forall|i: int| 0 <= i < u2.len() implies (#[trigger] u2[i]).0 > b by {
                if u.len() > 0 && u[0].0 == o[0].0 { assert(tl(u)[i] == u[i + 1]); }
            }
            assert forall|i: int| 0 <= i < tl(o).len() implies (#[trigger] tl(o)[i]).0 > b by { assert(tl(o)[i] == o[i + 1]); }
            lemma_merged_gt(u2, tl(o), b);
            let r = merged(u2, tl(o));
            match o[0].1 {
                Some(v) => {
                    let m = seq![(o[0].0, v)] + r;
                    assert forall|i: int| 0 <= i < m.len() implies (#[trigger] m[i]).0 > b by {
                        if i > 0 { assert(m[i] == r[i - 1]); }
                    }
                }
                None => {}
            }
        }
    }

    /// C14/C12 merge oracle, declaratively: ascending, and exactly the overlaid entries
    pub proof fn lemma_merged_is_overlay<V>(u: Seq<(u64, V)>, o: Seq<(u64, Option<V>)>)
        requires sorted(u), sorted(o)
        ensures
            sorted(merged(u, o)),
            forall|k: u64, v: V| holds(merged(u, o), k, v) <==> overlay_holds(u, o, k, v),
        decreases u.len() + o.len()
    {
        let m = merged(u, o);
        if o.len() == 0 {
            assert forall|k: u64, v: V| holds(m, k, v) <==> overlay_holds(u, o, k, v) by {
                assert(!has_key(o, k));
            }
        } else if u.len() > 0 && u[0].0 < o[0].0 {
            let r = merged(tl(u), o);
            lemma_sorted_tail(u);
            lemma_merged_is_overlay(tl(u), o);
            lemma_sorted_all_gt(o, u[0].0);
            lemma_merged_gt(tl(u), o, u[0].0);
            lemma_sorted_cons(u[0], r);
            assert forall|k: u64, v: V| holds(m, k, v) <==> overlay_holds(u, o, k, v) by {
                lemma_holds_cons(u[0], r, k, v);
                lemma_holds_tail(u, k, v);
                if k == u[0].0 { lemma_all_gt_no_key(o, u[0].0, k); }
                assert(holds(r, k, v) <==> overlay_holds(tl(u), o, k, v));
            }
        } else {
            let eq = u.len() > 0 && u[0].0 == o[0].0;
            let u2 = if eq { tl(u) } else { u };
            let r = merged(u2, tl(o));
            let k0 = o[0].0;
            lemma_sorted_tail(o);
            if u.len() > 0 { lemma_sorted_tail(u); }
            lemma_merged_is_overlay(u2, tl(o));
            // every key of u2 and of tl(o) is above k0
            if eq { } else { lemma_sorted_all_gt(u, k0); }
            assert(all_gt(u2, k0));
            lemma_merged_gt(u2, tl(o), k0);
            match o[0].1 {
                Some(v0) => { lemma_sorted_cons((k0, v0), r); }
                None => {}
            }
            assert forall|k: u64, v: V| holds(m, k, v) <==> overlay_holds(u, o, k, v) by {
                lemma_holds_tail(o, k, Some(v));
                lemma_holds_key_tail(o, k);
                assert(holds(r, k, v) <==> overlay_holds(u2, tl(o), k, v));
                if eq { lemma_holds_tail(u, k, v); }
                match o[0].1 {
                    Some(v0) => { lemma_holds_cons((k0, v0), r, k, v); }
                    None => {}
                }
                if k == k0 {
                    lemma_all_gt_no_key(r, k0, k);
                    lemma_all_gt_no_key(tl(o), k0, k);
                    assert(has_key(o, k));
                } else {
                    assert(o[0] != (k, Some(v)));
                }
            }
        }
    }

    // R12: the real header is `impl<K, V, U, O> Iterator for OverlayingIterator<U, O> where K: Ord,
    // U: Iterator<Item = (K, V)>, O: Iterator<Item = (K, Option<V>)>`; here K := u64 and U, O := the
    // stand-in iterator type of shims/peekable.rs (V stays generic).
    impl<V> Iterator for OverlayingIterator<SeqIter<(u64, V)>, SeqIter<(u64, Option<V>)>>
    {
        type Item = (u64, V);

        /*@fn radix-rust/src/iterators/overlaying_iterator.rs :: impl<K, V, U, O> Iterator for OverlayingIterator<U, O> :: fn next
        @sig
            ensures
                ({ let m = merged(old(self).underlying.rest(), old(self).overlaying.rest());
                   let m2 = merged(final(self).underlying.rest(), final(self).overlaying.rest());
                   if m.len() == 0 { ret is None && m2.len() == 0 } else { ret == Some(m[0]) && m2 == m.subrange(1, m.len() as int) } }),
        @loop 1
            invariant merged(self.underlying.rest(), self.overlaying.rest()) == merged(old(self).underlying.rest(), old(self).overlaying.rest()),
            decreases self.underlying.rest().len() + self.overlaying.rest().len(),
        @*/
    }

    // ==========================================================================================
    // OverlayingResultIterator (C12: the track's merge of database entries, which may fail, with
    // the tracked entries)
    // ==========================================================================================
    #[verifier::reject_recursive_types(U)]
    #[verifier::reject_recursive_types(O)]
    /*@item radix-rust/src/iterators/overlaying_result_iterator.rs :: struct OverlayingResultIterator
    @*/

    pub type UItem<V, E> = Result<(u64, V), E>;

    /// oracle for the fallible variant: as `merged`, but the first `Err` coming from the underlying
    /// iterator is yielded as soon as it is looked at, and it is the last item
    pub open spec fn merged_r<V, E>(u: Seq<UItem<V, E>>, o: Seq<(u64, Option<V>)>, errored: bool) -> Seq<UItem<V, E>>
        decreases u.len() + o.len()
    {
        if errored { Seq::empty() }
        else if u.len() > 0 && u[0] is Err { seq![u[0]] }
        else if o.len() == 0 {
            if u.len() == 0 { Seq::empty() } else { seq![u[0]] + merged_r(u.subrange(1, u.len() as int), o, false) }
        }
        else if u.len() > 0 && u[0]->Ok_0.0 < o[0].0 { seq![u[0]] + merged_r(u.subrange(1, u.len() as int), o, false) }
        else {
            let u2 = if u.len() > 0 && u[0]->Ok_0.0 == o[0].0 { u.subrange(1, u.len() as int) } else { u };
            let rest = merged_r(u2, o.subrange(1, o.len() as int), false);
            match o[0].1 { Some(v) => seq![Ok((o[0].0, v))] + rest, None => rest }
        }
    }


    // ---- what `merged_r` means, relative to the infallible oracle --------------------------------
    /// the entries the underlying iterator delivers before its first `Err`
    pub open spec fn okp<V, E>(u: Seq<UItem<V, E>>) -> Seq<(u64, V)>
        decreases u.len()
    {
        if u.len() == 0 || u[0] is Err { Seq::empty() } else { seq![u[0]->Ok_0] + okp(tl(u)) }
    }
    pub proof fn lemma_okp_tl<V, E>(u: Seq<UItem<V, E>>)
        requires u.len() > 0, u[0] is Ok
        ensures okp(u) == seq![u[0]->Ok_0] + okp(tl(u)), tl(okp(u)) =~= okp(tl(u)),
                okp(u).len() == 1 + okp(tl(u)).len(), okp(u)[0] == u[0]->Ok_0,
    {}

    /// The fallible merge
    ///  * yields, as `Ok` items, a prefix of the infallible merge of (entries before the first error) with the overlay;
    ///  * yields an `Err` only as its LAST item, and that item is the first `Err` of the underlying iterator;
    ///  * if the underlying iterator has an `Err`, it IS yielded (iteration ends with it);
    ///  * if the underlying iterator has no `Err`, the result is the complete infallible merge.
    pub proof fn lemma_merged_r<V, E>(u: Seq<UItem<V, E>>, o: Seq<(u64, Option<V>)>)
        ensures ({
            let mr = merged_r(u, o, false); let mm = merged(okp(u), o); let n = okp(u).len();
            &&& n <= u.len()
            &&& forall|i: int| 0 <= i < mr.len() && (#[trigger] mr[i]) is Ok ==> i < mm.len() && mr[i] == Ok::<(u64, V), E>(mm[i])
            &&& forall|i: int| 0 <= i < mr.len() && (#[trigger] mr[i]) is Err ==> i == mr.len() - 1 && n < u.len() && mr[i] == u[n as int]
            &&& n < u.len() ==> mr.len() >= 1 && mr[mr.len() - 1] is Err
            &&& n == u.len() ==> mr.len() == mm.len()
        }),
        decreases u.len() + o.len()
    {
        let mr = merged_r(u, o, false); let mm = merged(okp(u), o); let n = okp(u).len();
        if u.len() > 0 && u[0] is Err {
            assert(mr =~= seq![u[0]]);
        } else if o.len() == 0 {
            if u.len() == 0 {
            } else {
                lemma_okp_tl(u);
                lemma_merged_r(tl(u), o);
                let mr1 = merged_r(tl(u), o, false); let mm1 = merged(okp(tl(u)), o); let n1 = okp(tl(u)).len();
                assert(mr == seq![u[0]] + mr1);
                assert(mm == okp(u) && mm1 == okp(tl(u)));
                assert forall|i: int| 0 <= i < mr.len() && (#[trigger] mr[i]) is Ok implies i < mm.len() && mr[i] == Ok::<(u64, V), E>(mm[i]) by {
                    if i > 0 { assert(mr[i] == mr1[i - 1]); assert(mm[i] == mm1[i - 1]); }
                }
                assert forall|i: int| 0 <= i < mr.len() && (#[trigger] mr[i]) is Err implies i == mr.len() - 1 && n < u.len() && mr[i] == u[n as int] by {
                    assert(i > 0); assert(mr[i] == mr1[i - 1]); assert(u[n as int] == tl(u)[n1 as int]);
                }
                if n < u.len() { assert(mr[mr.len() - 1] == mr1[mr1.len() - 1]); }
            }
        } else if u.len() > 0 && u[0]->Ok_0.0 < o[0].0 {
            lemma_okp_tl(u);
            lemma_merged_r(tl(u), o);
            let mr1 = merged_r(tl(u), o, false); let mm1 = merged(okp(tl(u)), o); let n1 = okp(tl(u)).len();
            assert(mr == seq![u[0]] + mr1);
            assert(mm == seq![okp(u)[0]] + mm1);
            assert forall|i: int| 0 <= i < mr.len() && (#[trigger] mr[i]) is Ok implies i < mm.len() && mr[i] == Ok::<(u64, V), E>(mm[i]) by {
                if i > 0 { assert(mr[i] == mr1[i - 1]); assert(mm[i] == mm1[i - 1]); }
            }
            assert forall|i: int| 0 <= i < mr.len() && (#[trigger] mr[i]) is Err implies i == mr.len() - 1 && n < u.len() && mr[i] == u[n as int] by {
                assert(i > 0); assert(mr[i] == mr1[i - 1]); assert(u[n as int] == tl(u)[n1 as int]);
            }
            if n < u.len() { assert(mr[mr.len() - 1] == mr1[mr1.len() - 1]); }
        } else {
            let eq = u.len() > 0 && u[0]->Ok_0.0 == o[0].0;
            let u2 = if eq { tl(u) } else { u };
            if u.len() > 0 { lemma_okp_tl(u); }
            lemma_merged_r(u2, tl(o));
            let mr1 = merged_r(u2, tl(o), false); let mm1 = merged(okp(u2), tl(o)); let n1 = okp(u2).len();
            let pu2 = if okp(u).len() > 0 && okp(u)[0].0 == o[0].0 { tl(okp(u)) } else { okp(u) };
            assert(pu2 =~= okp(u2));
            assert(mm1 == merged(pu2, tl(o)));
            if eq { assert(n == n1 + 1); assert(n < u.len() ==> u[n as int] == tl(u)[n1 as int]); } else { assert(n == n1); }
            match o[0].1 {
                Some(v) => {
                    assert(mr == seq![Ok::<(u64, V), E>((o[0].0, v))] + mr1);
                    assert(mm == seq![(o[0].0, v)] + mm1);
                    assert forall|i: int| 0 <= i < mr.len() && (#[trigger] mr[i]) is Ok implies i < mm.len() && mr[i] == Ok::<(u64, V), E>(mm[i]) by {
                        if i > 0 { assert(mr[i] == mr1[i - 1]); assert(mm[i] == mm1[i - 1]); }
                    }
                    assert forall|i: int| 0 <= i < mr.len() && (#[trigger] mr[i]) is Err implies i == mr.len() - 1 && n < u.len() && mr[i] == u[n as int] by {
                        assert(i > 0); assert(mr[i] == mr1[i - 1]);
                    }
                    if n < u.len() { assert(mr[mr.len() - 1] == mr1[mr1.len() - 1]); }
                }
                None => {
                    assert(mr == mr1);
                    assert(mm == mm1);
                }
            }
        }
    }

    // R12: real header `impl<K, V, U, O, E> Iterator for OverlayingResultIterator<U, O> where K: Ord,
    // U: Iterator<Item = Result<(K, V), E>>, O: Iterator<Item = (K, Option<V>)>`; K := u64, U, O := SeqIter.
    impl<V, E> Iterator for OverlayingResultIterator<SeqIter<Result<(u64, V), E>>, SeqIter<(u64, Option<V>)>>
    {
        type Item = Result<(u64, V), E>;

        /*@fn radix-rust/src/iterators/overlaying_result_iterator.rs :: impl<K, V, U, O, E> Iterator for OverlayingResultIterator<U, O> :: fn next
        @sig
            ensures
                ({ let m = merged_r(old(self).underlying.rest(), old(self).overlaying.rest(), old(self).errored_out);
                   let m2 = merged_r(final(self).underlying.rest(), final(self).overlaying.rest(), final(self).errored_out);
                   if m.len() == 0 { ret is None && m2.len() == 0 } else { ret == Some(m[0]) && m2 == m.subrange(1, m.len() as int) } }),
        @loop 1
            invariant
                !self.errored_out, !old(self).errored_out,
                merged_r(self.underlying.rest(), self.overlaying.rest(), false) == merged_r(old(self).underlying.rest(), old(self).overlaying.rest(), false),
            decreases self.underlying.rest().len() + self.overlaying.rest().len(),
        @*/
    }

    // ---- composition (hand-written callers, no repo code): the WHOLE sequence produced by repeated
    // `next()` calls is the oracle sequence ------------------------------------------------------
    pub fn drain_overlaying<V>(it: &mut OverlayingIterator<SeqIter<(u64, V)>, SeqIter<(u64, Option<V>)>>) -> (out: Vec<(u64, V)>)
        ensures out@ == merged(old(it).underlying.rest(), old(it).overlaying.rest())
    {
        let mut out: Vec<(u64, V)> = Vec::new();
        loop
            invariant out@ + merged(it.underlying.rest(), it.overlaying.rest()) == merged(old(it).underlying.rest(), old(it).overlaying.rest()),
            decreases merged(it.underlying.rest(), it.overlaying.rest()).len(),
        {
            let ghost m = merged(it.underlying.rest(), it.overlaying.rest());
            let ghost pre = out@;
            match it.next() {
                Some(x) => {
                    out.push(x);
                    proof { assert(out@ + m.subrange(1, m.len() as int) =~= pre + m); }
                }
                None => {
                    proof { assert(pre + m =~= pre); }
                    return out;
                }
            }
        }
    }
    pub fn drain_overlaying_result<V, E>(it: &mut OverlayingResultIterator<SeqIter<Result<(u64, V), E>>, SeqIter<(u64, Option<V>)>>) -> (out: Vec<Result<(u64, V), E>>)
        ensures out@ == merged_r(old(it).underlying.rest(), old(it).overlaying.rest(), old(it).errored_out)
    {
        let mut out: Vec<Result<(u64, V), E>> = Vec::new();
        loop
            invariant out@ + merged_r(it.underlying.rest(), it.overlaying.rest(), it.errored_out)
                        == merged_r(old(it).underlying.rest(), old(it).overlaying.rest(), old(it).errored_out),
            decreases merged_r(it.underlying.rest(), it.overlaying.rest(), it.errored_out).len(),
        {
            let ghost m = merged_r(it.underlying.rest(), it.overlaying.rest(), it.errored_out);
            let ghost pre = out@;
            match it.next() {
                Some(x) => {
                    out.push(x);
                    proof { assert(out@ + m.subrange(1, m.len() as int) =~= pre + m); }
                }
                None => {
                    proof { assert(pre + m =~= pre); }
                    return out;
                }
            }
        }
    }
}
} // verus!
fn main() {}
