// Unit c36_static_interpreter -- property C36 "Static manifest validation matches the bucket/proof lifecycle"
// Real code: radix-transactions/src/manifest/static_manifest_interpreter.rs -- StaticManifestInterpreter: the state
// vectors, every create/get/consume operation on buckets, proofs, address reservations, named addresses and
// intents, handle_instruction (incl. DROP_ALL_PROOFS), handle_invocation, handle_resource_assertion,
// handle_verification, handle_preallocated_addresses, verify_final_instruction, handle_wrap_up,
// NextInstructionRequirement, ValidationRuleset constructors; manifest_instruction_effects.rs ::
// ProofSourceAmount::proof_kind, BucketSourceAmount::resource_address.
// (second unit of C36; units/c36_id_validator covers BasicManifestValidator)
use vstd::prelude::*;
verus! {
/*@include shims/rt.rs @*/
/*@include shims/maps.rs @*/
/*@include shims/collections.rs @*/
/*@include shims/control_flow_try.rs @*/
/*@include shims/format_opaque.rs @*/
/*@include shims/vec_iter_chain.rs @*/

pub mod env {
    use vstd::prelude::*;
    use core::ops::ControlFlow;
    use super::unit::{ProofKind, ProofSourceAmount, BucketSourceAmount};

    // ---- the id newtypes, verbatim from their crates
    /*@item radix-common/src/data/manifest/model/manifest_bucket.rs :: struct ManifestBucket
    @derive Clone, Copy, PartialEq, Eq
    @*/
    /*@item radix-common/src/data/manifest/model/manifest_proof.rs :: struct ManifestProof
    @derive Clone, Copy, PartialEq, Eq
    @*/
    /*@item radix-common/src/data/manifest/model/manifest_address_reservation.rs :: struct ManifestAddressReservation
    @derive Clone, Copy, PartialEq, Eq
    @*/
    /*@item radix-common/src/data/manifest/model/manifest_address.rs :: struct ManifestNamedAddress
    @derive Clone, Copy, PartialEq, Eq
    @*/
    /*@item radix-transactions/src/model/v2/child_subintent_hashes_v2.rs :: struct ManifestNamedIntent
    @derive Clone, Copy, PartialEq, Eq
    @*/
    /*@item radix-common/src/data/manifest/model/manifest_blob.rs :: struct ManifestBlobRef
    @derive
    @*/

    // ---- opaque payload types (only moved around by the code under contract)
    #[verifier::external_body] #[derive(Clone, Copy)] pub struct ResourceAddress { x: u8 }
    #[verifier::external_body] #[derive(Clone, Copy)] pub struct PackageAddress { x: u8 }
    #[verifier::external_body] #[derive(Clone, Copy)] pub struct GlobalAddress { x: u8 }
    #[verifier::external_body] #[derive(Clone, Copy)] pub struct InternalAddress { x: u8 }
    #[verifier::external_body] #[derive(Clone, Copy)] pub struct NodeId { x: u8 }
    #[verifier::external_body] pub struct ManifestDecimal { x: u8 }
    #[verifier::external_body] pub struct ManifestPreciseDecimal { x: u8 }
    #[verifier::external_body] pub struct ManifestNonFungibleLocalId { x: u8 }
    #[verifier::external_body] pub struct ContainerHeader { x: u8 }
    #[verifier::external_body] #[derive(Clone, Copy)] pub struct SubintentHash { x: u8 }
    pub struct Hash(pub [u8; 32]);
    #[verifier::external_body] pub struct TerminalValueBatchRef { x: u8 }
    #[verifier::external_body] pub struct Location { x: u8 }
    #[verifier::external_body] #[derive(Clone, Copy)] pub struct ModuleId { x: u8 }
    #[verifier::external_body] #[derive(Clone, Copy)] pub struct Decimal { x: u8 }
    #[verifier::external_body] pub struct NonFungibleLocalId { x: u8 }
    #[verifier::external_body] pub struct EncodeError { x: u8 }
    #[verifier::external_body] pub struct ManifestValue { x: u8 }
    #[verifier::external_body] pub struct AccessRule { x: u8 }
    #[verifier::external_body] pub struct ManifestResourceConstraints { x: u8 }
    #[verifier::external_body] pub struct ManifestResourceConstraint { x: u8 }
    #[verifier::external_body] #[derive(Clone, Copy)] pub struct ManifestExpression { x: u8 }
    #[verifier::external_body] pub struct DecodeError { x: u8 }

    /*@item radix-common/src/data/manifest/model/manifest_address_kinds.rs :: enum ManifestGlobalAddress
    @derive Clone, Copy
    @*/
    /*@item radix-common/src/data/manifest/model/manifest_address_kinds.rs :: enum ManifestPackageAddress
    @derive Clone, Copy
    @*/
    /*@item radix-common/src/data/manifest/model/manifest_address.rs :: enum ManifestAddress
    @derive Clone, Copy
    @*/
    /*@item radix-common/src/data/manifest/custom_value.rs :: enum ManifestCustomValue
    @derive
    @*/
    /*@item radix-common/src/data/manifest/custom_traversal.rs :: struct ManifestCustomTerminalValueRef
    @derive
    @*/
    /*@item radix-common/src/constants/sbor_payload.rs :: const MANIFEST_SBOR_V1_PAYLOAD_PREFIX
    @*/
    /*@item radix-common/src/constants/sbor_payload.rs :: const MANIFEST_SBOR_V1_MAX_DEPTH
    @*/
    /*@item sbor/src/traversal/untyped/traverser.rs :: struct VecTraverserConfig
    @*/
    // ---- sbor untyped traversal, instantiated for the manifest custom types (shapes of
    // sbor/src/traversal/untyped/{events.rs, traverser.rs}; the traverser itself is an opaque event source)
    pub mod traversal {
        use super::ManifestCustomTerminalValueRef;
        pub enum TerminalValueRef<'de> {
            Bool(bool), I8(i8), I16(i16), I32(i32), I64(i64), I128(i128),
            U8(u8), U16(u16), U32(u32), U64(u64), U128(u128),
            String(&'de str),
            Custom(ManifestCustomTerminalValueRef),
        }
    }
    pub enum TraversalEvent<'de> {
        ContainerStart(ContainerHeader),
        ContainerEnd(ContainerHeader),
        TerminalValue(traversal::TerminalValueRef<'de>),
        TerminalValueBatch(TerminalValueBatchRef),
        End,
        DecodeError(DecodeError),
    }
    pub struct LocatedTraversalEvent<'de> {
        pub location: Location,
        pub event: TraversalEvent<'de>,
    }
    pub enum ExpectedStart { PayloadPrefix(u8), Value }
    /// `evs` is the complete sequence of events (up to and including `End`) that the traverser emits for
    /// `payload`. Uninterpreted: it is DEFINED by what the traverser does (see next_event), nothing is assumed
    /// about the SBOR format.
    pub uninterp spec fn is_traversal_of(payload: Seq<u8>, evs: Seq<TraversalEvent>) -> bool;
    #[verifier::external_body]
    pub struct ManifestTraverser<'de> { x: &'de u8 }
    impl<'de> ManifestTraverser<'de> {
        /// the payload being traversed
        pub uninterp spec fn input(&self) -> Seq<u8>;
        /// history variable: the events handed out so far
        pub uninterp spec fn emitted(&self) -> Seq<TraversalEvent<'de>>;
        #[verifier::external_body]
        pub fn new(input: &'de [u8], expected_start: ExpectedStart, config: VecTraverserConfig) -> (r: Self)
            ensures r.input() == input@, r.emitted() == Seq::<TraversalEvent<'de>>::empty()
        { unimplemented!() }
        /// any event may come next (the payload format is not modelled); it is appended to the history
        #[verifier::external_body]
        pub fn next_event(&mut self) -> (r: LocatedTraversalEvent<'de>)
            ensures final(self).input() == old(self).input(),
                    final(self).emitted() == old(self).emitted().push(r.event),
                    r.event is End ==> is_traversal_of(final(self).input(), final(self).emitted()),
        { unimplemented!() }
    }
    impl ManifestValue {
        /// the manifest-SBOR encoding of the value
        pub uninterp spec fn encoding(&self) -> Seq<u8>;
    }
    #[verifier::external_body]
    pub fn manifest_encode(value: &ManifestValue) -> (r: Result<Vec<u8>, EncodeError>)
        ensures r matches Ok(v) ==> v@ == value.encoding()
    { unimplemented!() }

    // ---- predicates on payload values (resource-assertion checks; C37 covers their meaning)
    impl Decimal { #[verifier::external_body] pub fn is_negative(&self) -> bool { unimplemented!() } }
    impl ResourceAddress { #[verifier::external_body] pub fn is_fungible(&self) -> bool { unimplemented!() } }
    impl ManifestResourceConstraints { #[verifier::external_body] pub fn is_valid(&self) -> bool { unimplemented!() } }
    impl ManifestResourceConstraint {
        #[verifier::external_body] pub fn is_valid_for(&self, resource_address: &ResourceAddress) -> bool { unimplemented!() }
    }

    /*@item radix-transactions/src/manifest/manifest_instruction_effects.rs :: enum InvocationKind
    @derive Clone, Copy
    @*/
    /*@item radix-transactions/src/manifest/manifest_instruction_effects.rs :: enum BucketDestination
    @derive Clone, Copy
    @*/
    /*@item radix-transactions/src/manifest/manifest_instruction_effects.rs :: enum ProofDestination
    @derive Clone, Copy
    @*/
    /*@item radix-transactions/src/manifest/manifest_instruction_effects.rs :: enum AddressReservationDestination
    @derive Clone, Copy
    @*/

    /*@item radix-transactions/src/manifest/manifest_instruction_effects.rs :: enum ExpressionDestination
    @derive Clone, Copy
    @*/
    /*@item radix-transactions/src/manifest/manifest_instruction_effects.rs :: enum BlobDestination
    @derive Clone, Copy
    @*/
    /*@item radix-transactions/src/manifest/manifest_instruction_effects.rs :: enum VerificationKind
    @derive Clone, Copy
    @*/
    /*@item radix-transactions/src/manifest/manifest_instruction_effects.rs :: enum WorktopAssertion
    @derive Clone, Copy
    @*/
    /*@item radix-transactions/src/manifest/manifest_instruction_effects.rs :: enum NextCallAssertion
    @derive Clone, Copy
    @*/
    /*@item radix-transactions/src/manifest/manifest_instruction_effects.rs :: enum BucketAssertion
    @derive Clone, Copy
    @*/
    /*@item radix-transactions/src/manifest/manifest_instruction_effects.rs :: enum ResourceAssertion
    @derive Clone, Copy
    @*/
    /*@item radix-transactions/src/manifest/manifest_instruction_effects.rs :: enum ManifestInstructionEffect
    @derive Clone, Copy
    @*/

    /*@item radix-transactions/src/model/concepts.rs :: enum IntentHash
    @derive Clone, Copy
    @*/
    #[verifier::external_body] #[derive(Clone, Copy)] pub struct TransactionIntentHash { x: u8 }
    /*@item radix-common/src/types/blueprint_id.rs :: struct BlueprintId
    @derive
    @*/
    /*@item radix-transactions/src/model/execution/executable_common.rs :: struct PreAllocatedAddress
    @derive
    @*/
    /*@item radix-transactions/src/model/v2/child_subintent_hashes_v2.rs :: struct ChildSubintentSpecifier
    @derive
    @*/

    /*@item radix-transactions/src/manifest/static_manifest_interpreter.rs :: enum ManifestLocation
    @derive Clone, Copy
    @*/
    /*@item radix-transactions/src/manifest/static_manifest_interpreter.rs :: struct BucketState
    @derive
    @*/
    /*@item radix-transactions/src/manifest/static_manifest_interpreter.rs :: struct ProofState
    @derive
    @*/
    /*@item radix-transactions/src/manifest/static_manifest_interpreter.rs :: struct AddressReservationState
    @derive
    @*/
    /*@item radix-transactions/src/manifest/static_manifest_interpreter.rs :: struct NamedAddressState
    @derive
    @*/
    /*@item radix-transactions/src/manifest/static_manifest_interpreter.rs :: struct IntentState
    @derive
    @*/
    /*@item radix-transactions/src/manifest/static_manifest_interpreter.rs :: enum IntentType
    @derive
    @*/
    /*@item radix-transactions/src/manifest/static_manifest_interpreter.rs :: enum ManifestValidationError
    @derive
    @*/

    // ---- the event records handed to the visitor, verbatim
    /*@item radix-transactions/src/manifest/static_manifest_interpreter.rs :: struct OnNewBucket
    @*/
    /*@item radix-transactions/src/manifest/static_manifest_interpreter.rs :: struct OnConsumeBucket
    @*/
    /*@item radix-transactions/src/manifest/static_manifest_interpreter.rs :: struct OnNewProof
    @*/
    /*@item radix-transactions/src/manifest/static_manifest_interpreter.rs :: struct OnConsumeProof
    @*/
    /*@item radix-transactions/src/manifest/static_manifest_interpreter.rs :: struct OnNewAddressReservation
    @*/
    /*@item radix-transactions/src/manifest/static_manifest_interpreter.rs :: struct OnConsumeAddressReservation
    @*/
    /*@item radix-transactions/src/manifest/static_manifest_interpreter.rs :: struct OnNewNamedAddress
    @*/
    /*@item radix-transactions/src/manifest/static_manifest_interpreter.rs :: struct OnNewIntent
    @*/
    /*@item radix-transactions/src/manifest/static_manifest_interpreter.rs :: struct OnFinish
    @*/
    /*@item radix-transactions/src/manifest/static_manifest_interpreter.rs :: struct OnRegisterBlob
    @*/
    /*@item radix-transactions/src/manifest/static_manifest_interpreter.rs :: struct OnStartInstruction
    @*/
    /*@item radix-transactions/src/manifest/static_manifest_interpreter.rs :: struct OnEndInstruction
    @*/
    /*@item radix-transactions/src/manifest/static_manifest_interpreter.rs :: struct OnDropAuthZoneProofs
    @*/
    /*@item radix-transactions/src/manifest/static_manifest_interpreter.rs :: struct OnPassExpression
    @*/
    /*@item radix-transactions/src/manifest/static_manifest_interpreter.rs :: struct OnPassBlob
    @*/
    /*@item radix-transactions/src/manifest/static_manifest_interpreter.rs :: struct OnResourceAssertion
    @*/
    /*@item radix-transactions/src/manifest/static_manifest_interpreter.rs :: struct OnVerification
    @*/

    // ---- the object-name table of a manifest (manifest_naming.rs): pure look-ups, modelled as
    // uninterpreted functions of the table and the id
    #[verifier::external_body]
    #[derive(Clone, Copy)]
    pub struct ManifestObjectNamesRef<'a> { x: &'a u8 }
    impl<'a> ManifestObjectNamesRef<'a> {
        pub uninterp spec fn bucket_name(self, b: ManifestBucket) -> Option<&'a str>;
        pub uninterp spec fn proof_name(self, p: ManifestProof) -> Option<&'a str>;
        pub uninterp spec fn address_reservation_name(self, r: ManifestAddressReservation) -> Option<&'a str>;
        pub uninterp spec fn address_name(self, a: ManifestNamedAddress) -> Option<&'a str>;
        pub uninterp spec fn intent_name(self, i: ManifestNamedIntent) -> Option<&'a str>;
        #[verifier::external_body]
        pub fn known_bucket_name(&self, bucket: ManifestBucket) -> (r: Option<&'a str>)
            ensures r == self.bucket_name(bucket) { unimplemented!() }
        #[verifier::external_body]
        pub fn known_proof_name(&self, proof: ManifestProof) -> (r: Option<&'a str>)
            ensures r == self.proof_name(proof) { unimplemented!() }
        #[verifier::external_body]
        pub fn known_address_reservation_name(&self, reservation: ManifestAddressReservation) -> (r: Option<&'a str>)
            ensures r == self.address_reservation_name(reservation) { unimplemented!() }
        #[verifier::external_body]
        pub fn known_address_name(&self, named_address: ManifestNamedAddress) -> (r: Option<&'a str>)
            ensures r == self.address_name(named_address) { unimplemented!() }
        #[verifier::external_body]
        pub fn known_intent_name(&self, intent: ManifestNamedIntent) -> (r: Option<&'a str>)
            ensures r == self.intent_name(intent) { unimplemented!() }
    }

    /// manifest_traits.rs: the part of ReadableManifest(Base) the lifecycle functions use
    pub trait ReadableManifest {
        spec fn names(&self) -> ManifestObjectNamesRef<'_>;
        fn get_known_object_names_ref(&self) -> (r: ManifestObjectNamesRef<'_>)
            ensures r == self.names();
        spec fn subintent(&self) -> bool;
        fn is_subintent(&self) -> (r: bool)
            ensures r == self.subintent();
        /// number of child subintents declared in the intent header
        spec fn child_count(&self) -> nat;
        fn get_child_subintent_hashes(&self) -> (r: ChildSubintentHashes<'_>)
            ensures r.count() == self.child_count();
        /// the instruction effects of the manifest, in order
        spec fn effects(&self) -> Seq<ManifestInstructionEffect<'_>>;
        fn instruction_count(&self) -> (r: usize)
            ensures r == self.effects().len();
        /// (manifest_traits.rs: "Panics if index is out of bounds")
        fn instruction_effect(&self, index: usize) -> (r: ManifestInstructionEffect<'_>)
            requires index < self.effects().len()
            ensures r == self.effects()[index as int];
    }
    /// `impl ExactSizeIterator<Item = &ChildSubintentSpecifier>`: only its length is used here
    #[verifier::external_body]
    pub struct ChildSubintentHashes<'a> { x: &'a u8 }
    impl<'a> ChildSubintentHashes<'a> {
        pub uninterp spec fn count(&self) -> nat;
        #[verifier::external_body] pub fn len(&self) -> (r: usize) ensures r == self.count() { unimplemented!() }
    }

    /// static_manifest_interpreter.rs :: trait ManifestInterpretationVisitor. The visitor is NOT under
    /// contract: an implementation may answer Continue or Break(anything) to every event. Its answer is
    /// modelled as a function `answer_*` of the visitor's state before the call and of the event record
    /// (a Rust function is deterministic in its inputs), so that contracts can say
    /// "Continue <==> guard && the visitor continues".
    pub trait ManifestInterpretationVisitor {
        type Output: From<ManifestValidationError>;

        /// an invariant of the visitor (chosen by the implementation; `false` is always a valid choice) under
        /// which it never breaks: lets contracts state COMPLETENESS ("with a visitor that does not object, an
        /// operation is accepted exactly when its guard holds"), e.g. for the no-op visitor `()` used by `validate()`
        spec fn quiet(&self) -> bool;

        spec fn answer_new_bucket(&self, bucket: ManifestBucket, state: BucketState) -> ControlFlow<Self::Output>;
        fn on_new_bucket(&mut self, details: OnNewBucket) -> (r: ControlFlow<Self::Output>)
            ensures r == old(self).answer_new_bucket(details.bucket, *details.state),
                    old(self).quiet() ==> final(self).quiet() && r is Continue;

        spec fn answer_consume_bucket(&self, bucket: ManifestBucket, state: BucketState, destination: BucketDestination) -> ControlFlow<Self::Output>;
        fn on_consume_bucket(&mut self, details: OnConsumeBucket) -> (r: ControlFlow<Self::Output>)
            ensures r == old(self).answer_consume_bucket(details.bucket, *details.state, details.destination),
                    old(self).quiet() ==> final(self).quiet() && r is Continue;

        spec fn answer_new_proof(&self, proof: ManifestProof, state: ProofState) -> ControlFlow<Self::Output>;
        fn on_new_proof(&mut self, details: OnNewProof) -> (r: ControlFlow<Self::Output>)
            ensures r == old(self).answer_new_proof(details.proof, *details.state),
                    old(self).quiet() ==> final(self).quiet() && r is Continue;

        spec fn answer_consume_proof(&self, proof: ManifestProof, state: ProofState, destination: ProofDestination) -> ControlFlow<Self::Output>;
        fn on_consume_proof(&mut self, details: OnConsumeProof) -> (r: ControlFlow<Self::Output>)
            ensures r == old(self).answer_consume_proof(details.proof, *details.state, details.destination),
                    old(self).quiet() ==> final(self).quiet() && r is Continue;

        spec fn answer_new_address_reservation(&self, address_reservation: ManifestAddressReservation, state: AddressReservationState) -> ControlFlow<Self::Output>;
        fn on_new_address_reservation(&mut self, details: OnNewAddressReservation) -> (r: ControlFlow<Self::Output>)
            ensures r == old(self).answer_new_address_reservation(details.address_reservation, *details.state),
                    old(self).quiet() ==> final(self).quiet() && r is Continue;

        spec fn answer_consume_address_reservation(&self, address_reservation: ManifestAddressReservation, state: AddressReservationState,
                                                   destination: AddressReservationDestination) -> ControlFlow<Self::Output>;
        fn on_consume_address_reservation(&mut self, details: OnConsumeAddressReservation) -> (r: ControlFlow<Self::Output>)
            ensures r == old(self).answer_consume_address_reservation(details.address_reservation, *details.state, details.destination),
                    old(self).quiet() ==> final(self).quiet() && r is Continue;

        spec fn answer_new_named_address(&self, named_address: ManifestNamedAddress, state: NamedAddressState,
                                         package_address: &PackageAddress, blueprint_name: &str) -> ControlFlow<Self::Output>;
        fn on_new_named_address(&mut self, details: OnNewNamedAddress) -> (r: ControlFlow<Self::Output>)
            ensures r == old(self).answer_new_named_address(details.named_address, *details.state, details.package_address, details.blueprint_name),
                    old(self).quiet() ==> final(self).quiet() && r is Continue;

        spec fn answer_new_intent(&self, intent: ManifestNamedIntent, state: IntentState) -> ControlFlow<Self::Output>;
        fn on_new_intent(&mut self, details: OnNewIntent) -> (r: ControlFlow<Self::Output>)
            ensures r == old(self).answer_new_intent(details.intent, *details.state),
                    old(self).quiet() ==> final(self).quiet() && r is Continue;

        spec fn answer_finish(&self) -> ControlFlow<Self::Output>;
        fn on_finish(&mut self, details: OnFinish) -> (r: ControlFlow<Self::Output>)
            ensures r == old(self).answer_finish(),
                    old(self).quiet() ==> final(self).quiet() && r is Continue;

        // events that do not concern the id lifecycle: any answer
        fn on_start_instruction(&mut self, details: OnStartInstruction) -> (r: ControlFlow<Self::Output>)
            ensures old(self).quiet() ==> final(self).quiet() && r is Continue;
        fn on_end_instruction(&mut self, details: OnEndInstruction) -> (r: ControlFlow<Self::Output>)
            ensures old(self).quiet() ==> final(self).quiet() && r is Continue;
        fn on_drop_authzone_proofs(&mut self, details: OnDropAuthZoneProofs) -> (r: ControlFlow<Self::Output>)
            ensures old(self).quiet() ==> final(self).quiet() && r is Continue;
        fn on_pass_expression(&mut self, details: OnPassExpression) -> (r: ControlFlow<Self::Output>)
            ensures old(self).quiet() ==> final(self).quiet() && r is Continue;
        fn on_pass_blob(&mut self, details: OnPassBlob) -> (r: ControlFlow<Self::Output>)
            ensures old(self).quiet() ==> final(self).quiet() && r is Continue;
        fn on_resource_assertion(&mut self, details: OnResourceAssertion) -> (r: ControlFlow<Self::Output>)
            ensures old(self).quiet() ==> final(self).quiet() && r is Continue;
        fn on_verification(&mut self, details: OnVerification) -> (r: ControlFlow<Self::Output>)
            ensures old(self).quiet() ==> final(self).quiet() && r is Continue;
        fn on_register_blob(&mut self, details: OnRegisterBlob) -> (r: ControlFlow<Self::Output>)
            ensures old(self).quiet() ==> final(self).quiet() && r is Continue;
    }
}

pub mod unit {
    use vstd::prelude::*;
    use core::ops::ControlFlow;
    use vstd::set_lib::set_int_range;
    use super::rt::*;
    use super::colls::*;
    use super::vec_iter::*;
    use super::env::*;
    use super::env::Decimal;
    use super::env::ManifestInstructionEffect as Effect;

    /*@item radix-transactions/src/validation/id_validator.rs :: enum ProofKind
    @derive PartialEq, Eq
    @*/
    /*@item radix-transactions/src/manifest/manifest_instruction_effects.rs :: enum ProofSourceAmount
    @derive Clone, Copy
    @*/
    /*@item radix-transactions/src/manifest/manifest_instruction_effects.rs :: enum BucketSourceAmount
    @derive Clone, Copy
    @*/
    /*@item radix-transactions/src/manifest/static_manifest_interpreter.rs :: struct ValidationRuleset
    @*/
    /*@item radix-transactions/src/manifest/static_manifest_interpreter.rs :: enum NextInstructionRequirement
    @*/
    /*@item radix-transactions/src/manifest/static_manifest_interpreter.rs :: struct StaticManifestInterpreter
    @*/

    // ------------------------------------------------------------------------------------------
    // Oracle (from the property statement): the lifecycle automaton over ids.
    //   An id exists ("created") once it has been handed out; it is LIVE from its creation until it is
    //   consumed, and a consumed id never becomes live again. A proof has a kind (from a bucket / from
    //   the auth zone); a bucket is LOCKED while some live proof was created from it. Creating a proof
    //   from a bucket needs the bucket live; consuming a bucket needs it live and unlocked; cloning or
    //   consuming a proof needs the proof live. Named addresses and intents are never consumed.
    // ------------------------------------------------------------------------------------------
    pub type Out<V> = <V as ManifestInterpretationVisitor>::Output;

    impl<'a> ProofSourceAmount<'a> {
        /// oracle for the kind of a proof: the three `Bucket*` sources come from that bucket
        pub open spec fn kind(&self) -> ProofKind {
            match *self {
                ProofSourceAmount::BucketAllOf { bucket } => ProofKind::BucketProof(bucket),
                ProofSourceAmount::BucketAmount { bucket, .. } => ProofKind::BucketProof(bucket),
                ProofSourceAmount::BucketNonFungibles { bucket, .. } => ProofKind::BucketProof(bucket),
                _ => ProofKind::AuthZoneProof,
            }
        }

        /*@fn radix-transactions/src/manifest/manifest_instruction_effects.rs :: impl<'a> ProofSourceAmount<'a> :: fn proof_kind
        @sig
            ensures ret == self.kind(),
        @*/
    }

    impl<'a> BucketSourceAmount<'a> {
        /*@fn radix-transactions/src/manifest/manifest_instruction_effects.rs :: impl<'a> BucketSourceAmount<'a> :: fn resource_address
        @sig
            ensures
                *self matches BucketSourceAmount::AllOnWorktop { resource_address } ==> ret == resource_address,
                *self matches BucketSourceAmount::AmountFromWorktop { resource_address, .. } ==> ret == resource_address,
                *self matches BucketSourceAmount::NonFungiblesFromWorktop { resource_address, .. } ==> ret == resource_address,
        @*/
    }

    /// proof number `i` is live and was created from bucket `b`
    pub open spec fn live_proof_of(ps: Seq<ProofState>, i: int, b: ManifestBucket) -> bool {
        0 <= i < ps.len() && ps[i].consumed_at is None && ps[i].source_amount.kind() == ProofKind::BucketProof(b)
    }
    /// the live proofs that were created from bucket `b`
    pub open spec fn proofs_of(ps: Seq<ProofState>, b: ManifestBucket) -> Set<int> {
        set_int_range(0, ps.len() as int).filter(|i: int| live_proof_of(ps, i, b))
    }
    /// ghost lock state of a bucket: some live proof refers to it
    pub open spec fn locked(ps: Seq<ProofState>, b: ManifestBucket) -> bool {
        exists|i: int| live_proof_of(ps, i, b)
    }
    /// effect of creating one more proof of kind `k` on the bucket table: exactly that bucket's lock counter + 1
    pub open spec fn buckets_after_new_proof<'a>(bs: Seq<BucketState<'a>>, k: ProofKind) -> Seq<BucketState<'a>> {
        match k {
            ProofKind::BucketProof(b) => bs.update(b.0 as int, BucketState { proof_locks: (bs[b.0 as int].proof_locks + 1) as u32, ..bs[b.0 as int] }),
            ProofKind::AuthZoneProof => bs,
        }
    }
    /// effect of consuming one proof of kind `k` on the bucket table: exactly that bucket's lock counter - 1
    pub open spec fn buckets_after_drop_proof<'a>(bs: Seq<BucketState<'a>>, k: ProofKind) -> Seq<BucketState<'a>> {
        match k {
            ProofKind::BucketProof(b) => bs.update(b.0 as int, BucketState { proof_locks: (bs[b.0 as int].proof_locks - 1) as u32, ..bs[b.0 as int] }),
            ProofKind::AuthZoneProof => bs,
        }
    }

    /// `o` is the visitor-output form (`.into()`) of the validation error `e`
    pub open spec fn is_err<V: ManifestInterpretationVisitor>(o: Out<V>, e: ManifestValidationError) -> bool {
        call_ensures(<Out<V> as From<ManifestValidationError>>::from, (e,), o)
    }
    // ... of the errors that carry a debug text (`format!("{state:?}")`; the text itself is not specified)
    pub open spec fn is_err_bucket_already_used<V: ManifestInterpretationVisitor>(o: Out<V>, b: ManifestBucket) -> bool {
        exists|s: String| #[trigger] call_ensures(<Out<V> as From<ManifestValidationError>>::from, (ManifestValidationError::BucketAlreadyUsed(b, s),), o)
    }
    pub open spec fn is_err_bucket_locked<V: ManifestInterpretationVisitor>(o: Out<V>, b: ManifestBucket) -> bool {
        exists|s: String| #[trigger] call_ensures(<Out<V> as From<ManifestValidationError>>::from, (ManifestValidationError::BucketConsumedWhilstLockedByProof(b, s),), o)
    }
    pub open spec fn is_err_proof_already_used<V: ManifestInterpretationVisitor>(o: Out<V>, p: ManifestProof) -> bool {
        exists|s: String| #[trigger] call_ensures(<Out<V> as From<ManifestValidationError>>::from, (ManifestValidationError::ProofAlreadyUsed(p, s),), o)
    }
    pub open spec fn is_err_reservation_already_used<V: ManifestInterpretationVisitor>(o: Out<V>, r: ManifestAddressReservation) -> bool {
        exists|s: String| #[trigger] call_ensures(<Out<V> as From<ManifestValidationError>>::from, (ManifestValidationError::AddressReservationAlreadyUsed(r, s),), o)
    }
    pub open spec fn is_err_dangling_bucket<V: ManifestInterpretationVisitor>(o: Out<V>, b: ManifestBucket) -> bool {
        exists|s: String| #[trigger] call_ensures(<Out<V> as From<ManifestValidationError>>::from, (ManifestValidationError::DanglingBucket(b, s),), o)
    }
    pub open spec fn is_err_dangling_reservation<V: ManifestInterpretationVisitor>(o: Out<V>, r: ManifestAddressReservation) -> bool {
        exists|s: String| #[trigger] call_ensures(<Out<V> as From<ManifestValidationError>>::from, (ManifestValidationError::DanglingAddressReservation(r, s),), o)
    }
    /// the error for using bucket `b` when it is not live
    pub open spec fn is_err_bucket_not_live<V: ManifestInterpretationVisitor>(o: Out<V>, b: ManifestBucket, created: bool) -> bool {
        if created { is_err_bucket_already_used::<V>(o, b) } else { is_err::<V>(o, ManifestValidationError::BucketNotYetCreated(b)) }
    }
    pub open spec fn is_err_proof_not_live<V: ManifestInterpretationVisitor>(o: Out<V>, p: ManifestProof, created: bool) -> bool {
        if created { is_err_proof_already_used::<V>(o, p) } else { is_err::<V>(o, ManifestValidationError::ProofNotYetCreated(p)) }
    }
    pub open spec fn is_err_reservation_not_live<V: ManifestInterpretationVisitor>(o: Out<V>, r: ManifestAddressReservation, created: bool) -> bool {
        if created { is_err_reservation_already_used::<V>(o, r) } else { is_err::<V>(o, ManifestValidationError::AddressReservationNotYetCreated(r)) }
    }

    impl<'a, M: ReadableManifest + ?Sized> StaticManifestInterpreter<'a, M> {
        // ---- abstraction of the state vectors: id n is entry n; consumed_at marks the end of its life
        pub open spec fn bucket_created(&self, b: ManifestBucket) -> bool {
            (b.0 as int) < self.bucket_state@.len()
        }
        pub open spec fn bucket_live(&self, b: ManifestBucket) -> bool {
            self.bucket_created(b) && self.bucket_state@[b.0 as int].consumed_at is None
        }
        pub open spec fn proof_created(&self, p: ManifestProof) -> bool {
            (p.0 as int) < self.proof_state@.len()
        }
        pub open spec fn proof_live(&self, p: ManifestProof) -> bool {
            self.proof_created(p) && self.proof_state@[p.0 as int].consumed_at is None
        }
        pub open spec fn reservation_created(&self, r: ManifestAddressReservation) -> bool {
            (r.0 as int) < self.address_reservation_state@.len()
        }
        pub open spec fn reservation_live(&self, r: ManifestAddressReservation) -> bool {
            self.reservation_created(r) && self.address_reservation_state@[r.0 as int].consumed_at is None
        }
        pub open spec fn named_address_created(&self, a: ManifestNamedAddress) -> bool {
            (a.0 as int) < self.named_address_state@.len()
        }
        pub open spec fn intent_created(&self, i: ManifestNamedIntent) -> bool {
            (i.0 as int) < self.intent_state@.len()
        }

        /// representation invariant
        pub open spec fn wf(&self) -> bool {
            // (every ruleset constructor of the file switches this check on, see ValidationRuleset below)
            &&& self.validation_ruleset.validate_bucket_proof_lock
            // lock counter of a live bucket == number of live proofs created from it
            &&& forall|b: ManifestBucket| self.bucket_live(b) ==>
                    self.bucket_state@[b.0 as int].proof_locks == #[trigger] proofs_of(self.proof_state@, b).len()
            // a live bucket proof refers to a live bucket
            &&& forall|i: int, b: ManifestBucket| #[trigger] live_proof_of(self.proof_state@, i, b) ==> self.bucket_live(b)
        }
        pub open spec fn is_initial(&self) -> bool {
            &&& self.bucket_state@.len() == 0 && self.proof_state@.len() == 0 && self.address_reservation_state@.len() == 0
            &&& self.named_address_state@.len() == 0 && self.intent_state@.len() == 0
            &&& self.location == ManifestLocation::Preamble
            &&& self.next_instruction_requirement is None
        }
        /// "nothing is consumed twice": between state `self` and a later state `f` the tables only grow
        /// and every id that was already created and is no longer live stays dead.
        pub open spec fn no_resurrection(&self, f: &Self) -> bool {
            &&& self.bucket_state@.len() <= f.bucket_state@.len()
            &&& self.proof_state@.len() <= f.proof_state@.len()
            &&& self.address_reservation_state@.len() <= f.address_reservation_state@.len()
            &&& self.named_address_state@.len() <= f.named_address_state@.len()
            &&& self.intent_state@.len() <= f.intent_state@.len()
            &&& forall|b: ManifestBucket| #![trigger f.bucket_live(b)] #![trigger self.bucket_live(b)] self.bucket_created(b) && !self.bucket_live(b) ==> !f.bucket_live(b)
            &&& forall|p: ManifestProof| #![trigger f.proof_live(p)] #![trigger self.proof_live(p)] self.proof_created(p) && !self.proof_live(p) ==> !f.proof_live(p)
            &&& forall|r: ManifestAddressReservation| #![trigger f.reservation_live(r)] #![trigger self.reservation_live(r)] self.reservation_created(r) && !self.reservation_live(r) ==> !f.reservation_live(r)
        }

        /// the parts of the state that no lifecycle operation touches
        pub open spec fn same_settings(&self, f: &Self) -> bool {
            &&& self.validation_ruleset == f.validation_ruleset
            &&& self.manifest == f.manifest
            &&& self.registered_blobs == f.registered_blobs
        }
        pub open spec fn same_config(&self, f: &Self) -> bool {
            &&& self.same_settings(f)
            &&& self.location == f.location
            &&& self.next_instruction_requirement == f.next_instruction_requirement
        }
        /// no id was created
        pub open spec fn same_lengths(&self, f: &Self) -> bool {
            &&& self.bucket_state@.len() == f.bucket_state@.len()
            &&& self.proof_state@.len() == f.proof_state@.len()
            &&& self.address_reservation_state@.len() == f.address_reservation_state@.len()
            &&& self.named_address_state@.len() == f.named_address_state@.len()
            &&& self.intent_state@.len() == f.intent_state@.len()
        }
        pub open spec fn same_buckets(&self, f: &Self) -> bool { self.bucket_state@ =~= f.bucket_state@ }
        pub open spec fn same_proofs(&self, f: &Self) -> bool { self.proof_state@ =~= f.proof_state@ }
        pub open spec fn same_reservations(&self, f: &Self) -> bool { self.address_reservation_state@ =~= f.address_reservation_state@ }
        pub open spec fn same_named_addresses(&self, f: &Self) -> bool { self.named_address_state@ =~= f.named_address_state@ }
        pub open spec fn same_intents(&self, f: &Self) -> bool { self.intent_state@ =~= f.intent_state@ }
        pub open spec fn same_addresses(&self, f: &Self) -> bool {
            self.same_reservations(f) && self.same_named_addresses(f) && self.same_intents(f)
        }
        /// nothing observable changed (Vec contents are compared through their views)
        pub open spec fn same_state(&self, f: &Self) -> bool {
            self.same_config(f) && self.same_buckets(f) && self.same_proofs(f) && self.same_addresses(f)
        }
    }

    // ---- lemmas ------------------------------------------------------------------------------
    pub proof fn lemma_proofs_bounded(ps: Seq<ProofState>, b: ManifestBucket)
        ensures proofs_of(ps, b).len() <= ps.len()
    {
        vstd::set_lib::lemma_int_range(0, ps.len() as int);
        set_int_range(0, ps.len() as int).lemma_len_filter(|i: int| live_proof_of(ps, i, b));
    }

    /// appending a live proof adds it to the proof set of exactly its bucket
    pub proof fn lemma_push_proof(ps: Seq<ProofState>, st: ProofState)
        requires st.consumed_at is None
        ensures
            forall|b: ManifestBucket| #[trigger] proofs_of(ps.push(st), b).len()
                == proofs_of(ps, b).len() + (if st.source_amount.kind() == ProofKind::BucketProof(b) { 1nat } else { 0nat }),
            forall|i: int, b: ManifestBucket| #[trigger] live_proof_of(ps.push(st), i, b)
                <==> live_proof_of(ps, i, b) || (i == ps.len() && st.source_amount.kind() == ProofKind::BucketProof(b)),
    {
        let ps2 = ps.push(st);
        assert forall|i: int, b: ManifestBucket| #[trigger] live_proof_of(ps2, i, b)
                <==> live_proof_of(ps, i, b) || (i == ps.len() && st.source_amount.kind() == ProofKind::BucketProof(b)) by {
            if 0 <= i < ps.len() { assert(ps2[i] == ps[i]); }
        }
        assert forall|b: ManifestBucket| #[trigger] proofs_of(ps2, b).len()
                == proofs_of(ps, b).len() + (if st.source_amount.kind() == ProofKind::BucketProof(b) { 1nat } else { 0nat }) by {
            if st.source_amount.kind() == ProofKind::BucketProof(b) {
                assert(proofs_of(ps2, b) =~= proofs_of(ps, b).insert(ps.len() as int));
            } else {
                assert(proofs_of(ps2, b) =~= proofs_of(ps, b));
            }
        }
    }

    /// marking live proof `i` consumed removes it from the proof set of exactly its bucket
    pub proof fn lemma_consume_proof(ps: Seq<ProofState>, i: int, st: ProofState)
        requires 0 <= i < ps.len(), ps[i].consumed_at is None, st.consumed_at is Some, st.source_amount == ps[i].source_amount,
        ensures
            forall|b: ManifestBucket| #[trigger] proofs_of(ps.update(i, st), b).len()
                == proofs_of(ps, b).len() - (if ps[i].source_amount.kind() == ProofKind::BucketProof(b) { 1nat } else { 0nat }),
            forall|b: ManifestBucket| ps[i].source_amount.kind() == ProofKind::BucketProof(b) ==> #[trigger] proofs_of(ps, b).len() >= 1,
            forall|j: int, b: ManifestBucket| #[trigger] live_proof_of(ps.update(i, st), j, b) <==> live_proof_of(ps, j, b) && j != i,
    {
        let ps2 = ps.update(i, st);
        assert forall|j: int, b: ManifestBucket| #[trigger] live_proof_of(ps2, j, b) <==> live_proof_of(ps, j, b) && j != i by {
            if 0 <= j < ps.len() && j != i { assert(ps2[j] == ps[j]); }
        }
        assert forall|b: ManifestBucket| #[trigger] proofs_of(ps2, b).len()
                == proofs_of(ps, b).len() - (if ps[i].source_amount.kind() == ProofKind::BucketProof(b) { 1nat } else { 0nat }) by {
            if ps[i].source_amount.kind() == ProofKind::BucketProof(b) {
                assert(live_proof_of(ps, i, b));
                assert(proofs_of(ps, b).contains(i));
                assert(proofs_of(ps2, b) =~= proofs_of(ps, b).remove(i));
            } else {
                assert(proofs_of(ps2, b) =~= proofs_of(ps, b));
            }
        }
        assert forall|b: ManifestBucket| ps[i].source_amount.kind() == ProofKind::BucketProof(b) implies #[trigger] proofs_of(ps, b).len() >= 1 by {
            assert(live_proof_of(ps, i, b));
            assert(proofs_of(ps, b).contains(i));
        }
    }

    /// the ghost lock state coincides with "counter > 0"
    pub proof fn lemma_locked_iff_count(ps: Seq<ProofState>, b: ManifestBucket)
        ensures locked(ps, b) <==> proofs_of(ps, b).len() > 0
    {
        if locked(ps, b) {
            let i = choose|i: int| live_proof_of(ps, i, b);
            assert(proofs_of(ps, b).contains(i));
            assert(proofs_of(ps, b).remove(i).insert(i) =~= proofs_of(ps, b));
        }
        if proofs_of(ps, b).len() > 0 {
            let i = proofs_of(ps, b).choose();
            assert(proofs_of(ps, b).contains(i));
            assert(live_proof_of(ps, i, b));
        }
    }

    /// the list built by DROP_ALL_PROOFS: exactly the live proofs
    pub open spec fn drop_list_ok(ps: Seq<ProofState>, ids: Seq<ManifestProof>) -> bool {
        &&& forall|k: int| 0 <= k < ids.len() ==> (#[trigger] ids[k]).0 < ps.len() && ps[ids[k].0 as int].consumed_at is None
        &&& forall|k: int, l: int| 0 <= k < l < ids.len() ==> (#[trigger] ids[k]).0 < (#[trigger] ids[l]).0
        &&& forall|i: int| 0 <= i < ps.len() && (#[trigger] ps[i]).consumed_at is None ==> exists|k: int| 0 <= k < ids.len() && (#[trigger] ids[k]).0 == i
    }

    /// C36 "nothing is consumed twice", over arbitrary operation sequences: `no_resurrection` composes.
    pub proof fn lemma_no_resurrection_trans<'a, M: ReadableManifest + ?Sized>(
        a: &StaticManifestInterpreter<'a, M>, b: &StaticManifestInterpreter<'a, M>, c: &StaticManifestInterpreter<'a, M>)
        requires a.no_resurrection(b), b.no_resurrection(c)
        ensures a.no_resurrection(c)
    {
        assert forall|x: ManifestBucket| a.bucket_created(x) && !a.bucket_live(x) implies !c.bucket_live(x) by {
            assert(b.bucket_created(x) && !b.bucket_live(x));
        }
        assert forall|x: ManifestProof| a.proof_created(x) && !a.proof_live(x) implies !c.proof_live(x) by {
            assert(b.proof_created(x) && !b.proof_live(x));
        }
        assert forall|x: ManifestAddressReservation| a.reservation_created(x) && !a.reservation_live(x) implies !c.reservation_live(x) by {
            assert(b.reservation_created(x) && !b.reservation_live(x));
        }
    }

    /// an operation that leaves all five tables as they are (same_state) keeps wf and no_resurrection
    pub proof fn lemma_no_resurrection_frame<'a, M: ReadableManifest + ?Sized>(
        a: &StaticManifestInterpreter<'a, M>, b: &StaticManifestInterpreter<'a, M>, c: &StaticManifestInterpreter<'a, M>)
        requires a.no_resurrection(b), b.same_buckets(c), b.same_proofs(c), b.same_addresses(c),
        ensures a.no_resurrection(c), b.wf() && b.validation_ruleset == c.validation_ruleset ==> c.wf(),
    {
    }

    impl NextInstructionRequirement {
        /*@fn radix-transactions/src/manifest/static_manifest_interpreter.rs :: impl NextInstructionRequirement :: fn handle_next_instruction
        @sig
            ensures
                // after a next-call assertion the next instruction must be an invocation (and discharges the requirement)
                ret is Ok <==> (*old(self) is RequiredInvocationDueToNextCallAssertion ==> effect is Invocation),
                ret is Ok ==> *final(self) is None,
                ret matches Err(e) ==> e is InstructionFollowingNextCallAssertionWasNotInvocation && *final(self) == *old(self),
        @*/
        /*@fn radix-transactions/src/manifest/static_manifest_interpreter.rs :: impl NextInstructionRequirement :: fn validate_at_end
        @sig
            ensures
                ret is Ok <==> *self is None,
                ret matches Err(e) ==> e is ManifestEndedWhilstExpectingNextCallAssertion,
        @*/
    }

    impl ValidationRuleset {
        /*@fn radix-transactions/src/manifest/static_manifest_interpreter.rs :: impl ValidationRuleset :: fn all
        @sig
            ensures ret.validate_bucket_proof_lock, ret.validate_no_dangling_nodes,
        @*/
        /*@fn radix-transactions/src/manifest/static_manifest_interpreter.rs :: impl ValidationRuleset :: fn babylon_equivalent
        @sig
            ensures ret.validate_bucket_proof_lock,
        @*/
        /*@fn radix-transactions/src/manifest/static_manifest_interpreter.rs :: impl ValidationRuleset :: fn cuttlefish
        @sig
            ensures ret.validate_bucket_proof_lock, ret.validate_no_dangling_nodes,
        @*/
    }

    impl<'a, M: ReadableManifest + ?Sized> StaticManifestInterpreter<'a, M> {
        /*@fn radix-transactions/src/manifest/static_manifest_interpreter.rs :: impl<'a, M: ReadableManifest + ?Sized> StaticManifestInterpreter<'a, M> :: fn new
        @sig
            requires validation_ruleset.validate_bucket_proof_lock,
            ensures ret.is_initial(), ret.wf(), ret.validation_ruleset == validation_ruleset, ret.manifest == manifest,
        @*/

        // ---------------------------------------------------------------- buckets
        /*@fn radix-transactions/src/manifest/static_manifest_interpreter.rs :: impl<'a, M: ReadableManifest + ?Sized> StaticManifestInterpreter<'a, M> :: fn handle_new_bucket
        @sig
            requires old(self).wf(), old(self).bucket_state@.len() < u32::MAX,
            ensures
                ({
                    let b = ManifestBucket(old(self).bucket_state@.len() as u32);
                    let st = BucketState { name: old(self).manifest.names().bucket_name(b), created_at: old(self).location,
                                           proof_locks: 0, consumed_at: None, source_amount };
                    // a FRESH id: never issued before, hence neither live nor consumed
                    &&& !old(self).bucket_created(b)
                    // creation itself cannot fail: the outcome is the visitor's answer
                    &&& ret == old(visitor).answer_new_bucket(b, st)
                    // exactly that id becomes live, unlocked
                    &&& ret is Continue ==> final(self).bucket_state@ == old(self).bucket_state@.push(st)
                            && final(self).bucket_live(b) && !locked(final(self).proof_state@, b)
                    &&& ret is Break ==> old(self).same_buckets(final(self))
                }),
                old(visitor).quiet() ==> final(visitor).quiet(),
                old(visitor).quiet() ==> ret is Continue,
                old(self).same_config(final(self)), old(self).same_proofs(final(self)), old(self).same_addresses(final(self)),
                final(self).wf(),
                old(self).no_resurrection(final(self)),
        @after <<self.bucket_state.push(>> #1
            proof {
                assert forall|i: int| !(#[trigger] live_proof_of(self.proof_state@, i, new_bucket)) by {
                    if live_proof_of(self.proof_state@, i, new_bucket) { assert(old(self).bucket_live(new_bucket)); }
                }
                assert(proofs_of(self.proof_state@, new_bucket) =~= Set::<int>::empty());
                assert forall|b: ManifestBucket| self.bucket_live(b) implies
                        self.bucket_state@[b.0 as int].proof_locks == #[trigger] proofs_of(self.proof_state@, b).len() by {
                    if b.0 != new_bucket.0 { assert(old(self).bucket_live(b)); }
                }
                assert forall|i: int, b: ManifestBucket| #[trigger] live_proof_of(self.proof_state@, i, b) implies self.bucket_live(b) by {
                    assert(old(self).bucket_live(b));
                }
            }
        @*/

        /*@fn radix-transactions/src/manifest/static_manifest_interpreter.rs :: impl<'a, M: ReadableManifest + ?Sized> StaticManifestInterpreter<'a, M> :: fn get_existing_bucket
        @sig
            ensures
                ret is Continue <==> old(self).bucket_live(bucket),
                ret matches ControlFlow::Continue(st) ==> *st == old(self).bucket_state@[bucket.0 as int]
                    && final(self).bucket_state@ == old(self).bucket_state@.update(bucket.0 as int, *final(st))
                    && old(self).same_config(final(self)) && old(self).same_proofs(final(self)) && old(self).same_addresses(final(self)),
                ret is Break ==> old(self).same_state(final(self)),
                ret matches ControlFlow::Break(o) ==> is_err_bucket_not_live::<V>(o, bucket, old(self).bucket_created(bucket)),
        @*/

        /*@fn radix-transactions/src/manifest/static_manifest_interpreter.rs :: impl<'a, M: ReadableManifest + ?Sized> StaticManifestInterpreter<'a, M> :: fn consume_bucket
        @sig
            requires old(self).wf(),
            ensures
                ({
                    let live = old(self).bucket_live(bucket);
                    let lk = locked(old(self).proof_state@, bucket);
                    let st0 = old(self).bucket_state@[bucket.0 as int];
                    let st1 = BucketState { consumed_at: Some(old(self).location), ..st0 };
                    // rejected (exact error, nothing changes, visitor not consulted) unless live and unlocked
                    &&& !(live && !lk) ==> old(self).same_state(final(self)) && *final(visitor) == *old(visitor)
                            && (ret matches ControlFlow::Break(o) &&
                                    if live { is_err_bucket_locked::<V>(o, bucket) }
                                    else { is_err_bucket_not_live::<V>(o, bucket, old(self).bucket_created(bucket)) })
                    // otherwise exactly that bucket is marked consumed and the outcome is the visitor's answer
                    &&& live && !lk ==> ret == old(visitor).answer_consume_bucket(bucket, st1, destination)
                            && final(self).bucket_state@ == old(self).bucket_state@.update(bucket.0 as int, st1)
                            && !final(self).bucket_live(bucket)
                }),
                old(visitor).quiet() ==> final(visitor).quiet(),
                old(visitor).quiet() ==> (ret is Continue <==> old(self).bucket_live(bucket) && !locked(old(self).proof_state@, bucket)),
                old(self).same_config(final(self)), old(self).same_proofs(final(self)), old(self).same_addresses(final(self)),
                final(self).wf(),
                old(self).no_resurrection(final(self)),
        @entry
            proof { lemma_locked_iff_count(old(self).proof_state@, bucket); }
        @before <<visitor.on_consume_bucket(>> #1
            proof {
                assert forall|i: int, b: ManifestBucket| #[trigger] live_proof_of(old(self).proof_state@, i, b) implies b != bucket by {
                    if b == bucket { assert(locked(old(self).proof_state@, bucket)); }
                }
            }
        @*/

        // ---------------------------------------------------------------- proofs
        /*@fn radix-transactions/src/manifest/static_manifest_interpreter.rs :: impl<'a, M: ReadableManifest + ?Sized> StaticManifestInterpreter<'a, M> :: fn handle_new_proof
        @sig
            requires old(self).wf(), old(self).proof_state@.len() < u32::MAX,
            ensures
                ({
                    let k = source_amount.kind();
                    // a bucket proof needs a live bucket; an auth-zone proof is always possible
                    let guard = k matches ProofKind::BucketProof(b) ==> old(self).bucket_live(b);
                    let p = ManifestProof(old(self).proof_state@.len() as u32);
                    let st = ProofState { name: old(self).manifest.names().proof_name(p), created_at: old(self).location,
                                          consumed_at: None, source_amount };
                    &&& !old(self).proof_created(p)
                    &&& !guard ==> old(self).same_state(final(self)) && *final(visitor) == *old(visitor)
                            && (ret matches ControlFlow::Break(o) && k matches ProofKind::BucketProof(b)
                                    && is_err_bucket_not_live::<V>(o, b, old(self).bucket_created(b)))
                    &&& guard ==> ret == old(visitor).answer_new_proof(p, st)
                    // exactly that proof becomes live and exactly its bucket gets one more lock
                    &&& ret is Continue ==> final(self).proof_state@ == old(self).proof_state@.push(st)
                            && final(self).bucket_state@ == buckets_after_new_proof(old(self).bucket_state@, k)
                            && final(self).proof_live(p)
                            && (k matches ProofKind::BucketProof(b) ==> locked(final(self).proof_state@, b))
                            && final(self).wf()
                    &&& ret is Break ==> old(self).same_proofs(final(self))
                }),
                old(visitor).quiet() ==> final(visitor).quiet(),
                old(visitor).quiet() ==> (ret is Continue <==> (source_amount.kind() matches ProofKind::BucketProof(b) ==> old(self).bucket_live(b))),
                final(self).bucket_state@.len() == old(self).bucket_state@.len(),
                old(self).same_config(final(self)), old(self).same_addresses(final(self)),
                old(self).no_resurrection(final(self)),
        @entry
            let ghost new_p = ManifestProof(old(self).proof_state@.len() as u32);
            let ghost new_st = ProofState { name: old(self).manifest.names().proof_name(new_p), created_at: old(self).location,
                                            consumed_at: None, source_amount };
            proof {
                if let ProofKind::BucketProof(b) = source_amount.kind() { lemma_proofs_bounded(old(self).proof_state@, b); }
                lemma_push_proof(old(self).proof_state@, new_st);
            }
        @after <<self.proof_state.push(>> #1
            proof {
                let k = source_amount.kind();
                assert(self.proof_state@ == old(self).proof_state@.push(new_st));
                assert(self.bucket_state@ == buckets_after_new_proof(old(self).bucket_state@, k));
                assert forall|b: ManifestBucket| self.bucket_live(b) <==> old(self).bucket_live(b) by {}
                assert forall|b: ManifestBucket| self.bucket_live(b) implies
                        self.bucket_state@[b.0 as int].proof_locks == #[trigger] proofs_of(self.proof_state@, b).len() by {
                    assert(old(self).bucket_live(b));
                    assert(old(self).bucket_state@[b.0 as int].proof_locks == proofs_of(old(self).proof_state@, b).len());
                }
                assert forall|i: int, b: ManifestBucket| #[trigger] live_proof_of(self.proof_state@, i, b) implies self.bucket_live(b) by {
                    if live_proof_of(old(self).proof_state@, i, b) { assert(old(self).bucket_live(b)); }
                }
                if let ProofKind::BucketProof(b) = k {
                    assert(live_proof_of(self.proof_state@, old(self).proof_state@.len() as int, b));
                }
            }
        @*/

        /*@fn radix-transactions/src/manifest/static_manifest_interpreter.rs :: impl<'a, M: ReadableManifest + ?Sized> StaticManifestInterpreter<'a, M> :: fn get_existing_proof
        @sig
            ensures
                ret is Continue <==> old(self).proof_live(proof),
                ret matches ControlFlow::Continue(st) ==> *st == old(self).proof_state@[proof.0 as int]
                    && final(self).proof_state@ == old(self).proof_state@.update(proof.0 as int, *final(st))
                    && old(self).same_config(final(self)) && old(self).same_buckets(final(self)) && old(self).same_addresses(final(self)),
                ret is Break ==> old(self).same_state(final(self)),
                ret matches ControlFlow::Break(o) ==> is_err_proof_not_live::<V>(o, proof, old(self).proof_created(proof)),
        @*/

        /*@fn radix-transactions/src/manifest/static_manifest_interpreter.rs :: impl<'a, M: ReadableManifest + ?Sized> StaticManifestInterpreter<'a, M> :: fn handle_cloned_proof
        @sig
            requires old(self).wf(), old(self).proof_state@.len() < u32::MAX,
            ensures
                ({
                    let live = old(self).proof_live(cloned_proof);
                    let sa = old(self).proof_state@[cloned_proof.0 as int].source_amount;
                    let p = ManifestProof(old(self).proof_state@.len() as u32);
                    let st = ProofState { name: old(self).manifest.names().proof_name(p), created_at: old(self).location,
                                          consumed_at: None, source_amount: sa };
                    &&& !live ==> old(self).same_state(final(self)) && *final(visitor) == *old(visitor)
                            && (ret matches ControlFlow::Break(o) && is_err_proof_not_live::<V>(o, cloned_proof, old(self).proof_created(cloned_proof)))
                    &&& live ==> ret == old(visitor).answer_new_proof(p, st)
                    // the clone has the SAME source (hence locks the same bucket once more)
                    &&& ret is Continue ==> final(self).proof_state@ == old(self).proof_state@.push(st)
                            && final(self).bucket_state@ == buckets_after_new_proof(old(self).bucket_state@, sa.kind())
                            && final(self).proof_live(p)
                            && final(self).wf()
                    &&& ret is Break ==> old(self).same_proofs(final(self))
                }),
                old(visitor).quiet() ==> final(visitor).quiet(),
                old(visitor).quiet() ==> (ret is Continue <==> old(self).proof_live(cloned_proof)),
                final(self).bucket_state@.len() == old(self).bucket_state@.len(),
                old(self).same_config(final(self)), old(self).same_addresses(final(self)),
                old(self).no_resurrection(final(self)),
        @before <<self.handle_new_proof(>> #1
            proof {
                assert(self.proof_state@ =~= old(self).proof_state@);
                if let ProofKind::BucketProof(b) = source_amount.kind() {
                    assert(live_proof_of(old(self).proof_state@, cloned_proof.0 as int, b));
                }
            }
        @*/

        /*@fn radix-transactions/src/manifest/static_manifest_interpreter.rs :: impl<'a, M: ReadableManifest + ?Sized> StaticManifestInterpreter<'a, M> :: fn consume_proof
        @sig
            requires old(self).wf(),
            ensures
                ({
                    let live = old(self).proof_live(proof);
                    let st0 = old(self).proof_state@[proof.0 as int];
                    let st1 = ProofState { consumed_at: Some(old(self).location), ..st0 };
                    &&& !live ==> old(self).same_state(final(self)) && *final(visitor) == *old(visitor)
                            && (ret matches ControlFlow::Break(o) && is_err_proof_not_live::<V>(o, proof, old(self).proof_created(proof)))
                    // a live proof is marked consumed; the only way to fail then is the visitor
                    &&& live ==> ret == old(visitor).answer_consume_proof(proof, st1, destination)
                            && final(self).proof_state@ == old(self).proof_state@.update(proof.0 as int, st1)
                            && !final(self).proof_live(proof)
                    // ... and exactly its bucket loses one lock
                    &&& ret is Continue ==> final(self).bucket_state@ == buckets_after_drop_proof(old(self).bucket_state@, st0.source_amount.kind())
                            && final(self).wf()
                    &&& ret is Break ==> old(self).same_buckets(final(self))
                }),
                old(visitor).quiet() ==> final(visitor).quiet(),
                old(visitor).quiet() ==> (ret is Continue <==> old(self).proof_live(proof)),
                final(self).bucket_state@.len() == old(self).bucket_state@.len(),
                old(self).same_config(final(self)), old(self).same_addresses(final(self)),
                old(self).no_resurrection(final(self)),
        @before <<let source_amount>> #1
            let ghost st1 = *state;
            proof {
                lemma_consume_proof(old(self).proof_state@, proof.0 as int, st1);
            }
        @before <<self.get_existing_bucket::<V>(bucket)>> #1
            proof {
                assert(live_proof_of(old(self).proof_state@, proof.0 as int, bucket));
                assert(old(self).bucket_live(bucket));
                assert(self.bucket_state@ =~= old(self).bucket_state@);
                assert(old(self).bucket_state@[bucket.0 as int].proof_locks == proofs_of(old(self).proof_state@, bucket).len());
                assert(proofs_of(old(self).proof_state@, bucket).len() >= 1);
            }
        @before <<ControlFlow::Continue(())>> #1
            proof {
                let k = old(self).proof_state@[proof.0 as int].source_amount.kind();
                assert(self.proof_state@ == old(self).proof_state@.update(proof.0 as int, st1));
                assert(self.bucket_state@ == buckets_after_drop_proof(old(self).bucket_state@, k));
                assert forall|b: ManifestBucket| self.bucket_live(b) <==> old(self).bucket_live(b) by {}
                assert forall|b: ManifestBucket| self.bucket_live(b) implies
                        self.bucket_state@[b.0 as int].proof_locks == #[trigger] proofs_of(self.proof_state@, b).len() by {
                    assert(old(self).bucket_live(b));
                    assert(old(self).bucket_state@[b.0 as int].proof_locks == proofs_of(old(self).proof_state@, b).len());
                }
                assert forall|i: int, b: ManifestBucket| #[trigger] live_proof_of(self.proof_state@, i, b) implies self.bucket_live(b) by {
                    assert(live_proof_of(old(self).proof_state@, i, b));
                    assert(old(self).bucket_live(b));
                }
            }
        @*/

        // ---------------------------------------------------------------- address reservations
        /*@fn radix-transactions/src/manifest/static_manifest_interpreter.rs :: impl<'a, M: ReadableManifest + ?Sized> StaticManifestInterpreter<'a, M> :: fn handle_new_address_reservation
        @sig
            requires old(self).wf(), old(self).address_reservation_state@.len() < u32::MAX,
            ensures
                ({
                    let r = ManifestAddressReservation(old(self).address_reservation_state@.len() as u32);
                    let st = AddressReservationState { name: old(self).manifest.names().address_reservation_name(r),
                                                       package_address, blueprint_name, preallocated_address,
                                                       created_at: old(self).location, consumed_at: None };
                    let answer = old(visitor).answer_new_address_reservation(r, st);
                    &&& !old(self).reservation_created(r)
                    // creation cannot fail by itself: the outcome is the visitor's answer, the fresh id is returned
                    &&& answer is Continue ==> ret == ControlFlow::<Out<V>, ManifestAddressReservation>::Continue(r)
                            && final(self).address_reservation_state@ == old(self).address_reservation_state@.push(st)
                            && final(self).reservation_live(r)
                    &&& answer matches ControlFlow::Break(o) ==> ret == ControlFlow::<Out<V>, ManifestAddressReservation>::Break(o)
                            && old(self).same_reservations(final(self))
                }),
                old(visitor).quiet() ==> final(visitor).quiet(),
                old(visitor).quiet() ==> ret is Continue,
                old(self).same_config(final(self)), old(self).same_buckets(final(self)), old(self).same_proofs(final(self)),
                old(self).same_named_addresses(final(self)), old(self).same_intents(final(self)),
                final(self).wf(),
                old(self).no_resurrection(final(self)),
        @*/

        /*@fn radix-transactions/src/manifest/static_manifest_interpreter.rs :: impl<'a, M: ReadableManifest + ?Sized> StaticManifestInterpreter<'a, M> :: fn get_existing_address_reservation
        @sig
            ensures
                ret is Continue <==> old(self).reservation_live(address_reservation),
                ret matches ControlFlow::Continue(st) ==> *st == old(self).address_reservation_state@[address_reservation.0 as int]
                    && final(self).address_reservation_state@ == old(self).address_reservation_state@.update(address_reservation.0 as int, *final(st))
                    && old(self).same_config(final(self)) && old(self).same_buckets(final(self)) && old(self).same_proofs(final(self))
                    && old(self).same_named_addresses(final(self)) && old(self).same_intents(final(self)),
                ret is Break ==> old(self).same_state(final(self)),
                ret matches ControlFlow::Break(o) ==>
                    is_err_reservation_not_live::<V>(o, address_reservation, old(self).reservation_created(address_reservation)),
        @*/

        /*@fn radix-transactions/src/manifest/static_manifest_interpreter.rs :: impl<'a, M: ReadableManifest + ?Sized> StaticManifestInterpreter<'a, M> :: fn consume_address_reservation
        @sig
            requires old(self).wf(),
            ensures
                ({
                    let live = old(self).reservation_live(address_reservation);
                    let st0 = old(self).address_reservation_state@[address_reservation.0 as int];
                    let st1 = AddressReservationState { consumed_at: Some(old(self).location), ..st0 };
                    &&& !live ==> old(self).same_state(final(self)) && *final(visitor) == *old(visitor)
                            && (ret matches ControlFlow::Break(o) &&
                                    is_err_reservation_not_live::<V>(o, address_reservation, old(self).reservation_created(address_reservation)))
                    &&& live ==> ret == old(visitor).answer_consume_address_reservation(address_reservation, st1, destination)
                            && final(self).address_reservation_state@ == old(self).address_reservation_state@.update(address_reservation.0 as int, st1)
                            && !final(self).reservation_live(address_reservation)
                }),
                old(visitor).quiet() ==> final(visitor).quiet(),
                old(visitor).quiet() ==> (ret is Continue <==> old(self).reservation_live(address_reservation)),
                old(self).same_config(final(self)), old(self).same_buckets(final(self)), old(self).same_proofs(final(self)),
                old(self).same_named_addresses(final(self)), old(self).same_intents(final(self)),
                final(self).wf(),
                old(self).no_resurrection(final(self)),
        @*/

        // ---------------------------------------------------------------- named addresses (never consumed)
        /*@fn radix-transactions/src/manifest/static_manifest_interpreter.rs :: impl<'a, M: ReadableManifest + ?Sized> StaticManifestInterpreter<'a, M> :: fn handle_new_named_address
        @sig
            requires old(self).wf(), old(self).named_address_state@.len() < u32::MAX,
            ensures
                ({
                    let a = ManifestNamedAddress(old(self).named_address_state@.len() as u32);
                    let st = NamedAddressState { name: old(self).manifest.names().address_name(a), associated_reservation,
                                                 created_at: old(self).location };
                    &&& !old(self).named_address_created(a)
                    &&& ret == old(visitor).answer_new_named_address(a, st, package_address, blueprint_name)
                    &&& ret is Continue ==> final(self).named_address_state@ == old(self).named_address_state@.push(st)
                            && final(self).named_address_created(a)
                    &&& ret is Break ==> old(self).same_named_addresses(final(self))
                }),
                old(visitor).quiet() ==> final(visitor).quiet(),
                old(visitor).quiet() ==> ret is Continue,
                old(self).same_config(final(self)), old(self).same_buckets(final(self)), old(self).same_proofs(final(self)),
                old(self).same_reservations(final(self)), old(self).same_intents(final(self)),
                final(self).wf(),
                old(self).no_resurrection(final(self)),
        @*/

        /*@fn radix-transactions/src/manifest/static_manifest_interpreter.rs :: impl<'a, M: ReadableManifest + ?Sized> StaticManifestInterpreter<'a, M> :: fn get_existing_named_address
        @sig
            ensures
                ret is Continue <==> old(self).named_address_created(named_address),
                ret matches ControlFlow::Continue(st) ==> *st == old(self).named_address_state@[named_address.0 as int]
                    && final(self).named_address_state@ == old(self).named_address_state@.update(named_address.0 as int, *final(st))
                    && old(self).same_config(final(self)) && old(self).same_buckets(final(self)) && old(self).same_proofs(final(self))
                    && old(self).same_reservations(final(self)) && old(self).same_intents(final(self)),
                ret is Break ==> old(self).same_state(final(self)),
                ret matches ControlFlow::Break(o) ==> is_err::<V>(o, ManifestValidationError::NamedAddressNotYetCreated(named_address)),
        @*/

        // ---------------------------------------------------------------- named intents (never consumed)
        /*@fn radix-transactions/src/manifest/static_manifest_interpreter.rs :: impl<'a, M: ReadableManifest + ?Sized> StaticManifestInterpreter<'a, M> :: fn handle_new_intent
        @sig
            requires old(self).wf(), old(self).intent_state@.len() < u32::MAX,
            ensures
                ({
                    let i = ManifestNamedIntent(old(self).intent_state@.len() as u32);
                    let st = IntentState { name: old(self).manifest.names().intent_name(i), intent_hash, intent_type,
                                           created_at: old(self).location };
                    &&& !old(self).intent_created(i)
                    &&& ret == old(visitor).answer_new_intent(i, st)
                    &&& ret is Continue ==> final(self).intent_state@ == old(self).intent_state@.push(st) && final(self).intent_created(i)
                    &&& ret is Break ==> old(self).same_intents(final(self))
                }),
                old(visitor).quiet() ==> final(visitor).quiet(),
                old(visitor).quiet() ==> ret is Continue,
                old(self).same_config(final(self)), old(self).same_buckets(final(self)), old(self).same_proofs(final(self)),
                old(self).same_reservations(final(self)), old(self).same_named_addresses(final(self)),
                final(self).wf(),
                old(self).no_resurrection(final(self)),
        @*/

        // ---------------------------------------------------------------- instructions that USE ids
        /// a named address used as the callee must have been declared (when the ruleset checks it);
        /// YIELD_TO_PARENT only in a subintent; YIELD_TO_CHILD only to a declared child
        pub open spec fn invocation_target_ok(&self, kind: InvocationKind) -> bool {
            match kind {
                InvocationKind::Method { address, .. } => self.validation_ruleset.validate_dynamic_address_in_command_part ==>
                    (*address matches ManifestGlobalAddress::Named(a) ==> self.named_address_created(a)),
                InvocationKind::Function { address, .. } => self.validation_ruleset.validate_dynamic_address_in_command_part ==>
                    (*address matches ManifestPackageAddress::Named(a) ==> self.named_address_created(a)),
                InvocationKind::DirectMethod { .. } => true,
                InvocationKind::YieldToParent => self.manifest.subintent(),
                InvocationKind::YieldToChild { child_index } => (child_index.0 as nat) < self.manifest.child_count(),
            }
        }

        /*@fn radix-transactions/src/manifest/static_manifest_interpreter.rs :: impl<'a, M: ReadableManifest + ?Sized> StaticManifestInterpreter<'a, M> :: fn handle_resource_assertion
        @sig
            ensures
                old(self).same_settings(final(self)), old(self).location == final(self).location,
                old(self).same_buckets(final(self)), old(self).same_proofs(final(self)), old(self).same_addresses(final(self)),
                old(visitor).quiet() ==> final(visitor).quiet(),
                // a bucket assertion is accepted only for a live bucket
                ret is Continue && old(self).validation_ruleset.validate_resource_assertions ==>
                    (assertion matches ResourceAssertion::Bucket(BucketAssertion::Contents { bucket, .. }) ==> old(self).bucket_live(bucket)),
                // a next-call assertion arms the "next instruction must be an invocation" requirement
                ret is Continue ==> final(self).next_instruction_requirement ==
                    (if old(self).validation_ruleset.validate_resource_assertions && assertion is NextCall {
                        NextInstructionRequirement::RequiredInvocationDueToNextCallAssertion
                    } else { old(self).next_instruction_requirement }),
        @*/

        /*@fn radix-transactions/src/manifest/static_manifest_interpreter.rs :: impl<'a, M: ReadableManifest + ?Sized> StaticManifestInterpreter<'a, M> :: fn handle_verification
        @sig
            ensures
                *final(self) == *old(self),
                old(visitor).quiet() ==> final(visitor).quiet(),
                old(visitor).quiet() ==> (ret is Continue <==> old(self).manifest.subintent()),
                ret is Continue ==> old(self).manifest.subintent(),
        @*/

        /// every id that occurred in the traversed arguments has been used up: buckets, proofs and address
        /// reservations exist and are no longer live, named addresses exist
        pub open spec fn passed_ids_consumed(&self, evs: Seq<TraversalEvent>) -> bool {
            forall|i: int| 0 <= i < evs.len() ==> match #[trigger] evs[i] {
                TraversalEvent::TerminalValue(traversal::TerminalValueRef::Custom(ManifestCustomTerminalValueRef(v))) => match v {
                    ManifestCustomValue::Bucket(b) => self.bucket_created(b) && !self.bucket_live(b),
                    ManifestCustomValue::Proof(p) => self.proof_created(p) && !self.proof_live(p),
                    ManifestCustomValue::AddressReservation(r) => self.reservation_created(r) && !self.reservation_live(r),
                    ManifestCustomValue::Address(ManifestAddress::Named(a)) => self.named_address_created(a),
                    _ => true,
                },
                _ => true,
            }
        }

        #[verifier::exec_allows_no_decreases_clause]
        /*@fn radix-transactions/src/manifest/static_manifest_interpreter.rs :: impl<'a, M: ReadableManifest + ?Sized> StaticManifestInterpreter<'a, M> :: fn handle_invocation
        @sig
            requires old(self).wf(),
            ensures
                // passing ids to an invocation only consumes: nothing is created, nothing comes back to life
                old(self).same_config(final(self)), old(self).same_lengths(final(self)),
                old(self).same_named_addresses(final(self)), old(self).same_intents(final(self)),
                old(self).no_resurrection(final(self)),
                ret is Continue ==> final(self).wf(),
                old(visitor).quiet() ==> final(visitor).quiet(),
                // the callee / kind of the invocation is acceptable
                ret is Continue ==> old(self).invocation_target_ok(invocation_kind),
                // every bucket / proof / address reservation found in the arguments was consumed (it was live when
                // its turn came: consume_* accepts nothing else), every named address found there was declared
                ret is Continue ==> exists|evs: Seq<TraversalEvent>| #[trigger] is_traversal_of(args.encoding(), evs) && final(self).passed_ids_consumed(evs),
                // a proof cannot be passed to another intent
                ret is Continue && (invocation_kind is YieldToParent || invocation_kind is YieldToChild) ==> old(self).same_proofs(final(self)),
        @loop 1
            invariant
                self.wf(),
                old(visitor).quiet() ==> visitor.quiet(),
                old(self).invocation_target_ok(invocation_kind),
                yields_across_intent == (invocation_kind is YieldToParent || invocation_kind is YieldToChild),
                yields_across_intent ==> old(self).same_proofs(self),
                traverser.input() == args.encoding(),
                self.passed_ids_consumed(traverser.emitted()),
                old(self).same_config(self), old(self).same_lengths(self),
                old(self).same_named_addresses(self), old(self).same_intents(self),
                old(self).no_resurrection(self),
            ensures
                is_traversal_of(traverser.input(), traverser.emitted()),
        @before <<let event = traverser.next_event()>> #1
            let ghost pre = *self;
        @after <<self.get_existing_named_address::<V>(named_address)>> #1
            proof { lemma_no_resurrection_frame(old(self), &pre, self); }
        @after <<self.consume_bucket(>> #1
            proof { lemma_no_resurrection_trans(old(self), &pre, self); }
        @after <<self.consume_proof(>> #1
            proof { lemma_no_resurrection_trans(old(self), &pre, self); }
        @after <<self.consume_address_reservation(>> #1
            proof { lemma_no_resurrection_trans(old(self), &pre, self); }
        @*/

        // ---------------------------------------------------------------- one instruction
        /// what an ACCEPTED instruction with effect `e` has done to the id tables (`self` before, `f` after):
        /// every id it uses was live, every id it consumes is dead afterwards, created ids are fresh and live
        pub open spec fn effect_ok(&self, f: &Self, e: ManifestInstructionEffect) -> bool {
            match e {
                ManifestInstructionEffect::CreateBucket { source_amount } => {
                    let b = ManifestBucket(self.bucket_state@.len() as u32);
                    &&& f.bucket_state@.len() == self.bucket_state@.len() + 1
                    &&& f.bucket_state@.take(self.bucket_state@.len() as int) =~= self.bucket_state@
                    &&& f.bucket_live(b) && f.bucket_state@[b.0 as int].proof_locks == 0 && f.bucket_state@[b.0 as int].source_amount == source_amount
                    &&& self.same_proofs(f) && self.same_addresses(f)
                },
                ManifestInstructionEffect::CreateProof { source_amount } => {
                    let p = ManifestProof(self.proof_state@.len() as u32);
                    &&& source_amount.kind() matches ProofKind::BucketProof(b) ==> self.bucket_live(b)
                    &&& f.proof_state@.len() == self.proof_state@.len() + 1
                    &&& f.proof_state@.take(self.proof_state@.len() as int) =~= self.proof_state@
                    &&& f.proof_live(p) && f.proof_state@[p.0 as int].source_amount == source_amount
                    &&& f.bucket_state@ == buckets_after_new_proof(self.bucket_state@, source_amount.kind())
                    &&& self.same_addresses(f)
                },
                ManifestInstructionEffect::ConsumeBucket { consumed_bucket, .. } => {
                    &&& self.bucket_live(consumed_bucket) && !locked(self.proof_state@, consumed_bucket)
                    &&& !f.bucket_live(consumed_bucket)
                    &&& f.bucket_state@.len() == self.bucket_state@.len()
                    &&& forall|i: int| 0 <= i < self.bucket_state@.len() && i != consumed_bucket.0 ==> f.bucket_state@[i] == self.bucket_state@[i]
                    &&& self.same_proofs(f) && self.same_addresses(f)
                },
                ManifestInstructionEffect::ConsumeProof { consumed_proof, .. } => {
                    &&& self.proof_live(consumed_proof)
                    &&& !f.proof_live(consumed_proof)
                    &&& f.proof_state@.len() == self.proof_state@.len()
                    &&& forall|i: int| 0 <= i < self.proof_state@.len() && i != consumed_proof.0 ==> f.proof_state@[i] == self.proof_state@[i]
                    &&& f.bucket_state@ == buckets_after_drop_proof(self.bucket_state@, self.proof_state@[consumed_proof.0 as int].source_amount.kind())
                    &&& self.same_addresses(f)
                },
                ManifestInstructionEffect::CloneProof { cloned_proof } => {
                    let p = ManifestProof(self.proof_state@.len() as u32);
                    let sa = self.proof_state@[cloned_proof.0 as int].source_amount;
                    &&& self.proof_live(cloned_proof)
                    &&& f.proof_state@.len() == self.proof_state@.len() + 1
                    &&& f.proof_state@.take(self.proof_state@.len() as int) =~= self.proof_state@
                    &&& f.proof_live(p) && f.proof_state@[p.0 as int].source_amount == sa
                    &&& f.bucket_state@ == buckets_after_new_proof(self.bucket_state@, sa.kind())
                    &&& self.same_addresses(f)
                },
                ManifestInstructionEffect::DropManyProofs { drop_all_named_proofs, .. } => {
                    &&& self.same_lengths(f) && self.same_addresses(f)
                    &&& !drop_all_named_proofs ==> self.same_buckets(f) && self.same_proofs(f)
                    // DROP_ALL_PROOFS / DROP_NAMED_PROOFS: no proof stays live, every bucket keeps its liveness and ends up unlocked
                    &&& drop_all_named_proofs ==> {
                            &&& forall|p: ManifestProof| !f.proof_live(p)
                            &&& forall|b: ManifestBucket| f.bucket_live(b) <==> self.bucket_live(b)
                            &&& forall|b: ManifestBucket| f.bucket_live(b) ==> f.bucket_state@[b.0 as int].proof_locks == 0 && !locked(f.proof_state@, b)
                        }
                },
                ManifestInstructionEffect::Invocation { kind, args } => {
                    &&& self.same_lengths(f) && self.same_named_addresses(f) && self.same_intents(f)
                    &&& self.invocation_target_ok(kind)
                    &&& exists|evs: Seq<TraversalEvent>| #[trigger] is_traversal_of(args.encoding(), evs) && f.passed_ids_consumed(evs)
                    &&& (kind is YieldToParent || kind is YieldToChild) ==> self.same_proofs(f)
                },
                ManifestInstructionEffect::CreateAddressAndReservation { package_address, blueprint_name } => {
                    let r = ManifestAddressReservation(self.address_reservation_state@.len() as u32);
                    let a = ManifestNamedAddress(self.named_address_state@.len() as u32);
                    &&& f.address_reservation_state@.len() == self.address_reservation_state@.len() + 1
                    &&& f.address_reservation_state@.take(self.address_reservation_state@.len() as int) =~= self.address_reservation_state@
                    &&& f.reservation_live(r)
                    &&& f.named_address_state@.len() == self.named_address_state@.len() + 1
                    &&& f.named_address_state@.take(self.named_address_state@.len() as int) =~= self.named_address_state@
                    &&& f.named_address_state@[a.0 as int].associated_reservation == Some(r)
                    &&& self.same_buckets(f) && self.same_proofs(f) && self.same_intents(f)
                },
                ManifestInstructionEffect::ResourceAssertion { assertion } => {
                    &&& self.same_buckets(f) && self.same_proofs(f) && self.same_addresses(f)
                    &&& self.validation_ruleset.validate_resource_assertions ==>
                            (assertion matches ResourceAssertion::Bucket(BucketAssertion::Contents { bucket, .. }) ==> self.bucket_live(bucket))
                },
                ManifestInstructionEffect::Verification { .. } => {
                    &&& self.same_buckets(f) && self.same_proofs(f) && self.same_addresses(f)
                    &&& self.manifest.subintent()
                },
            }
        }

        /// the lifecycle condition under which an instruction with effect `e` is acceptable in state `self`
        /// (invocations and resource assertions have further, payload-dependent conditions not modelled here)
        pub open spec fn effect_guard(&self, e: ManifestInstructionEffect) -> bool {
            &&& self.next_instruction_requirement is RequiredInvocationDueToNextCallAssertion ==> e is Invocation
            &&& match e {
                    ManifestInstructionEffect::CreateProof { source_amount } =>
                        source_amount.kind() matches ProofKind::BucketProof(b) ==> self.bucket_live(b),
                    ManifestInstructionEffect::ConsumeBucket { consumed_bucket, .. } =>
                        self.bucket_live(consumed_bucket) && !locked(self.proof_state@, consumed_bucket),
                    ManifestInstructionEffect::ConsumeProof { consumed_proof, .. } => self.proof_live(consumed_proof),
                    ManifestInstructionEffect::CloneProof { cloned_proof } => self.proof_live(cloned_proof),
                    ManifestInstructionEffect::Verification { .. } => self.manifest.subintent(),
                    _ => true,
                }
        }

        /*@fn radix-transactions/src/manifest/static_manifest_interpreter.rs :: impl<'a, M: ReadableManifest + ?Sized> StaticManifestInterpreter<'a, M> :: fn handle_instruction
        @sig
            requires
                old(self).wf(),
                old(self).bucket_state@.len() < u32::MAX, old(self).proof_state@.len() < u32::MAX,
                old(self).address_reservation_state@.len() < u32::MAX, old(self).named_address_state@.len() < u32::MAX,
            ensures
                old(self).same_settings(final(self)),
                final(self).location == (ManifestLocation::Instruction { index }),
                old(self).no_resurrection(final(self)),
                ret is Continue ==> final(self).wf() && old(self).effect_ok(final(self), effect),
                // COMPLETENESS for a visitor that does not object (e.g. `()` as used by `validate()`):
                // an id-lifecycle instruction is accepted exactly when its guard holds
                old(visitor).quiet() ==> final(visitor).quiet(),
                old(visitor).quiet() && !(effect is Invocation) && !(effect is ResourceAssertion) ==>
                    (ret is Continue <==> old(self).effect_guard(effect)),
                // the "next instruction must be an invocation" requirement is armed by an accepted next-call assertion only
                ret is Continue ==> final(self).next_instruction_requirement == (
                    if old(self).validation_ruleset.validate_resource_assertions
                        && (effect matches ManifestInstructionEffect::ResourceAssertion { assertion } && assertion is NextCall) {
                        NextInstructionRequirement::RequiredInvocationDueToNextCallAssertion
                    } else { NextInstructionRequirement::None }),
                // an instruction after a next-call assertion must be an invocation
                ret is Continue && old(self).next_instruction_requirement is RequiredInvocationDueToNextCallAssertion ==> effect is Invocation,
        @closure 1 := |ip: (usize, &ProofState<'a>)| -> (r: Option<ManifestProof>) ensures r == (if ip.1.consumed_at is None { Some(ManifestProof(ip.0 as u32)) } else { None::<ManifestProof> })
        @at <<match p.consumed_at>> #1 := let (index, p) = ip;
        @before <<visitor.on_start_instruction(>> #1
            let ghost s0 = *self;
            proof { lemma_no_resurrection_frame(old(self), old(self), self); }
        @after <<let proofs_to_drop>> #1
            let ghost ids = proofs_to_drop@;
            proof {
                assert(drop_list_ok(s0.proof_state@, ids)) by {
                    assert(forall|k: int| 0 <= k < ids.len() ==> (#[trigger] ids[k]).0 < s0.proof_state@.len() && s0.proof_state@[ids[k].0 as int].consumed_at is None);
                    assert(forall|k: int, l: int| 0 <= k < l < ids.len() ==> (#[trigger] ids[k]).0 < (#[trigger] ids[l]).0);
                    assert(forall|i: int| 0 <= i < s0.proof_state@.len() && (#[trigger] s0.proof_state@[i]).consumed_at is None ==> exists|k: int| 0 <= k < ids.len() && (#[trigger] ids[k]).0 == i);
                }
            }
        @loop 1 iter it
            invariant
                it.seq() == ids,
                drop_list_ok(s0.proof_state@, ids),
                self.wf(),
                s0.same_config(self), s0.same_lengths(self), s0.same_addresses(self),
                s0.no_resurrection(self),
                old(self).same_settings(&s0), s0.location == (ManifestLocation::Instruction { index }),
                old(self).no_resurrection(&s0),
                s0.proof_state@.len() < u32::MAX,
                forall|i: int| 0 <= i < s0.bucket_state@.len() ==> (#[trigger] self.bucket_state@[i]).consumed_at == s0.bucket_state@[i].consumed_at,
                forall|k: int| 0 <= k < it.index@ ==> !self.proof_live(#[trigger] ids[k]),
                forall|k: int| it.index@ <= k < ids.len() ==> self.proof_live(#[trigger] ids[k]),
                old(visitor).quiet() ==> visitor.quiet(),
                effect is DropManyProofs,
                old(self).next_instruction_requirement is RequiredInvocationDueToNextCallAssertion ==> effect is Invocation,
        @before <<self.consume_proof(visitor, proof, ProofDestination::Drop)>> #1
            let ghost pre = *self;
        @after <<self.consume_proof(visitor, proof, ProofDestination::Drop)>> #1
            proof {
                lemma_no_resurrection_trans(&s0, &pre, self);
                assert forall|k: int| 0 <= k < it.index@ + 1 implies !self.proof_live(#[trigger] ids[k]) by {
                    if k < it.index@ { assert(!pre.proof_live(ids[k])); assert(pre.proof_created(ids[k])); }
                }
                assert forall|k: int| it.index@ + 1 <= k < ids.len() implies self.proof_live(#[trigger] ids[k]) by {
                    assert(pre.proof_live(ids[k]));
                    assert(ids[it.index@ as int].0 < ids[k].0);
                }
            }
        @after <<for proof in proofs_to_drop>> #1
            proof {
                assert forall|p: ManifestProof| !self.proof_live(p) by {
                    if self.proof_live(p) {
                        assert(s0.proof_live(p));
                        let k = choose|k: int| 0 <= k < ids.len() && (#[trigger] ids[k]).0 == p.0 as int;
                        assert(ids[k] == p);
                    }
                }
                assert forall|b: ManifestBucket| self.bucket_live(b) implies
                        self.bucket_state@[b.0 as int].proof_locks == 0 && !locked(self.proof_state@, b) by {
                    assert forall|i: int| !live_proof_of(self.proof_state@, i, b) by {
                        if live_proof_of(self.proof_state@, i, b) { assert(self.proof_live(ManifestProof(i as u32))); }
                    }
                    assert(proofs_of(self.proof_state@, b) =~= Set::<int>::empty());
                    assert(proofs_of(self.proof_state@, b).len() == 0);
                    assert(!locked(self.proof_state@, b));
                    assert(self.bucket_state@[b.0 as int].proof_locks == proofs_of(self.proof_state@, b).len());
                }
            }
        @before <<self.handle_new_named_address(>> #1
            let ghost mid = *self;
        @after <<self.handle_new_named_address(>> #1
            proof { lemma_no_resurrection_trans(&s0, &mid, self); }
        @before <<visitor.on_end_instruction(>> #1
            proof { lemma_no_resurrection_trans(old(self), &s0, self); }
        @*/

        // ---------------------------------------------------------------- preamble
        /*@fn radix-transactions/src/manifest/static_manifest_interpreter.rs :: impl<'a, M: ReadableManifest + ?Sized> StaticManifestInterpreter<'a, M> :: fn handle_preallocated_addresses
        @sig
            requires old(self).wf(), old(self).address_reservation_state@.len() + preallocated_addresses@.len() < u32::MAX,
            ensures
                old(self).same_config(final(self)), old(self).same_buckets(final(self)), old(self).same_proofs(final(self)),
                old(self).same_named_addresses(final(self)), old(self).same_intents(final(self)),
                final(self).wf(),
                old(self).no_resurrection(final(self)),
                old(visitor).quiet() ==> final(visitor).quiet() && ret is Continue,
                // one live reservation per pre-allocated address, in order
                ret is Continue ==> final(self).address_reservation_state@.len() == old(self).address_reservation_state@.len() + preallocated_addresses@.len()
                    && final(self).address_reservation_state@.take(old(self).address_reservation_state@.len() as int) =~= old(self).address_reservation_state@
                    && forall|i: int| 0 <= i < preallocated_addresses@.len() ==>
                        (#[trigger] final(self).address_reservation_state@[old(self).address_reservation_state@.len() + i]).consumed_at is None
                        && final(self).address_reservation_state@[old(self).address_reservation_state@.len() + i].preallocated_address == Some(&preallocated_addresses@[i].address),
        @loop 1 iter it
            invariant
                self.wf(),
                old(self).same_config(self), old(self).same_buckets(self), old(self).same_proofs(self),
                old(self).same_named_addresses(self), old(self).same_intents(self),
                old(self).no_resurrection(self),
                old(visitor).quiet() ==> visitor.quiet(),
                old(self).address_reservation_state@.len() + preallocated_addresses@.len() < u32::MAX,
                self.address_reservation_state@.len() == old(self).address_reservation_state@.len() + it.index@,
                self.address_reservation_state@.take(old(self).address_reservation_state@.len() as int) =~= old(self).address_reservation_state@,
                forall|i: int| 0 <= i < it.index@ ==>
                    (#[trigger] self.address_reservation_state@[old(self).address_reservation_state@.len() + i]).consumed_at is None
                    && self.address_reservation_state@[old(self).address_reservation_state@.len() + i].preallocated_address == Some(&preallocated_addresses@[i].address),
        @before <<let _ = self.handle_new_address_reservation(>> #1
            let ghost pre = *self;
        @after <<let _ = self.handle_new_address_reservation(>> #1
            proof { lemma_no_resurrection_trans(old(self), &pre, self); }
        @*/

        // ---------------------------------------------------------------- end of the manifest
        /*@fn radix-transactions/src/manifest/static_manifest_interpreter.rs :: impl<'a, M: ReadableManifest + ?Sized> StaticManifestInterpreter<'a, M> :: fn verify_final_instruction
        @sig
            ensures
                *final(self) == *old(self),
                // a subintent must end with YIELD_TO_PARENT
                ret is Continue <==> (old(self).manifest.subintent() ==> old(self).manifest.effects().len() > 0 &&
                    (old(self).manifest.effects().last() matches ManifestInstructionEffect::Invocation { kind, .. } && kind is YieldToParent)),
                ret matches ControlFlow::Break(o) ==> is_err::<V>(o, ManifestValidationError::SubintentDoesNotEndWithYieldToParent),
        @*/

        /// bucket `i` is the first one (in creation order) that is still live
        pub open spec fn first_live_bucket(&self, i: int) -> bool {
            &&& 0 <= i < self.bucket_state@.len() && self.bucket_state@[i].consumed_at is None
            &&& forall|j: int| 0 <= j < i ==> self.bucket_state@[j].consumed_at is Some
        }
        pub open spec fn first_live_reservation(&self, i: int) -> bool {
            &&& 0 <= i < self.address_reservation_state@.len() && self.address_reservation_state@[i].consumed_at is None
            &&& forall|j: int| 0 <= j < i ==> self.address_reservation_state@[j].consumed_at is Some
        }
        pub open spec fn no_live_bucket(&self) -> bool { forall|b: ManifestBucket| !self.bucket_live(b) }
        pub open spec fn no_live_reservation(&self) -> bool { forall|r: ManifestAddressReservation| !self.reservation_live(r) }

        /*@fn radix-transactions/src/manifest/static_manifest_interpreter.rs :: impl<'a, M: ReadableManifest + ?Sized> StaticManifestInterpreter<'a, M> :: fn handle_wrap_up
        @sig
            requires old(self).bucket_state@.len() <= u32::MAX, old(self).address_reservation_state@.len() <= u32::MAX,
            ensures
                old(self).same_state(final(self)),
                old(visitor).quiet() ==> final(visitor).quiet(),
                ({
                    let pending = old(self).next_instruction_requirement is RequiredInvocationDueToNextCallAssertion;
                    let check = old(self).validation_ruleset.validate_no_dangling_nodes;
                    // "the manifest ends as required": no pending next-call assertion, and (ruleset permitting)
                    // every bucket and every address reservation has been consumed
                    let guard = !pending && (check ==> old(self).no_live_bucket() && old(self).no_live_reservation());
                    &&& guard ==> ret == old(visitor).answer_finish()
                    &&& !guard ==> *final(visitor) == *old(visitor) && (ret matches ControlFlow::Break(o) && (
                            if pending { is_err::<V>(o, ManifestValidationError::ManifestEndedWhilstExpectingNextCallAssertion) }
                            else if !old(self).no_live_bucket() {
                                exists|i: int| #[trigger] old(self).first_live_bucket(i) && is_err_dangling_bucket::<V>(o, ManifestBucket(i as u32))
                            } else {
                                exists|i: int| #[trigger] old(self).first_live_reservation(i) && is_err_dangling_reservation::<V>(o, ManifestAddressReservation(i as u32))
                            }))
                }),
        @loop 1 iter it
            invariant
                *self == *old(self), *visitor == *old(visitor),
                self.bucket_state@.len() <= u32::MAX,
                self.next_instruction_requirement is None, self.validation_ruleset.validate_no_dangling_nodes,
                forall|j: int| 0 <= j < it.index@ ==> self.bucket_state@[j].consumed_at is Some,
        @loop 2 iter it
            invariant
                *self == *old(self), *visitor == *old(visitor),
                self.address_reservation_state@.len() <= u32::MAX,
                self.next_instruction_requirement is None, self.validation_ruleset.validate_no_dangling_nodes,
                forall|j: int| 0 <= j < self.bucket_state@.len() ==> self.bucket_state@[j].consumed_at is Some,
                forall|j: int| 0 <= j < it.index@ ==> self.address_reservation_state@[j].consumed_at is Some,
        @before <<ManifestValidationError::DanglingBucket(>> #1
            proof {
                assert(old(self).first_live_bucket(index as int));
                assert(old(self).bucket_live(ManifestBucket(index as u32)));
            }
        @before <<ManifestValidationError::DanglingAddressReservation(>> #1
            proof {
                assert(old(self).first_live_reservation(index as int));
                assert(old(self).reservation_live(ManifestAddressReservation(index as u32)));
            }
        @*/
    }

    // ---- client scenario: the contracts are strong enough to decide a concrete manifest -------------
    /// the no-op visitor of the file (`impl ManifestInterpretationVisitor for ()`, whose methods are the
    /// trait's default bodies `ControlFlow::Continue(())`): every answer is Continue
    impl ManifestInterpretationVisitor for () {
        type Output = ManifestValidationError;
        open spec fn quiet(&self) -> bool { true }
        open spec fn answer_new_bucket(&self, bucket: ManifestBucket, state: BucketState) -> ControlFlow<ManifestValidationError> { ControlFlow::Continue(()) }
        fn on_new_bucket(&mut self, details: OnNewBucket) -> (r: ControlFlow<ManifestValidationError>) { ControlFlow::Continue(()) }
        open spec fn answer_consume_bucket(&self, bucket: ManifestBucket, state: BucketState, destination: BucketDestination) -> ControlFlow<ManifestValidationError> { ControlFlow::Continue(()) }
        fn on_consume_bucket(&mut self, details: OnConsumeBucket) -> (r: ControlFlow<ManifestValidationError>) { ControlFlow::Continue(()) }
        open spec fn answer_new_proof(&self, proof: ManifestProof, state: ProofState) -> ControlFlow<ManifestValidationError> { ControlFlow::Continue(()) }
        fn on_new_proof(&mut self, details: OnNewProof) -> (r: ControlFlow<ManifestValidationError>) { ControlFlow::Continue(()) }
        open spec fn answer_consume_proof(&self, proof: ManifestProof, state: ProofState, destination: ProofDestination) -> ControlFlow<ManifestValidationError> { ControlFlow::Continue(()) }
        fn on_consume_proof(&mut self, details: OnConsumeProof) -> (r: ControlFlow<ManifestValidationError>) { ControlFlow::Continue(()) }
        open spec fn answer_new_address_reservation(&self, address_reservation: ManifestAddressReservation, state: AddressReservationState) -> ControlFlow<ManifestValidationError> { ControlFlow::Continue(()) }
        fn on_new_address_reservation(&mut self, details: OnNewAddressReservation) -> (r: ControlFlow<ManifestValidationError>) { ControlFlow::Continue(()) }
        open spec fn answer_consume_address_reservation(&self, address_reservation: ManifestAddressReservation, state: AddressReservationState,
                                                   destination: AddressReservationDestination) -> ControlFlow<ManifestValidationError> { ControlFlow::Continue(()) }
        fn on_consume_address_reservation(&mut self, details: OnConsumeAddressReservation) -> (r: ControlFlow<ManifestValidationError>) { ControlFlow::Continue(()) }
        open spec fn answer_new_named_address(&self, named_address: ManifestNamedAddress, state: NamedAddressState,
                                         package_address: &PackageAddress, blueprint_name: &str) -> ControlFlow<ManifestValidationError> { ControlFlow::Continue(()) }
        fn on_new_named_address(&mut self, details: OnNewNamedAddress) -> (r: ControlFlow<ManifestValidationError>) { ControlFlow::Continue(()) }
        open spec fn answer_new_intent(&self, intent: ManifestNamedIntent, state: IntentState) -> ControlFlow<ManifestValidationError> { ControlFlow::Continue(()) }
        fn on_new_intent(&mut self, details: OnNewIntent) -> (r: ControlFlow<ManifestValidationError>) { ControlFlow::Continue(()) }
        open spec fn answer_finish(&self) -> ControlFlow<ManifestValidationError> { ControlFlow::Continue(()) }
        fn on_finish(&mut self, details: OnFinish) -> (r: ControlFlow<ManifestValidationError>) { ControlFlow::Continue(()) }
        fn on_start_instruction(&mut self, details: OnStartInstruction) -> ControlFlow<ManifestValidationError> { ControlFlow::Continue(()) }
        fn on_end_instruction(&mut self, details: OnEndInstruction) -> ControlFlow<ManifestValidationError> { ControlFlow::Continue(()) }
        fn on_drop_authzone_proofs(&mut self, details: OnDropAuthZoneProofs) -> ControlFlow<ManifestValidationError> { ControlFlow::Continue(()) }
        fn on_pass_expression(&mut self, details: OnPassExpression) -> ControlFlow<ManifestValidationError> { ControlFlow::Continue(()) }
        fn on_pass_blob(&mut self, details: OnPassBlob) -> ControlFlow<ManifestValidationError> { ControlFlow::Continue(()) }
        fn on_resource_assertion(&mut self, details: OnResourceAssertion) -> ControlFlow<ManifestValidationError> { ControlFlow::Continue(()) }
        fn on_verification(&mut self, details: OnVerification) -> ControlFlow<ManifestValidationError> { ControlFlow::Continue(()) }
        fn on_register_blob(&mut self, details: OnRegisterBlob) -> ControlFlow<ManifestValidationError> { ControlFlow::Continue(()) }
    }

    /// "nothing is consumed twice", "a bucket with a live proof cannot be consumed" and the reviewer's case
    /// "no proof from an already consumed bucket", end to end through the real functions (decided
    /// statically from their contracts only).
    pub fn scenario_lifecycle<'a, M: ReadableManifest + ?Sized>(manifest: &'a M, src: BucketSourceAmount<'a>) {
        let mut v = ();
        let mut s = StaticManifestInterpreter::new(ValidationRuleset::all(), manifest);
        let b = ManifestBucket(0);
        let p = ManifestProof(0);
        let q = ManifestProof(1);
        let r = s.handle_new_bucket(&mut v, src);
        assert(r is Continue && s.bucket_live(b));
        let r = s.handle_new_proof(&mut v, ProofSourceAmount::BucketAllOf { bucket: b });
        assert(r is Continue && s.proof_live(p));
        let r = s.handle_cloned_proof(&mut v, p);
        assert(r is Continue && s.proof_live(q));
        // locked while either proof is live
        proof { assert(live_proof_of(s.proof_state@, 0, b)); }
        let r = s.consume_bucket(&mut v, b, BucketDestination::Worktop);
        assert(r matches ControlFlow::Break(o) && is_err_bucket_locked::<()>(o, b));
        let r = s.consume_proof(&mut v, p, ProofDestination::Drop);
        assert(r is Continue);
        proof { assert(live_proof_of(s.proof_state@, 1, b)); }
        let r = s.consume_bucket(&mut v, b, BucketDestination::Worktop);
        assert(r is Break);
        // a consumed proof cannot be consumed or cloned again
        let r = s.consume_proof(&mut v, p, ProofDestination::Drop);
        assert(r matches ControlFlow::Break(o) && is_err_proof_already_used::<()>(o, p));
        let r = s.handle_cloned_proof(&mut v, p);
        assert(r is Break);
        let r = s.consume_proof(&mut v, q, ProofDestination::AuthZone);
        assert(r is Continue);
        // now unlocked: consumed once, and only once
        proof {
            lemma_locked_iff_count(s.proof_state@, b);
        }
        let r = s.consume_bucket(&mut v, b, BucketDestination::Burned);
        assert(r is Continue);
        let r = s.consume_bucket(&mut v, b, BucketDestination::Burned);
        assert(r matches ControlFlow::Break(o) && is_err_bucket_already_used::<()>(o, b));
        // the reviewer's case: no proof from an already consumed bucket ...
        let r = s.handle_new_proof(&mut v, ProofSourceAmount::BucketAllOf { bucket: b });
        assert(r matches ControlFlow::Break(o) && is_err_bucket_already_used::<()>(o, b));
        // ... nor from one that does not exist yet
        let r = s.handle_new_proof(&mut v, ProofSourceAmount::BucketAllOf { bucket: ManifestBucket(7) });
        assert(r matches ControlFlow::Break(o) && is_err::<()>(o, ManifestValidationError::BucketNotYetCreated(ManifestBucket(7))));
        // a fresh bucket never reuses the consumed id
        let r = s.handle_new_bucket(&mut v, src);
        assert(r is Continue && s.bucket_live(ManifestBucket(1)) && !s.bucket_live(b));
    }

    /// DROP_ALL_PROOFS unlocks every bucket, a dangling bucket is rejected at the end, and after consuming it
    /// the manifest is accepted -- with the no-op visitor, decided from the contracts only.
    pub fn scenario_drop_all_and_wrap_up<'a, M: ReadableManifest + ?Sized>(manifest: &'a M, src: BucketSourceAmount<'a>) {
        let mut v = ();
        let mut s = StaticManifestInterpreter::new(ValidationRuleset::all(), manifest);
        let b = ManifestBucket(0);
        let r = s.handle_instruction(&mut v, 0, ManifestInstructionEffect::CreateBucket { source_amount: src });
        assert(r is Continue && s.bucket_live(b));
        let r = s.handle_instruction(&mut v, 1, ManifestInstructionEffect::CreateProof { source_amount: ProofSourceAmount::BucketAllOf { bucket: b } });
        assert(r is Continue);
        let r = s.handle_instruction(&mut v, 2, ManifestInstructionEffect::CloneProof { cloned_proof: ManifestProof(0) });
        assert(r is Continue);
        let r = s.handle_instruction(&mut v, 3, ManifestInstructionEffect::DropManyProofs {
            drop_all_named_proofs: true, drop_all_authzone_signature_proofs: false, drop_all_authzone_non_signature_proofs: false });
        assert(r is Continue && s.bucket_live(b) && !locked(s.proof_state@, b) && !s.proof_live(ManifestProof(0)) && !s.proof_live(ManifestProof(1)));
        // the bucket is still dangling: the manifest cannot end here
        let r = s.handle_wrap_up(&mut v);
        assert(r is Break);
        let r = s.handle_instruction(&mut v, 4, ManifestInstructionEffect::ConsumeBucket { consumed_bucket: b, destination: BucketDestination::Worktop });
        assert(r is Continue && !s.bucket_live(b));
        proof {
            assert forall|x: ManifestBucket| !s.bucket_live(x) by { if x.0 != 0 { assert(!s.bucket_created(x)); } }
        }
        let r = s.handle_wrap_up(&mut v);
        assert(r is Continue);
        // a consumed bucket cannot be the source of a proof (the reviewer's case, through the instruction layer)
        let r = s.handle_instruction(&mut v, 5, ManifestInstructionEffect::CreateProof { source_amount: ProofSourceAmount::BucketAllOf { bucket: b } });
        assert(r is Break);
    }
}
} // verus!
fn main() {}
