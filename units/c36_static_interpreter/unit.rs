// Unit c36_static_interpreter -- property C36 "Static manifest validation matches the bucket/proof lifecycle"
// Real code: radix-transactions/src/manifest/static_manifest_interpreter.rs -- the id-lifecycle functions of
// StaticManifestInterpreter (state vectors + every create/get/consume operation on buckets, proofs,
// address reservations, named addresses and intents), and ProofSourceAmount::proof_kind.
use vstd::prelude::*;
verus! {
/*@include shims/rt.rs @*/
/*@include shims/maps.rs @*/
/*@include shims/collections.rs @*/
/*@include shims/control_flow_try.rs @*/
/*@include shims/format_opaque.rs @*/

pub mod env {
    use vstd::prelude::*;
    use core::ops::ControlFlow;

    // ---- the id newtypes, verbatim from their crates
    /*@item radix-common/src/data/manifest/model/manifest_bucket.rs :: struct ManifestBucket
    @derive Clone, Copy, PartialEq, Eq
    @*/
    /*@item radix-common/src/data/manifest/model/manifest_proof.rs :: struct ManifestProof
    @derive Clone, Copy, PartialEq, Eq
    @*/
    /*@item radix-common/src/data/manifest/model/manifest_address_reservation.rs :: struct ManifestAddressReservation
    @derive Clone, Copy, PartialEq, Eq
    @*/
    /*@item radix-common/src/data/manifest/model/manifest_address.rs :: struct ManifestNamedAddress
    @derive Clone, Copy, PartialEq, Eq
    @*/
    /*@item radix-transactions/src/model/v2/child_subintent_hashes_v2.rs :: struct ManifestNamedIntent
    @derive Clone, Copy, PartialEq, Eq
    @*/
    /*@item radix-common/src/data/manifest/model/manifest_blob.rs :: struct ManifestBlobRef
    @derive
    @*/

    // ---- opaque payload types (only moved around by the code under contract)
    #[verifier::external_body] #[derive(Clone, Copy)] pub struct ResourceAddress { x: u8 }
    #[verifier::external_body] #[derive(Clone, Copy)] pub struct PackageAddress { x: u8 }
    #[verifier::external_body] #[derive(Clone, Copy)] pub struct GlobalAddress { x: u8 }
    #[verifier::external_body] #[derive(Clone, Copy)] pub struct InternalAddress { x: u8 }
    #[verifier::external_body] #[derive(Clone, Copy)] pub struct ManifestGlobalAddress { x: u8 }
    #[verifier::external_body] #[derive(Clone, Copy)] pub struct ManifestPackageAddress { x: u8 }
    #[verifier::external_body] #[derive(Clone, Copy)] pub struct ModuleId { x: u8 }
    #[verifier::external_body] #[derive(Clone, Copy)] pub struct Decimal { x: u8 }
    #[verifier::external_body] pub struct NonFungibleLocalId { x: u8 }
    #[verifier::external_body] #[derive(Clone, Copy)] pub struct IntentHash { x: u8 }
    #[verifier::external_body] pub struct EncodeError { x: u8 }
    #[verifier::external_body] pub struct DecodeError { x: u8 }

    /*@item radix-transactions/src/validation/id_validator.rs :: enum ProofKind
    @derive PartialEq, Eq
    @*/
    /*@item radix-transactions/src/manifest/manifest_instruction_effects.rs :: enum InvocationKind
    @derive Clone, Copy
    @*/
    /*@item radix-transactions/src/manifest/manifest_instruction_effects.rs :: enum BucketSourceAmount
    @derive Clone, Copy
    @*/
    /*@item radix-transactions/src/manifest/manifest_instruction_effects.rs :: enum ProofSourceAmount
    @derive Clone, Copy
    @*/
    /*@item radix-transactions/src/manifest/manifest_instruction_effects.rs :: enum BucketDestination
    @derive Clone, Copy
    @*/
    /*@item radix-transactions/src/manifest/manifest_instruction_effects.rs :: enum ProofDestination
    @derive Clone, Copy
    @*/
    /*@item radix-transactions/src/manifest/manifest_instruction_effects.rs :: enum AddressReservationDestination
    @derive Clone, Copy
    @*/

    /*@item radix-transactions/src/manifest/static_manifest_interpreter.rs :: enum ManifestLocation
    @derive Clone, Copy
    @*/
    /*@item radix-transactions/src/manifest/static_manifest_interpreter.rs :: struct BucketState
    @derive
    @*/
    /*@item radix-transactions/src/manifest/static_manifest_interpreter.rs :: struct ProofState
    @derive
    @*/
    /*@item radix-transactions/src/manifest/static_manifest_interpreter.rs :: struct AddressReservationState
    @derive
    @*/
    /*@item radix-transactions/src/manifest/static_manifest_interpreter.rs :: struct NamedAddressState
    @derive
    @*/
    /*@item radix-transactions/src/manifest/static_manifest_interpreter.rs :: struct IntentState
    @derive
    @*/
    /*@item radix-transactions/src/manifest/static_manifest_interpreter.rs :: enum IntentType
    @derive
    @*/
    /*@item radix-transactions/src/manifest/static_manifest_interpreter.rs :: enum ManifestValidationError
    @derive
    @*/

    // ---- the event records handed to the visitor, verbatim
    /*@item radix-transactions/src/manifest/static_manifest_interpreter.rs :: struct OnNewBucket
    @*/
    /*@item radix-transactions/src/manifest/static_manifest_interpreter.rs :: struct OnConsumeBucket
    @*/
    /*@item radix-transactions/src/manifest/static_manifest_interpreter.rs :: struct OnNewProof
    @*/
    /*@item radix-transactions/src/manifest/static_manifest_interpreter.rs :: struct OnConsumeProof
    @*/
    /*@item radix-transactions/src/manifest/static_manifest_interpreter.rs :: struct OnNewAddressReservation
    @*/
    /*@item radix-transactions/src/manifest/static_manifest_interpreter.rs :: struct OnConsumeAddressReservation
    @*/
    /*@item radix-transactions/src/manifest/static_manifest_interpreter.rs :: struct OnNewNamedAddress
    @*/
    /*@item radix-transactions/src/manifest/static_manifest_interpreter.rs :: struct OnNewIntent
    @*/

    // ---- the object-name table of a manifest (manifest_naming.rs): pure look-ups, modelled as
    // uninterpreted functions of the table and the id
    #[verifier::external_body]
    #[derive(Clone, Copy)]
    pub struct ManifestObjectNamesRef<'a> { x: &'a u8 }
    impl<'a> ManifestObjectNamesRef<'a> {
        pub uninterp spec fn bucket_name(self, b: ManifestBucket) -> Option<&'a str>;
        pub uninterp spec fn proof_name(self, p: ManifestProof) -> Option<&'a str>;
        pub uninterp spec fn address_reservation_name(self, r: ManifestAddressReservation) -> Option<&'a str>;
        pub uninterp spec fn address_name(self, a: ManifestNamedAddress) -> Option<&'a str>;
        pub uninterp spec fn intent_name(self, i: ManifestNamedIntent) -> Option<&'a str>;
        #[verifier::external_body]
        pub fn known_bucket_name(&self, bucket: ManifestBucket) -> (r: Option<&'a str>)
            ensures r == self.bucket_name(bucket) { unimplemented!() }
        #[verifier::external_body]
        pub fn known_proof_name(&self, proof: ManifestProof) -> (r: Option<&'a str>)
            ensures r == self.proof_name(proof) { unimplemented!() }
        #[verifier::external_body]
        pub fn known_address_reservation_name(&self, reservation: ManifestAddressReservation) -> (r: Option<&'a str>)
            ensures r == self.address_reservation_name(reservation) { unimplemented!() }
        #[verifier::external_body]
        pub fn known_address_name(&self, named_address: ManifestNamedAddress) -> (r: Option<&'a str>)
            ensures r == self.address_name(named_address) { unimplemented!() }
        #[verifier::external_body]
        pub fn known_intent_name(&self, intent: ManifestNamedIntent) -> (r: Option<&'a str>)
            ensures r == self.intent_name(intent) { unimplemented!() }
    }

    /// manifest_traits.rs: the part of ReadableManifest(Base) the lifecycle functions use
    pub trait ReadableManifest {
        spec fn names(&self) -> ManifestObjectNamesRef<'_>;
        fn get_known_object_names_ref(&self) -> (r: ManifestObjectNamesRef<'_>)
            ensures r == self.names();
    }

    /// static_manifest_interpreter.rs :: trait ManifestInterpretationVisitor. The visitor is NOT under
    /// contract: an implementation may answer Continue or Break(anything) to every event. Its answer is
    /// modelled as a function `answer_*` of the visitor's state before the call and of the event record
    /// (a Rust function is deterministic in its inputs), so that contracts can say
    /// "Continue <==> guard && the visitor continues".
    pub trait ManifestInterpretationVisitor {
        type Output: From<ManifestValidationError>;

        spec fn answer_new_bucket(&self, bucket: ManifestBucket, state: BucketState) -> ControlFlow<Self::Output>;
        fn on_new_bucket(&mut self, details: OnNewBucket) -> (r: ControlFlow<Self::Output>)
            ensures r == old(self).answer_new_bucket(details.bucket, *details.state);

        spec fn answer_consume_bucket(&self, bucket: ManifestBucket, state: BucketState, destination: BucketDestination) -> ControlFlow<Self::Output>;
        fn on_consume_bucket(&mut self, details: OnConsumeBucket) -> (r: ControlFlow<Self::Output>)
            ensures r == old(self).answer_consume_bucket(details.bucket, *details.state, details.destination);
    }
}

pub mod unit {
    use vstd::prelude::*;
    use core::ops::ControlFlow;
    use super::rt::*;
    use super::colls::*;
    use super::env::*;

    /*@item radix-transactions/src/manifest/static_manifest_interpreter.rs :: struct ValidationRuleset
    @*/
    /*@item radix-transactions/src/manifest/static_manifest_interpreter.rs :: enum NextInstructionRequirement
    @*/
    /*@item radix-transactions/src/manifest/static_manifest_interpreter.rs :: struct StaticManifestInterpreter
    @*/

    // ------------------------------------------------------------------------------------------
    // Oracle (from the property statement): the lifecycle automaton over ids.
    // ------------------------------------------------------------------------------------------
    pub type Out<V> = <V as ManifestInterpretationVisitor>::Output;

    /// `o` is the visitor-output form (`.into()`) of the validation error `e`
    pub open spec fn is_err<V: ManifestInterpretationVisitor>(o: Out<V>, e: ManifestValidationError) -> bool {
        call_ensures(<Out<V> as From<ManifestValidationError>>::from, (e,), o)
    }
    /// ... of an error that carries a debug text (`format!("{state:?}")`; the text itself is not specified)
    pub open spec fn is_err_bucket_already_used<V: ManifestInterpretationVisitor>(o: Out<V>, b: ManifestBucket) -> bool {
        exists|s: String| #[trigger] call_ensures(<Out<V> as From<ManifestValidationError>>::from, (ManifestValidationError::BucketAlreadyUsed(b, s),), o)
    }

    impl<'a, M: ReadableManifest + ?Sized> StaticManifestInterpreter<'a, M> {
        pub open spec fn bucket_created(&self, b: ManifestBucket) -> bool {
            (b.0 as int) < self.bucket_state@.len()
        }
        pub open spec fn bucket_live(&self, b: ManifestBucket) -> bool {
            self.bucket_created(b) && self.bucket_state@[b.0 as int].consumed_at is None
        }

        /// the parts of the state that no lifecycle operation touches
        pub open spec fn same_config(&self, f: &Self) -> bool {
            &&& self.validation_ruleset == f.validation_ruleset
            &&& self.manifest == f.manifest
            &&& self.location == f.location
            &&& self.registered_blobs == f.registered_blobs
            &&& self.next_instruction_requirement == f.next_instruction_requirement
        }
        pub open spec fn same_buckets(&self, f: &Self) -> bool { self.bucket_state@ =~= f.bucket_state@ }
        pub open spec fn same_proofs(&self, f: &Self) -> bool { self.proof_state@ =~= f.proof_state@ }
        pub open spec fn same_addresses(&self, f: &Self) -> bool {
            &&& self.address_reservation_state@ =~= f.address_reservation_state@
            &&& self.named_address_state@ =~= f.named_address_state@
            &&& self.intent_state@ =~= f.intent_state@
        }
        /// nothing observable changed (Vec contents are compared through their views)
        pub open spec fn same_state(&self, f: &Self) -> bool {
            self.same_config(f) && self.same_buckets(f) && self.same_proofs(f) && self.same_addresses(f)
        }

        /*@fn radix-transactions/src/manifest/static_manifest_interpreter.rs :: impl<'a, M: ReadableManifest + ?Sized> StaticManifestInterpreter<'a, M> :: fn get_existing_bucket
        @sig
            ensures
                ret is Continue <==> old(self).bucket_live(bucket),
                ret matches ControlFlow::Continue(st) ==> *st == old(self).bucket_state@[bucket.0 as int]
                    && final(self).bucket_state@ == old(self).bucket_state@.update(bucket.0 as int, *final(st))
                    && old(self).same_config(final(self)) && old(self).same_proofs(final(self)) && old(self).same_addresses(final(self)),
                ret is Break ==> old(self).same_state(final(self)),
                ret matches ControlFlow::Break(o) ==>
                       (if old(self).bucket_created(bucket) {
                            is_err_bucket_already_used::<V>(o, bucket)
                        } else {
                            is_err::<V>(o, ManifestValidationError::BucketNotYetCreated(bucket))
                        }),
        @*/
    }
}
} // verus!
fn main() {}
