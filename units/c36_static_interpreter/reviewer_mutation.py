#!/usr/bin/env python3
# Builds the overlay for the reviewer's mutation (handle_new_proof indexes bucket_state directly and so
# accepts an ALREADY CONSUMED bucket). usage: python3 reviewer_mutation.py <overlay-dir> ; then
#   VERIF_OVERLAY=<overlay-dir> python3 /verif/tools/unit.py c36_static_interpreter     (must print FAILED ...handle_new_proof)
import os, sys
rel = 'radix-transactions/src/manifest/static_manifest_interpreter.rs'
src = open('/repo/' + rel).read()
old = "                self.get_existing_bucket::<V>(bucket)?.proof_locks += 1;"
new = """                match self.bucket_state.get_mut(bucket.0 as usize) {
                    Some(state) => state.proof_locks += 1,
                    None => {
                        return ControlFlow::Break(
                            ManifestValidationError::BucketNotYetCreated(bucket).into(),
                        )
                    }
                }"""
assert src.count(old) == 1
out = os.path.join(sys.argv[1], rel)
os.makedirs(os.path.dirname(out), exist_ok=True)
open(out, 'w').write(src.replace(old, new))
