// Unit c16_key_mapper -- property C16 "Database key mapping is reversible and preserves sorted-index order"
// Real code: radix-substate-store-interface/src/db_key_mapper.rs (SpreadPrefixKeyMapper, all methods,
// plus the provided methods of trait DatabaseKeyMapper, dispatched statically to SpreadPrefixKeyMapper).
use vstd::prelude::*;
verus! {
/*@include shims/rt.rs @*/
/*@include shims/bytes.rs @*/

pub mod env {
    use vstd::prelude::*;
    // environment types (shapes copied from radix-common / the interface crate; only their
    // structure as byte containers matters here)
    pub struct NodeId(pub [u8; 30]);
    impl NodeId {
        pub fn as_bytes(&self) -> (r: &[u8]) ensures r@ == self.0@ { self.0.as_slice() }
    }
    pub struct PartitionNumber(pub u8);
    pub type DbNodeKey = Vec<u8>;
    pub type DbPartitionNum = u8;
    pub struct DbPartitionKey { pub node_key: DbNodeKey, pub partition_num: DbPartitionNum }
    pub struct DbSortKey(pub Vec<u8>);
    pub type FieldKey = u8;
    pub type MapKey = Vec<u8>;
    pub type SortedKey = ([u8; 2], Vec<u8>);
    pub enum SubstateKey { Field(FieldKey), Map(MapKey), Sorted(SortedKey) }
}

pub mod unit {
    use vstd::prelude::*;
    use super::rt::*;
    use super::bytes::*;
    use super::env::*;
    broadcast use ax_hash_len;

    pub struct SpreadPrefixKeyMapper;

    // ---- oracle ----------------------------------------------------------------------------
    pub open spec fn prefixed(b: Seq<u8>) -> Seq<u8> { spec_hash(b).subrange(0, 20) + b }
    pub open spec fn sort_key_spec(k: SubstateKey) -> Seq<u8> {
        match k {
            SubstateKey::Field(f) => seq![f],
            SubstateKey::Map(m) => prefixed(m@),
            SubstateKey::Sorted(s) => s.0@ + prefixed(s.1@),
        }
    }
    /// lexicographic "less than" on byte strings (the order of the database)
    pub open spec fn lex_lt(a: Seq<u8>, b: Seq<u8>) -> bool
        decreases a.len()
    {
        if b.len() == 0 { false }
        else if a.len() == 0 { true }
        else if a[0] != b[0] { a[0] < b[0] }
        else { lex_lt(a.subrange(1, a.len() as int), b.subrange(1, b.len() as int)) }
    }
    /// the prefix added by `to_hash_prefixed` never destroys the payload: injective without any
    /// assumption on the hash
    pub proof fn lemma_prefixed_injective(a: Seq<u8>, b: Seq<u8>)
        requires prefixed(a) == prefixed(b)
        ensures a == b
    {
        assert(prefixed(a).subrange(20, prefixed(a).len() as int) =~= a);
        assert(prefixed(b).subrange(20, prefixed(b).len() as int) =~= b);
    }
    /// sorted keys: database order is decided first by the 2-byte sort prefix
    pub proof fn lemma_sorted_order(p: Seq<u8>, q: Seq<u8>, x: Seq<u8>, y: Seq<u8>)
        requires p.len() == 2, q.len() == 2, p != q,
        ensures lex_lt(p + x, q + y) == lex_lt(p, q),
    {
        let a = p + x; let b = q + y;
        assert(a[0] == p[0] && b[0] == q[0] && a[1] == p[1] && b[1] == q[1]);
        reveal_with_fuel(lex_lt, 3);
        if p[0] != q[0] {
        } else {
            assert(p[1] != q[1]) by { if p[1] == q[1] { assert(p =~= q); } }
            let a1 = a.subrange(1, a.len() as int); let b1 = b.subrange(1, b.len() as int);
            let p1 = p.subrange(1, 2); let q1 = q.subrange(1, 2);
            assert(a1[0] == p[1] && b1[0] == q[1] && p1[0] == p[1] && q1[0] == q[1]);
        }
    }

    impl SpreadPrefixKeyMapper {
        /*@item radix-substate-store-interface/src/db_key_mapper.rs :: impl SpreadPrefixKeyMapper :: const HASHED_PREFIX_LENGTH
        @*/

        /*@fn radix-substate-store-interface/src/db_key_mapper.rs :: impl SpreadPrefixKeyMapper :: fn to_hash_prefixed
        @r10
        @sig
            ensures ret@ == prefixed(plain_bytes@)
        @*/

        /*@fn radix-substate-store-interface/src/db_key_mapper.rs :: impl SpreadPrefixKeyMapper :: fn from_hash_prefixed
        @sig
            requires prefixed_bytes@.len() >= 20
            ensures ret@ == prefixed_bytes@.subrange(20, prefixed_bytes@.len() as int)
        @*/

        // ---- impl DatabaseKeyMapper for SpreadPrefixKeyMapper (static dispatch) ----------------
        /*@fn radix-substate-store-interface/src/db_key_mapper.rs :: impl DatabaseKeyMapper for SpreadPrefixKeyMapper :: fn to_db_node_key
        @sig
            ensures ret@ == prefixed(node_id.0@)
        @*/
        /*@fn radix-substate-store-interface/src/db_key_mapper.rs :: impl DatabaseKeyMapper for SpreadPrefixKeyMapper :: fn from_db_node_key
        @sig
            requires db_node_key@.len() == 50
            ensures ret.0@ == db_node_key@.subrange(20, 50),
                    forall|n: NodeId| db_node_key@ == prefixed(n.0@) ==> ret.0@ == n.0@,
        @entry
            proof { assert forall|n: NodeId| db_node_key@ == prefixed(n.0@) implies db_node_key@.subrange(20, 50) == n.0@ by { assert(prefixed(n.0@).subrange(20, 50) =~= n.0@); } }
        @*/
        /*@fn radix-substate-store-interface/src/db_key_mapper.rs :: impl DatabaseKeyMapper for SpreadPrefixKeyMapper :: fn to_db_partition_num
        @sig
            ensures ret == partition_num.0
        @*/
        /*@fn radix-substate-store-interface/src/db_key_mapper.rs :: impl DatabaseKeyMapper for SpreadPrefixKeyMapper :: fn from_db_partition_num
        @sig
            ensures ret.0 == db_partition_num
        @*/
        /*@fn radix-substate-store-interface/src/db_key_mapper.rs :: impl DatabaseKeyMapper for SpreadPrefixKeyMapper :: fn field_to_db_sort_key
        @sig
            ensures ret.0@ == seq![*fields_key]
        @*/
        /*@fn radix-substate-store-interface/src/db_key_mapper.rs :: impl DatabaseKeyMapper for SpreadPrefixKeyMapper :: fn field_from_db_sort_key
        @sig
            requires db_sort_key.0@.len() >= 1
            ensures ret == db_sort_key.0@[0]
        @*/
        /*@fn radix-substate-store-interface/src/db_key_mapper.rs :: impl DatabaseKeyMapper for SpreadPrefixKeyMapper :: fn map_to_db_sort_key
        @sig
            ensures ret.0@ == prefixed(map_key@)
        @*/
        /*@fn radix-substate-store-interface/src/db_key_mapper.rs :: impl DatabaseKeyMapper for SpreadPrefixKeyMapper :: fn map_from_db_sort_key
        @sig
            requires db_sort_key.0@.len() >= 20
            ensures ret@ == db_sort_key.0@.subrange(20, db_sort_key.0@.len() as int),
                    forall|m: Seq<u8>| db_sort_key.0@ == prefixed(m) ==> ret@ == m,
        @entry
            proof { assert forall|m: Seq<u8>| db_sort_key.0@ == prefixed(m) implies db_sort_key.0@.subrange(20, db_sort_key.0@.len() as int) == m by { assert(prefixed(m).subrange(20, prefixed(m).len() as int) =~= m); } }
        @after <<.to_vec()>> #1
        @*/
        /*@fn radix-substate-store-interface/src/db_key_mapper.rs :: impl DatabaseKeyMapper for SpreadPrefixKeyMapper :: fn sorted_to_db_sort_key
        @r10
        @sig
            ensures ret.0@ == sorted_key.0@ + prefixed(sorted_key.1@)
        @*/
        /*@fn radix-substate-store-interface/src/db_key_mapper.rs :: impl DatabaseKeyMapper for SpreadPrefixKeyMapper :: fn sorted_from_db_sort_key
        @sig
            requires db_sort_key.0@.len() >= 22
            ensures ret.0@ == db_sort_key.0@.subrange(0, 2),
                    ret.1@ == db_sort_key.0@.subrange(22, db_sort_key.0@.len() as int),
                    forall|p: Seq<u8>, m: Seq<u8>| p.len() == 2 && db_sort_key.0@ == p + prefixed(m) ==> ret.0@ == p && ret.1@ == m,
        @entry
            proof {
                let k = db_sort_key.0@;
                assert(k.subrange(2, k.len() as int).subrange(20, k.len() - 2) =~= k.subrange(22, k.len() as int));
                assert forall|p: Seq<u8>, m: Seq<u8>| p.len() == 2 && k == p + prefixed(m) implies k.subrange(0, 2) == p && k.subrange(22, k.len() as int) == m by {
                    assert((p + prefixed(m)).subrange(0, 2) =~= p);
                    assert((p + prefixed(m)).subrange(22, (p + prefixed(m)).len() as int) =~= m);
                }
            }
        @*/

        // ---- provided methods of trait DatabaseKeyMapper, with Self = SpreadPrefixKeyMapper ----
        /*@fn radix-substate-store-interface/src/db_key_mapper.rs :: trait DatabaseKeyMapper : 'static :: fn to_db_partition_key
        @sig
            ensures ret.node_key@ == prefixed(node_id.0@), ret.partition_num == partition_num.0
        @*/
        /*@fn radix-substate-store-interface/src/db_key_mapper.rs :: trait DatabaseKeyMapper : 'static :: fn from_db_partition_key
        @sig
            requires partition_key.node_key@.len() == 50
            ensures ret.1.0 == partition_key.partition_num,
                    forall|n: NodeId| partition_key.node_key@ == prefixed(n.0@) ==> ret.0.0@ == n.0@,
        @*/
        /*@fn radix-substate-store-interface/src/db_key_mapper.rs :: trait DatabaseKeyMapper : 'static :: fn to_db_sort_key
        @sig
            ensures ret.0@ == sort_key_spec(*key)
        @*/
    }

    /// Round trips (C16): every key produced by `to_*` is mapped back to the original.
    pub fn roundtrip_node(n: &NodeId) -> (r: NodeId) ensures r.0@ == n.0@ {
        let k = SpreadPrefixKeyMapper::to_db_node_key(n);
        SpreadPrefixKeyMapper::from_db_node_key(&k)
    }
    pub fn roundtrip_map(m: &MapKey) -> (r: MapKey) ensures r@ == m@ {
        let k = SpreadPrefixKeyMapper::map_to_db_sort_key(m);
        SpreadPrefixKeyMapper::map_from_db_sort_key(&k)
    }
    pub fn roundtrip_field(f: &FieldKey) -> (r: FieldKey) ensures r == *f {
        let k = SpreadPrefixKeyMapper::field_to_db_sort_key(f);
        SpreadPrefixKeyMapper::field_from_db_sort_key(&k)
    }
    pub fn roundtrip_sorted(s: &SortedKey) -> (r: SortedKey) ensures r.0@ == s.0@, r.1@ == s.1@ {
        let k = SpreadPrefixKeyMapper::sorted_to_db_sort_key(s);
        SpreadPrefixKeyMapper::sorted_from_db_sort_key(&k)
    }
    /// Distinct sorted keys with different sort prefixes are ordered in the database by prefix.
    pub proof fn lemma_sorted_keys_ordered_by_prefix(a: SortedKey, b: SortedKey)
        requires a.0@ != b.0@
        ensures lex_lt(sort_key_spec(SubstateKey::Sorted(a)), sort_key_spec(SubstateKey::Sorted(b))) == lex_lt(a.0@, b.0@)
    {
        lemma_sorted_order(a.0@, b.0@, prefixed(a.1@), prefixed(b.1@));
    }
    /// Distinct substate keys of one kind never collide in the database.
    pub proof fn lemma_map_keys_injective(a: Seq<u8>, b: Seq<u8>)
        requires prefixed(a) == prefixed(b) ensures a == b
    { lemma_prefixed_injective(a, b); }
}
} // verus!
fn main() {}
