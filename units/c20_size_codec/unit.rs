// Unit c20_size_codec -- property C20 "SBOR values round-trip and have a unique encoding" (length prefix)
// Real code: sbor/src/encoder.rs  Encoder::write_size (provided trait method), VecEncoder::{new, write_byte}
//            sbor/src/decoder.rs  Decoder::read_size (provided trait method),
//                                 VecDecoder::{new, require_remaining, remaining_bytes, read_byte}
// The two traits are re-declared (R12) with ONLY the methods needed; the provided-method bodies are
// extracted verbatim into the trait declaration, so they are proved for EVERY implementor whose
// write_byte / read_byte meets the byte-stream contract, and VecEncoder / VecDecoder are proved to meet it.
use vstd::prelude::*;
verus! {
/*@include shims/rt.rs @*/

pub mod env {
    use vstd::prelude::*;
    pub use core::marker::PhantomData;
    /// sbor/src/value_kind.rs :: trait CustomValueKind -- only used as a phantom parameter here
    pub trait CustomValueKind {}
    /*@item sbor/src/encoder.rs :: enum EncodeError
    @derive Clone, PartialEq, Eq
    @*/
    /*@item sbor/src/decoder.rs :: enum DecodeError
    @derive Copy, Clone, PartialEq, Eq
    @*/
}

pub mod unit {
    use vstd::prelude::*;
    use super::rt::*;
    use super::env::*;

    // ------------------------------------------------------------------------------------------
    // ORACLE (from the property / the SBOR wire format, not from the code): a size is written as
    // unsigned LEB128 -- little-endian base-128 digits, every digit but the last carries the
    // continuation bit 0x80 -- and only sizes up to 0x0FFF_FFFF (at most 4 digits) are legal.
    // ------------------------------------------------------------------------------------------
    pub open spec fn max_size() -> nat { 0x0FFF_FFFF }

    pub open spec fn leb(n: nat) -> Seq<u8>
        decreases n
    {
        if n < 128 { seq![n as u8] } else { seq![(n % 128 + 128) as u8] + leb(n / 128) }
    }

    /// `a` is a prefix of `b`
    pub open spec fn is_prefix(a: Seq<u8>, b: Seq<u8>) -> bool {
        a.len() <= b.len() && forall|j: int| 0 <= j < a.len() ==> a[j] == b[j]
    }

    // ---- proof vocabulary ------------------------------------------------------------------------
    pub open spec fn p128(k: nat) -> nat
        decreases k
    {
        if k == 0 { 1 } else { 128 * p128((k - 1) as nat) }
    }
    /// value of a digit string (continuation bits ignored)
    pub open spec fn val(s: Seq<u8>) -> nat
        decreases s.len()
    {
        if s.len() == 0 { 0 } else { (s[0] % 128) as nat + 128 * val(s.drop_first()) }
    }
    /// shape of a minimal LEB128 string: continuation bit on all digits but the last, and no
    /// redundant most-significant zero digit
    pub open spec fn canon(s: Seq<u8>) -> bool {
        &&& s.len() >= 1
        &&& forall|j: int| 0 <= j < s.len() - 1 ==> s[j] >= 128
        &&& s.last() < 128
        &&& (s.len() > 1 ==> s.last() != 0)
    }

    pub proof fn lemma_p128()
        ensures p128(0) == 1, p128(1) == 128, p128(2) == 16384, p128(3) == 2097152, p128(4) == 268435456,
    {
        reveal_with_fuel(p128, 6);
    }

    /// leb(n) is canonical and denotes n
    pub proof fn lemma_leb_canon(n: nat)
        ensures canon(leb(n)), val(leb(n)) == n,
        decreases n
    {
        if n < 128 {
            let s = leb(n);
            assert(s.drop_first() =~= Seq::<u8>::empty());
            assert(val(s.drop_first()) == 0);
        } else {
            let t = leb(n / 128);
            let h = (n % 128 + 128) as u8;
            let s = leb(n);
            lemma_leb_canon(n / 128);
            assert(s == seq![h] + t);
            assert(s.drop_first() =~= t);
            assert(s[0] == h);
            assert(h % 128 == n % 128);
            assert(val(s) == (h % 128) as nat + 128 * val(t));
            assert forall|j: int| 0 <= j < s.len() - 1 implies s[j] >= 128 by {
                if j > 0 { assert(s[j] == t[j - 1]); }
            }
            assert(s.last() == t.last());
            if t.len() == 1 {
                assert(t.drop_first() =~= Seq::<u8>::empty());
                assert(val(t) == (t[0] % 128) as nat);
            }
        }
    }

    pub proof fn lemma_leb_len(n: nat, k: nat)
        requires k >= 1, n < p128(k)
        ensures leb(n).len() <= k
        decreases k
    {
        lemma_p128();
        if n >= 128 {
            if k == 1 { assert(false); }
            assert(n / 128 < p128((k - 1) as nat)) by (nonlinear_arith)
                requires n < 128 * p128((k - 1) as nat);
            lemma_leb_len(n / 128, (k - 1) as nat);
        }
    }

    pub proof fn lemma_val_bound(s: Seq<u8>)
        ensures val(s) < p128(s.len())
        decreases s.len()
    {
        if s.len() > 0 { lemma_val_bound(s.drop_first()); }
    }

    pub proof fn lemma_val_pos(s: Seq<u8>)
        requires s.len() >= 1, s.last() % 128 != 0
        ensures val(s) > 0
        decreases s.len()
    {
        if s.len() > 1 {
            assert(s.drop_first().last() == s.last());
            lemma_val_pos(s.drop_first());
        }
    }

    /// appending a most-significant digit
    pub proof fn lemma_val_push(s: Seq<u8>, b: u8)
        ensures val(s.push(b)) == val(s) + ((b % 128) as nat) * p128(s.len())
        decreases s.len()
    {
        let x = (b % 128) as nat;
        let sb = s.push(b);
        if s.len() == 0 {
            assert(sb.drop_first() =~= Seq::<u8>::empty());
            assert(val(sb.drop_first()) == 0);
            assert(sb[0] == b);
            assert(val(sb) == x + 128 * 0);
            assert(val(s) == 0);
            assert(p128(0) == 1);
            assert(x * 1 == x);
        } else {
            let t = s.drop_first();
            lemma_val_push(t, b);
            assert(sb.drop_first() =~= t.push(b));
            assert(sb[0] == s[0]);
            let h = (s[0] % 128) as nat;
            let p = p128(t.len());
            let vt = val(t);
            assert(t.len() == s.len() - 1);
            assert(p128(s.len()) == 128 * p128((s.len() - 1) as nat));
            assert(p128(s.len()) == 128 * p);
            assert(val(t.push(b)) == vt + x * p);
            assert(val(sb) == h + 128 * val(sb.drop_first()));
            assert(val(sb) == h + 128 * (vt + x * p));
            assert(val(s) == h + 128 * vt);
            assert(128 * (vt + x * p) == 128 * vt + x * (128 * p)) by (nonlinear_arith);
            assert(x * p128(s.len()) == x * (128 * p));
        }
    }

    /// CANONICITY core: a canonical digit string is the encoding of its own value
    pub proof fn lemma_canon_leb(s: Seq<u8>)
        requires canon(s)
        ensures leb(val(s)) == s
        decreases s.len()
    {
        if s.len() == 1 {
            assert(s.drop_first() =~= Seq::<u8>::empty());
            assert(val(s.drop_first()) == 0);
            assert(val(s) == s[0] as nat);
            assert(leb(val(s)) =~= s);
        } else {
            let t = s.drop_first();
            assert(t.last() == s.last());
            assert forall|j: int| 0 <= j < t.len() - 1 implies t[j] >= 128 by { assert(t[j] == s[j + 1]); }
            assert(canon(t));
            lemma_canon_leb(t);
            lemma_val_pos(t);
            let v = val(s);
            assert(s[0] >= 128);
            assert(v == (s[0] % 128) as nat + 128 * val(t));
            assert(v >= 128);
            assert(v / 128 == val(t));
            assert(v % 128 == (s[0] % 128) as nat);
            assert((v % 128 + 128) as u8 == s[0]);
            assert(leb(v) == seq![s[0]] + leb(val(t)));
            assert(seq![s[0]] + t =~= s);
        }
    }

    /// PREFIX-FREENESS: at most one canonical string is a prefix of a given input
    pub proof fn lemma_prefix_unique(a: Seq<u8>, b: Seq<u8>, r: Seq<u8>)
        requires canon(a), canon(b), is_prefix(a, r), is_prefix(b, r)
        ensures a == b
    {
        if a.len() < b.len() {
            assert(b[a.len() - 1] == r[a.len() - 1]);
            assert(a[a.len() - 1] == r[a.len() - 1]);
            assert(false);
        }
        if b.len() < a.len() {
            assert(a[b.len() - 1] == r[b.len() - 1]);
            assert(b[b.len() - 1] == r[b.len() - 1]);
            assert(false);
        }
        assert(a =~= b);
    }

    /// C20 "every value has one encoding" for sizes: the encoding is injective and prefix-free,
    /// so a size followed by arbitrary bytes is parsed in exactly one way.
    pub proof fn lemma_leb_unique(a: nat, b: nat, tail: Seq<u8>)
        requires is_prefix(leb(a), leb(b) + tail)
        ensures a == b
    {
        lemma_leb_canon(a);
        lemma_leb_canon(b);
        let r = leb(b) + tail;
        assert(is_prefix(leb(b), r));
        lemma_prefix_unique(leb(a), leb(b), r);
    }

    /// sizes within the limit use 1..=4 bytes
    pub proof fn lemma_leb_max(n: nat)
        requires n <= max_size()
        ensures 1 <= leb(n).len() <= 4
    {
        lemma_p128();
        lemma_leb_len(n, 4);
        lemma_leb_canon(n);
    }

    // ---- machine-arithmetic bridges (bit-vector mode) ---------------------------------------------
    pub proof fn lemma_bv_write(size: usize)
        ensures
            (size & 0x7F) == size % 128,
            (size >> 7) == size / 128,
            ((size & 0x7F) as u8) == size % 128,
            (((size & 0x7F) as u8) | 0x80u8) == size % 128 + 128,
    {
        assert((size & 0x7F) == size % 128) by (bit_vector);
        assert((size >> 7) == size / 128) by (bit_vector);
        let s7: usize = size & 0x7F;
        assert(s7 < 128);
        let b: u8 = s7 as u8;
        assert(b < 128);
        assert((b | 0x80u8) == b + 128) by (bit_vector) requires b < 128;
    }

    // ---- the encoder ------------------------------------------------------------------------------
    pub trait Encoder<X: CustomValueKind>: Sized {
        /// ghost: the bytes written so far
        spec fn out(&self) -> Seq<u8>;
        /// ghost: (stack_depth, max_depth) -- everything else an encoder carries
        spec fn depths(&self) -> (int, int);

        /*@fn sbor/src/encoder.rs :: trait Encoder<X: CustomValueKind>: Sized :: fn write_size
        @sig
            ensures
                ret is Ok <==> size <= 0x0FFF_FFFF,
                ret matches Err(e) ==> e == (EncodeError::SizeTooLarge { actual: size, max_allowed: 0x0FFF_FFFF }),
                ret is Ok ==> final(self).out() == old(self).out() + leb(size as nat),
                ret is Err ==> final(self).out() == old(self).out(),
                final(self).depths() == old(self).depths()
        @entry
            let ghost n0 = size;
        @loop 1
            invariant_except_break
                size <= 0x0FFF_FFFF,
                old(self).out() + leb(n0 as nat) == self.out() + leb(size as nat),
            invariant
                self.depths() == old(self).depths(),
            ensures
                self.out() == old(self).out() + leb(n0 as nat),
            decreases size
        @before <<let seven_bits>> #1
            let ghost sz = size;
            let ghost o = self.out();
            proof {
                lemma_bv_write(size);
                if sz >= 128 {
                    let h = (sz % 128 + 128) as u8;
                    assert(leb(sz as nat) == seq![h] + leb((sz / 128) as nat));
                    assert(o + (seq![h] + leb((sz / 128) as nat)) =~= o.push(h) + leb((sz / 128) as nat));
                } else {
                    assert(o + leb(sz as nat) =~= o.push(sz as u8));
                }
            }
        @*/

        // R12: required method, signature re-declared; the VecEncoder impl below is extracted and must match it
        fn write_byte(&mut self, n: u8) -> (ret: Result<(), EncodeError>)
            ensures ret is Ok, final(self).out() == old(self).out().push(n), final(self).depths() == old(self).depths();
    }

    /*@item sbor/src/encoder.rs :: struct VecEncoder
    @*/

    impl<'a, X: CustomValueKind> VecEncoder<'a, X> {
        /*@fn sbor/src/encoder.rs :: impl<'a, X: CustomValueKind> VecEncoder<'a, X> :: fn new
        @sig
            ensures ret.out() == old(buf)@, ret.depths() == (0int, max_depth as int)
        @*/
    }

    impl<'a, X: CustomValueKind> Encoder<X> for VecEncoder<'a, X> {
        open spec fn out(&self) -> Seq<u8> { (*self.buf)@ }
        open spec fn depths(&self) -> (int, int) { (self.stack_depth as int, self.max_depth as int) }
        /*@fn sbor/src/encoder.rs :: impl<'a, X: CustomValueKind> Encoder<X> for VecEncoder<'a, X> :: fn write_byte
        @*/
    }

    // ---- the decoder ------------------------------------------------------------------------------
    /// a digit < 128 placed at digit position i (shift 7*i) of an accumulator that is < 128^i
    pub proof fn lemma_bv_read(sp: usize, b: u8, i: int)
        requires 0 <= i < 4, sp < p128(i as nat)
        ensures
            i == 0 ==> (sp | (((b & 0x7F) as usize) << 0)) == sp + (b % 128) * p128(0),
            i == 1 ==> (sp | (((b & 0x7F) as usize) << 7)) == sp + (b % 128) * p128(1),
            i == 2 ==> (sp | (((b & 0x7F) as usize) << 14)) == sp + (b % 128) * p128(2),
            i == 3 ==> (sp | (((b & 0x7F) as usize) << 21)) == sp + (b % 128) * p128(3),
    {
        lemma_p128();
        let d: u8 = b & 0x7F;
        assert(d == b % 128) by (bit_vector) requires d == b & 0x7F;
        let x: usize = d as usize;
        assert(x < 128);
        assert(sp < 1 ==> (sp | (x << 0)) == sp + x * 1) by (bit_vector) requires x < 128;
        assert(sp < 128 ==> (sp | (x << 7)) == sp + x * 128) by (bit_vector) requires x < 128;
        assert(sp < 16384 ==> (sp | (x << 14)) == sp + x * 16384) by (bit_vector) requires x < 128;
        assert(sp < 2097152 ==> (sp | (x << 21)) == sp + x * 2097152) by (bit_vector) requires x < 128;
    }

    /// (typed equality: fixes the type of the late-initialised local `byte` for rustc's inference)
    pub open spec fn same_byte(a: u8, b: u8) -> bool { a == b }

    /// representation invariant of a decoder: the read position is inside the input
    pub open spec fn wf_at(input: Seq<u8>, pos: int) -> bool { 0 <= pos <= input.len() }
    /// the bytes not yet consumed
    pub open spec fn rest_of(input: Seq<u8>, pos: int) -> Seq<u8> { input.subrange(pos, input.len() as int) }

    pub trait Decoder<X: CustomValueKind>: Sized {
        /// ghost: the whole input and the read position
        spec fn input(&self) -> Seq<u8>;
        spec fn pos(&self) -> int;
        /// ghost: (stack_depth, max_depth)
        spec fn depths(&self) -> (int, int);

        /*@fn sbor/src/decoder.rs :: trait Decoder<X: CustomValueKind>: Sized :: fn read_size
        @sig
            requires wf_at(old(self).input(), old(self).pos())
            ensures
                wf_at(final(self).input(), final(self).pos()), final(self).input() == old(self).input(), final(self).depths() == old(self).depths(),
                // accepted  ==> the consumed bytes are exactly the (canonical) encoding of the result
                ret matches Ok(n) ==> n <= 0x0FFF_FFFF && is_prefix(leb(n as nat), rest_of(old(self).input(), old(self).pos()))
                    && final(self).pos() == old(self).pos() + leb(n as nat).len(),
                // rejected  ==> the input does not start with the encoding of any legal size
                ret is Err ==> forall|n: nat| n <= max_size() ==> !is_prefix(#[trigger] leb(n), rest_of(old(self).input(), old(self).pos())),
                // hence (prefix-freeness): an input that starts with leb(n) is read back as n
                forall|n: nat| n <= max_size() && is_prefix(#[trigger] leb(n), rest_of(old(self).input(), old(self).pos())) ==> ret == Ok::<usize, DecodeError>(n as usize),
                // error classification: anything but a truncated input is InvalidSize
                ret matches Err(e) ==> e == DecodeError::InvalidSize
                    || (rest_of(old(self).input(), old(self).pos()).len() < 4 && forall|j: int| 0 <= j < rest_of(old(self).input(), old(self).pos()).len() ==> rest_of(old(self).input(), old(self).pos())[j] >= 128),
                ret matches Err(e) ==> final(self).pos() >= old(self).pos()
        @entry
            let ghost pos0 = self.pos();
            let ghost inp = self.input();
            let ghost rem = rest_of(self.input(), self.pos());
            let ghost mut i: int = 0;
            proof {
                assert(0 <= pos0 <= inp.len());
                assert(rem == inp.subrange(pos0, inp.len() as int));
                assert(rem.len() == inp.len() - pos0);
                assert(rem.subrange(0, 0) =~= Seq::<u8>::empty()); lemma_p128(); }
        @loop 1
            invariant_except_break
                0 <= i < 4, shift == 7 * i,
                self.pos() == pos0 + i,
                size == val(rem.subrange(0, i)),
            invariant
                wf_at(self.input(), self.pos()), self.input() == inp, self.depths() == old(self).depths(),
                pos0 == old(self).pos(), inp == old(self).input(), rem == rest_of(old(self).input(), old(self).pos()), wf_at(old(self).input(), old(self).pos()),
                rem.len() == inp.len() - pos0,
                forall|j: int| 0 <= j < i ==> rem[j] >= 128,
                forall|n: nat| n <= max_size() && is_prefix(#[trigger] leb(n), rem) ==> leb(n).len() > i,
            ensures
                0 <= i < 4, shift == 7 * i, i < rem.len(),
                same_byte(byte, rem[i]), byte < 128,
                self.pos() == pos0 + i + 1,
                size == val(rem.subrange(0, i + 1)),
            decreases 4 - i
        @before <<size |=>> #1
            let ghost sp = size;
            proof {
                assert(byte == inp[pos0 + i]);
                assert(byte == rem[i]);
                lemma_val_bound(rem.subrange(0, i));
                lemma_bv_read(sp, byte, i);
            }
        @after <<size |=>> #1
            proof {
                lemma_val_push(rem.subrange(0, i), byte);
                assert(rem.subrange(0, i).push(byte) =~= rem.subrange(0, i + 1));
            }
        @after <<shift +=>> #1
            proof {
                assert forall|n: nat| n <= max_size() && is_prefix(#[trigger] leb(n), rem) implies leb(n).len() > i + 1 by {
                    lemma_leb_canon(n);
                    if leb(n).len() == i + 1 { assert(leb(n)[i] == rem[i]); }
                }
                i = i + 1;
            }
        @before <<return Err(DecodeError::InvalidSize)>> #1
            proof {
                assert forall|n: nat| n <= max_size() implies !is_prefix(#[trigger] leb(n), rem) by {
                    lemma_leb_max(n);
                }
            }
        @before <<return Err(DecodeError::InvalidSize)>> #2
            proof {
                assert forall|n: nat| n <= max_size() implies !is_prefix(#[trigger] leb(n), rem) by {
                    lemma_leb_canon(n);
                    if is_prefix(leb(n), rem) {
                        let m = leb(n).len() as int;
                        assert(m > i);
                        if m > i + 1 { assert(leb(n)[i] == rem[i]); }
                        assert(leb(n)[m - 1] == rem[m - 1]);
                    }
                }
            }
        @before <<Ok(size)>> #1
            proof {
                let c = rem.subrange(0, i + 1);
                assert(canon(c));
                lemma_canon_leb(c);
                lemma_val_bound(c);
                assert(is_prefix(leb(size as nat), rem));
                assert forall|n: nat| n <= max_size() && is_prefix(#[trigger] leb(n), rem) implies n == size by {
                    lemma_leb_canon(n);
                    lemma_leb_canon(size as nat);
                    lemma_prefix_unique(leb(n), leb(size as nat), rem);
                }
            }
        @*/

        // R12: required method, signature re-declared; the VecDecoder impl below is extracted and must match it
        fn read_byte(&mut self) -> (ret: Result<u8, DecodeError>)
            requires wf_at(old(self).input(), old(self).pos())
            ensures
                wf_at(final(self).input(), final(self).pos()), final(self).input() == old(self).input(), final(self).depths() == old(self).depths(),
                ret is Ok <==> old(self).pos() < old(self).input().len(),
                ret matches Ok(b) ==> b == old(self).input()[old(self).pos()] && final(self).pos() == old(self).pos() + 1,
                ret is Err ==> final(self).pos() == old(self).pos();
    }

    /*@item sbor/src/decoder.rs :: struct VecDecoder
    @*/

    impl<'de, X: CustomValueKind> VecDecoder<'de, X> {
        /*@fn sbor/src/decoder.rs :: impl<'de, X: CustomValueKind> VecDecoder<'de, X> :: fn new
        @sig
            ensures wf_at(ret.input(), ret.pos()), ret.input() == input@, ret.pos() == 0, ret.depths() == (0int, max_depth as int)
        @*/
        /*@fn sbor/src/decoder.rs :: impl<'de, X: CustomValueKind> VecDecoder<'de, X> :: fn require_remaining
        @sig
            requires wf_at(self.input(), self.pos())
            ensures
                ret is Ok <==> n <= self.input().len() - self.pos(),
                ret matches Err(e) ==> e == (DecodeError::BufferUnderflow { required: n, remaining: (self.input().len() - self.pos()) as usize })
        @*/
        /*@fn sbor/src/decoder.rs :: impl<'de, X: CustomValueKind> VecDecoder<'de, X> :: fn remaining_bytes
        @sig
            requires wf_at(self.input(), self.pos())
            ensures ret == self.input().len() - self.pos()
        @*/
    }

    impl<'de, X: CustomValueKind> Decoder<X> for VecDecoder<'de, X> {
        open spec fn input(&self) -> Seq<u8> { self.input@ }
        open spec fn pos(&self) -> int { self.offset as int }
        open spec fn depths(&self) -> (int, int) { (self.stack_depth as int, self.max_depth as int) }
        /*@fn sbor/src/decoder.rs :: impl<'de, X: CustomValueKind> Decoder<X> for VecDecoder<'de, X> :: fn read_byte
        @sig
            ensures ret matches Err(e) ==> e == (DecodeError::BufferUnderflow { required: 1, remaining: 0 })
        @*/
    }
}
} // verus!
fn main() {}
