// C41 finding replay: two-resource pool `contribute` mints pool units for the UNROUNDED required
// amount of the non-limiting resource, but only takes that amount ROUNDED DOWN to the resource's
// divisibility from the contributor.
//
// Scenario: resource A has divisibility 0, resource B has divisibility 18.
//   * LP1 contributes (1000 A, 1000 B)  -> 1000 pool units.
//   * LP2 contributes N times (2 A, x B) with x = 1.999 * reserveB / reserveA so that the amount of
//     A "required" by the ratio is just under 2 (-> rounded down to 1 A when taken).
//   * LP2 redeems all of its pool units.
//   * LP1 redeems all of its pool units (to show what is left for LP1).
//
// Everything is executed on the real engine through the ledger simulator. No asserts on the
// suspected behaviour are made: the test only prints numbers, so that it can confirm OR refute.
use radix_common::prelude::*;
use radix_engine::blueprints::pool::v1::constants::*;
use radix_engine::transaction::{BalanceChange, TransactionReceipt};
use radix_engine_interface::blueprints::pool::*;
use scrypto_test::prelude::*;

struct ReplayEnv {
    ledger: DefaultLedgerSimulator,

    pool: ComponentAddress,
    pool_unit: ResourceAddress,
    res_a: ResourceAddress,
    res_b: ResourceAddress,

    manager_badge: NonFungibleGlobalId,

    lp1_account: ComponentAddress,
    lp1_badge: NonFungibleGlobalId,
    lp2_account: ComponentAddress,
    lp2_badge: NonFungibleGlobalId,
}

fn fungible_change(
    changes: &IndexMap<ResourceAddress, BalanceChange>,
    resource: &ResourceAddress,
) -> Decimal {
    match changes.get(resource) {
        Some(BalanceChange::Fungible(amount)) => *amount,
        Some(BalanceChange::NonFungible { .. }) => panic!("unexpected non fungible change"),
        None => Decimal::ZERO,
    }
}

impl ReplayEnv {
    fn new(div_a: u8, div_b: u8) -> Self {
        let mut ledger = LedgerSimulatorBuilder::new().build();
        let (manager_pk, _, manager_account) = ledger.new_account(false);
        let (lp1_pk, _, lp1_account) = ledger.new_account(false);
        let (lp2_pk, _, lp2_account) = ledger.new_account(false);
        let manager_badge = NonFungibleGlobalId::from_public_key(manager_pk);
        let lp1_badge = NonFungibleGlobalId::from_public_key(lp1_pk);
        let lp2_badge = NonFungibleGlobalId::from_public_key(lp2_pk);

        let res_a = ledger.create_freely_mintable_and_burnable_fungible_resource(
            OwnerRole::None,
            None,
            div_a,
            manager_account,
        );
        let res_b = ledger.create_freely_mintable_and_burnable_fungible_resource(
            OwnerRole::None,
            None,
            div_b,
            manager_account,
        );

        let (pool, pool_unit) = {
            let manifest = ManifestBuilder::new()
                .lock_fee_from_faucet()
                .call_function(
                    POOL_PACKAGE,
                    TWO_RESOURCE_POOL_BLUEPRINT_IDENT,
                    TWO_RESOURCE_POOL_INSTANTIATE_IDENT,
                    TwoResourcePoolInstantiateManifestInput {
                        resource_addresses: (res_a.into(), res_b.into()),
                        pool_manager_rule: rule!(require(manager_badge.clone())).into(),
                        owner_role: OwnerRole::None.into(),
                        address_reservation: None,
                    },
                )
                .build();
            let receipt = ledger.execute_manifest(manifest, vec![]);
            let commit_result = receipt.expect_commit_success();
            (
                commit_result.new_component_addresses()[0],
                commit_result.new_resource_addresses()[0],
            )
        };

        Self {
            ledger,
            pool,
            pool_unit,
            res_a,
            res_b,
            manager_badge,
            lp1_account,
            lp1_badge,
            lp2_account,
            lp2_badge,
        }
    }

    /// Mints (amount_a, amount_b) out of thin air (that is what the LP "brings"), offers both to
    /// `contribute`, and deposits everything that comes back (pool units + change) into `account`.
    fn contribute(
        &mut self,
        account: ComponentAddress,
        badge: NonFungibleGlobalId,
        amount_a: Decimal,
        amount_b: Decimal,
    ) -> TransactionReceipt {
        let manifest = ManifestBuilder::new()
            .lock_fee_from_faucet()
            .mint_fungible(self.res_a, amount_a)
            .mint_fungible(self.res_b, amount_b)
            .take_all_from_worktop(self.res_a, "resource_a")
            .take_all_from_worktop(self.res_b, "resource_b")
            .with_name_lookup(|builder, lookup| {
                let bucket1 = lookup.bucket("resource_a");
                let bucket2 = lookup.bucket("resource_b");
                builder.call_method(
                    self.pool,
                    TWO_RESOURCE_POOL_CONTRIBUTE_IDENT,
                    TwoResourcePoolContributeManifestInput {
                        buckets: (bucket1, bucket2),
                    },
                )
            })
            .try_deposit_entire_worktop_or_abort(account, None)
            .build();
        self.ledger
            .execute_manifest(manifest, vec![self.manager_badge.clone(), badge])
    }

    fn redeem(
        &mut self,
        account: ComponentAddress,
        badge: NonFungibleGlobalId,
        amount: Decimal,
    ) -> TransactionReceipt {
        let manifest = ManifestBuilder::new()
            .lock_fee_from_faucet()
            .withdraw_from_account(account, self.pool_unit, amount)
            .take_all_from_worktop(self.pool_unit, "pool_units")
            .with_name_lookup(|builder, lookup| {
                let bucket = lookup.bucket("pool_units");
                builder.call_method(
                    self.pool,
                    TWO_RESOURCE_POOL_REDEEM_IDENT,
                    TwoResourcePoolRedeemManifestInput { bucket },
                )
            })
            .try_deposit_entire_worktop_or_abort(account, None)
            .build();
        self.ledger
            .execute_manifest(manifest, vec![self.manager_badge.clone(), badge])
    }

    fn reserve_a(&mut self) -> Decimal {
        self.ledger.get_component_balance(self.pool, self.res_a)
    }

    fn reserve_b(&mut self) -> Decimal {
        self.ledger.get_component_balance(self.pool, self.res_b)
    }

    fn supply(&mut self) -> Decimal {
        self.ledger
            .get_fungible_resource_total_supply(self.pool_unit)
    }

    fn balance(&mut self, account: ComponentAddress, resource: ResourceAddress) -> Decimal {
        self.ledger.get_component_balance(account, resource)
    }

    fn print_state(&mut self, label: &str) {
        let a = self.reserve_a();
        let b = self.reserve_b();
        let s = self.supply();
        let lp1_units = self.balance(self.lp1_account, self.pool_unit);
        let lp2_units = self.balance(self.lp2_account, self.pool_unit);
        println!(
            "[{}] reserves: A={} B={} | pool unit supply={} | LP1 units={} LP2 units={}",
            label, a, b, s, lp1_units, lp2_units
        );
    }
}

fn run_replay(tag: &str, div_a: u8, div_b: u8, n: usize) {
    println!();
    println!(
        "================ C41 replay [{}]: divisibility(A)={} divisibility(B)={} N={} ================",
        tag, div_a, div_b, n
    );
    let mut env = ReplayEnv::new(div_a, div_b);
    let (res_a, res_b) = (env.res_a, env.res_b);
    let (lp1_account, lp2_account) = (env.lp1_account, env.lp2_account);
    let (lp1_badge, lp2_badge) = (env.lp1_badge.clone(), env.lp2_badge.clone());
    println!(
        "resource A = {:?}, resource B = {:?} (A > B by address: {})",
        res_a,
        res_b,
        res_a > res_b
    );

    // ---------------------------------------------------------------- phase 1
    let receipt = env.contribute(lp1_account, lp1_badge.clone(), dec!(1000), dec!(1000));
    receipt.expect_commit_success();
    env.print_state("phase 1: after LP1 contributes (1000 A, 1000 B)");

    // ---------------------------------------------------------------- phase 2
    let mut lp2_offered_a = Decimal::ZERO; // minted & offered to contribute
    let mut lp2_offered_b = Decimal::ZERO;
    let mut lp2_paid_a = Decimal::ZERO; // actually taken by the pool (vault balance change)
    let mut lp2_paid_b = Decimal::ZERO;
    let mut lp2_minted_units = Decimal::ZERO;
    let mut lp2_fair_a = Decimal::ZERO; // sum of UNROUNDED required A (what the mint was priced at)
    let mut steps_a_taken_is_1 = 0usize;
    let mut steps_rejected = 0usize;
    let mut steps_other = 0usize;

    for step in 1..=n {
        let reserve_a = env.reserve_a();
        let reserve_b = env.reserve_b();
        let supply_before = env.supply();

        // Offer 2 A and x B so that the A required by the pool ratio is ~1.999 (< 2).
        let offer_a = dec!(2);
        let offer_b = dec!("1.999") * reserve_b / reserve_a;
        // Same formula as the blueprint (PreciseDecimal): required_a = offer_b / reserve_b * reserve_a
        let required_a_unrounded = PreciseDecimal::from(offer_b) / PreciseDecimal::from(reserve_b)
            * PreciseDecimal::from(reserve_a);

        let receipt = env.contribute(lp2_account, lp2_badge.clone(), offer_a, offer_b);
        if !receipt.is_commit_success() {
            steps_rejected += 1;
            println!(
                "  step {}: CONTRIBUTION REJECTED offer=({} A, {} B): {:?}",
                step,
                offer_a,
                offer_b,
                receipt.expect_commit_failure().outcome
            );
            continue;
        }
        let pool_changes = env
            .ledger
            .sum_descendant_balance_changes(receipt.expect_commit_success(), env.pool.as_node_id());
        let taken_a = fungible_change(&pool_changes, &res_a);
        let taken_b = fungible_change(&pool_changes, &res_b);
        let minted = env.supply() - supply_before;

        lp2_offered_a += offer_a;
        lp2_offered_b += offer_b;
        lp2_paid_a += taken_a;
        lp2_paid_b += taken_b;
        lp2_minted_units += minted;
        lp2_fair_a += Decimal::try_from(
            required_a_unrounded
                .checked_round(18, RoundingMode::ToZero)
                .unwrap(),
        )
        .unwrap();
        if taken_a == dec!(1) {
            steps_a_taken_is_1 += 1;
        } else {
            steps_other += 1;
        }

        if step <= 5 || step % 50 == 0 || step == n {
            println!(
                "  step {}: offer=({} A, {} B) required_A_unrounded={} -> TAKEN=({} A, {} B) MINTED={} units | reserves now A={} B={} supply={}",
                step,
                offer_a,
                offer_b,
                required_a_unrounded,
                taken_a,
                taken_b,
                minted,
                env.reserve_a(),
                env.reserve_b(),
                env.supply()
            );
        }
    }

    env.print_state("phase 2: after LP2's N contributions");
    println!(
        "[phase 2] steps: taken_A==1 in {} steps, taken_A!=1 in {} steps, rejected {} steps",
        steps_a_taken_is_1, steps_other, steps_rejected
    );
    println!(
        "[phase 2] LP2 offered total: A={} B={}",
        lp2_offered_a, lp2_offered_b
    );
    println!(
        "[phase 2] LP2 PAID total (taken into pool vaults): A={} B={}",
        lp2_paid_a, lp2_paid_b
    );
    println!(
        "[phase 2] LP2 pool units minted total={} ; sum of UNROUNDED required A the mints were priced at={}",
        lp2_minted_units, lp2_fair_a
    );
    let lp2_change_a = env.balance(lp2_account, res_a);
    let lp2_change_b = env.balance(lp2_account, res_b);
    println!(
        "[phase 2] LP2 account holds (change returned): A={} B={} ; pool units={}",
        lp2_change_a,
        lp2_change_b,
        env.balance(lp2_account, env.pool_unit)
    );

    // Cross-check the reserves through the blueprint's own getter.
    {
        let manifest = ManifestBuilder::new()
            .lock_fee_from_faucet()
            .call_method(
                env.pool,
                TWO_RESOURCE_POOL_GET_VAULT_AMOUNTS_IDENT,
                TwoResourcePoolGetVaultAmountsManifestInput,
            )
            .build();
        let receipt = env
            .ledger
            .execute_manifest(manifest, vec![env.manager_badge.clone()]);
        let amounts: TwoResourcePoolGetVaultAmountsOutput =
            receipt.expect_commit_success().output(1);
        println!(
            "[phase 2] pool.get_vault_amounts(): A={} B={}",
            amounts[&res_a], amounts[&res_b]
        );
    }

    // ---------------------------------------------------------------- phase 3
    let lp2_units = env.balance(lp2_account, env.pool_unit);
    let receipt = env.redeem(lp2_account, lp2_badge.clone(), lp2_units);
    let pool_changes = env
        .ledger
        .sum_descendant_balance_changes(receipt.expect_commit_success(), env.pool.as_node_id());
    let lp2_received_a = -fungible_change(&pool_changes, &res_a);
    let lp2_received_b = -fungible_change(&pool_changes, &res_b);
    env.print_state("phase 3: after LP2 redeems ALL its pool units");
    println!(
        "[phase 3] LP2 redeemed {} units and RECEIVED: A={} B={}",
        lp2_units, lp2_received_a, lp2_received_b
    );
    let net_a = lp2_received_a - lp2_paid_a;
    let net_b = lp2_received_b - lp2_paid_b;
    println!(
        "[phase 3] LP2 NET GAIN (received - paid): A={} B={}",
        net_a, net_b
    );
    // Independent wealth based accounting: LP2 started with nothing, minted `offered` and now holds
    // `balance`. Net = balance - offered.
    let lp2_final_a = env.balance(lp2_account, res_a);
    let lp2_final_b = env.balance(lp2_account, res_b);
    println!(
        "[phase 3] LP2 wealth check: brought A={} B={} ; now holds A={} B={} ; net A={} B={}",
        lp2_offered_a,
        lp2_offered_b,
        lp2_final_a,
        lp2_final_b,
        lp2_final_a - lp2_offered_a,
        lp2_final_b - lp2_offered_b
    );

    // ---------------------------------------------------------------- phase 4
    let lp1_units = env.balance(lp1_account, env.pool_unit);
    let receipt = env.redeem(lp1_account, lp1_badge.clone(), lp1_units);
    let pool_changes = env
        .ledger
        .sum_descendant_balance_changes(receipt.expect_commit_success(), env.pool.as_node_id());
    let lp1_received_a = -fungible_change(&pool_changes, &res_a);
    let lp1_received_b = -fungible_change(&pool_changes, &res_b);
    env.print_state("phase 4: after LP1 redeems ALL its pool units");
    println!(
        "[phase 4] LP1 paid A=1000 B=1000 ; redeemed {} units and RECEIVED: A={} B={} ; LP1 NET: A={} B={}",
        lp1_units,
        lp1_received_a,
        lp1_received_b,
        lp1_received_a - dec!(1000),
        lp1_received_b - dec!(1000)
    );
    println!(
        "[summary {}] LP2 paid A={} B={} ; received A={} B={} ; net A={} B={} || LP1 net A={} B={}",
        tag,
        lp2_paid_a,
        lp2_paid_b,
        lp2_received_a,
        lp2_received_b,
        net_a,
        net_b,
        lp1_received_a - dec!(1000),
        lp1_received_b - dec!(1000)
    );
}

#[test]
fn c41_replay_a_div0_n100() {
    run_replay("div(0,18) N=100", 0, 18, 100);
}

#[test]
fn c41_replay_b_div0_n500() {
    run_replay("div(0,18) N=500", 0, 18, 500);
}

/// Control: identical scenario but A has divisibility 18, so nothing is rounded when taken.
#[test]
fn c41_replay_c_control_div18_n100() {
    run_replay("CONTROL div(18,18) N=100", 18, 18, 100);
}
