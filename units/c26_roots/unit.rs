// Unit c26_roots -- property C26 "Roots and powers are correctly truncated"
// Real code: radix-common/src/math/decimal.rs -- Decimal::{checked_sqrt, checked_cbrt, checked_nth_root,
// checked_powi} (+ is_zero, is_negative, CheckedMul::checked_mul which they call) and the same six
// functions of PreciseDecimal in radix-common/src/math/precise_decimal.rs, over the ASSUMED
// contracts of the bnum wrappers (shims/bigint.rs: sqrt/cbrt = floor root / root truncated toward zero,
// pow, *, /, conversions) and of num_bigint::BigInt (shims/numbigint.rs).
use vstd::prelude::*;
verus! {
/*@include shims/rt.rs @*/
/*@include shims/bigint.rs @*/
/*@include shims/numbigint.rs @*/

pub mod env {
    use vstd::prelude::*;
    use super::bigint::*;
    /*@item radix-common/src/math/traits.rs :: trait CheckedMul<Rhs = Self>
    @*/
    /*@item radix-common/src/math/decimal.rs :: struct Decimal
    @derive Clone, Copy
    @*/
    /*@item radix-common/src/math/decimal.rs :: type InnerDecimal
    @*/
    // ASSUMED: derived PartialEq on the one-field tuple struct compares the field
    impl PartialEq for Decimal { #[verifier::external_body] fn eq(&self, o: &Decimal) -> (r: bool) ensures r == (self.0.v() == o.0.v()) { unimplemented!() } }
    impl vstd::std_specs::cmp::PartialEqSpecImpl for Decimal {
        open spec fn obeys_eq_spec() -> bool { true }
        open spec fn eq_spec(&self, o: &Decimal) -> bool { self.0.v() == o.0.v() }
    }
    pub open spec fn one() -> int { 1_000_000_000_000_000_000 }
    // ASSUMED constants (their definitions use const-fn digit constructors outside Verus' subset);
    // cross-checked on the real type by kani/l0_bigint::decimal_constants
    impl Decimal {
        #[verifier::external_body] pub const ZERO: Decimal = Decimal(I192::ZERO);
        #[verifier::external_body] pub const ONE: Decimal = Decimal(I192::ONE);
    }
    pub broadcast axiom fn ax_decimal_consts()
        ensures #![trigger Decimal::ZERO.0] #![trigger Decimal::ONE.0]
            Decimal::ZERO.0.v() == 0, Decimal::ONE.0.v() == one();

    /*@item radix-common/src/math/precise_decimal.rs :: struct PreciseDecimal
    @derive Clone, Copy
    @*/
    /*@item radix-common/src/math/precise_decimal.rs :: type InnerPreciseDecimal
    @*/
    // ASSUMED: derived PartialEq on the one-field tuple struct compares the field
    impl PartialEq for PreciseDecimal { #[verifier::external_body] fn eq(&self, o: &PreciseDecimal) -> (r: bool) ensures r == (self.0.v() == o.0.v()) { unimplemented!() } }
    impl vstd::std_specs::cmp::PartialEqSpecImpl for PreciseDecimal {
        open spec fn obeys_eq_spec() -> bool { true }
        open spec fn eq_spec(&self, o: &PreciseDecimal) -> bool { self.0.v() == o.0.v() }
    }
    pub open spec fn pone() -> int { 1_000_000_000_000_000_000_000_000_000_000_000_000 }
    // ASSUMED constants, as above (kani/l0_bigint::decimal_constants)
    impl PreciseDecimal {
        #[verifier::external_body] pub const ZERO: PreciseDecimal = PreciseDecimal(I256::ZERO);
        #[verifier::external_body] pub const ONE: PreciseDecimal = PreciseDecimal(I256::ONE);
    }
    pub broadcast axiom fn ax_precise_consts()
        ensures #![trigger PreciseDecimal::ZERO.0] #![trigger PreciseDecimal::ONE.0]
            PreciseDecimal::ZERO.0.v() == 0, PreciseDecimal::ONE.0.v() == pone();
}

pub mod unit {
    use vstd::prelude::*;
    use super::rt::*;
    use super::bigint::*;
    use super::numbigint::*;
    use super::env::*;
    use super::env::Decimal;
    use super::env::PreciseDecimal;
    broadcast use {group_bigint, ax_decimal_consts, ax_precise_consts, ax_bigint_of};

    // ---- oracle (from the property statement), on sub-units: value = x / o  (o = 10^18 for Decimal, 10^36 for PreciseDecimal) -----------------
    // r/one is the square root of x/one truncated to 18 places  <=>  r^2 <= x*one < (r+1)^2
    pub open spec fn sqrt_ok(o: int, x: int, r: int) -> bool { r >= 0 && r * r <= x * o < (r + 1) * (r + 1) }
    // cube root truncated toward zero: |r|^3 <= |x|*one^2 < (|r|+1)^3, sign of r = sign of x
    pub open spec fn cube(a: int) -> int { a * a * a }
    pub open spec fn cbrt_ok(o: int, x: int, r: int) -> bool {
        if x >= 0 { r >= 0 && cube(r) <= x * o * o < cube(r + 1) }
        else { r <= 0 && cube(-r) <= (-x) * o * o < cube(-r + 1) }
    }
    // n-th root truncated toward zero: |r|^n <= |x|*one^(n-1) < (|r|+1)^n, sign of r = sign of x
    pub open spec fn nth_root_ok(o: int, x: int, n: nat, r: int) -> bool { is_trunc_root(x * ipow(o, (n - 1) as nat), n, r) }
    // exact product truncated toward zero (C24 oracle, needed by checked_powi's last step)
    pub open spec fn mul_spec(o: int, a: int, b: int) -> int { tdiv(a * b, o) }

    // ---- lemmas -------------------------------------------------------------------------------
    pub proof fn lemma_ipow_small(a: int)
        ensures ipow(a, 0) == 1, ipow(a, 1) == a, ipow(a, 2) == a * a, ipow(a, 3) == a * a * a
    {
        reveal_with_fuel(ipow, 4);
        assert(a * (a * 1) == a * a) by (nonlinear_arith);
        assert(a * (a * (a * 1)) == a * a * a) by (nonlinear_arith);
    }
    /// a root of a radicand below b * o^(n-1) is below b when o < b  (b = 2^191 / 2^255: the type's range)
    pub proof fn lemma_sqrt_fits(o: int, b: int, x: int, r: int)
        requires 0 < o < b, x < b, r >= 0, r * r <= x * o
        ensures r < b
    {
        if r >= b {
            assert(r * r >= b * b) by (nonlinear_arith) requires r >= b, b > 0;
            assert(b * b > (b - 1) * o) by (nonlinear_arith) requires b > o, o > 0;
            assert(x * o <= (b - 1) * o) by (nonlinear_arith) requires x <= b - 1, o > 0;
            assert(false);
        }
    }
    pub proof fn lemma_cbrt_fits(o: int, b: int, x: int, r: int)
        requires 0 < o < b, 0 <= x <= b, r >= 0, cube(r) <= x * o * o
        ensures r < b
    {
        if r >= b {
            assert(r * r >= b * b) by (nonlinear_arith) requires r >= b, b > 0;
            assert(r * r * r >= b * b * b) by (nonlinear_arith) requires r * r >= b * b, r >= b, b > 0;
            assert(b * b * b > b * o * o) by (nonlinear_arith) requires b > o, o > 0;
            assert(x * o * o <= b * o * o) by (nonlinear_arith) requires x <= b, o > 0;
            assert(false);
        }
    }
    pub proof fn lemma_ipow_01(n: nat)
        ensures ipow(1, n) == 1, n >= 1 ==> ipow(0, n) == 0
        decreases n
    {
        if n > 0 { lemma_ipow_01((n - 1) as nat); }
    }
    pub proof fn lemma_ipow_mono(a: int, b: int, n: nat)
        requires 0 <= a <= b
        ensures 0 <= ipow(a, n) <= ipow(b, n)
        decreases n
    {
        if n > 0 {
            lemma_ipow_mono(a, b, (n - 1) as nat);
            let pa = ipow(a, (n - 1) as nat); let pb = ipow(b, (n - 1) as nat);
            assert(0 <= a * pa <= b * pb) by (nonlinear_arith) requires 0 <= a <= b, 0 <= pa <= pb;
        }
    }
    pub proof fn lemma_ipow_strict(a: int, b: int, n: nat)
        requires 0 <= a < b, n >= 1
        ensures 0 <= ipow(a, n) < ipow(b, n)
        decreases n
    {
        lemma_ipow_mono(a, b, (n - 1) as nat);
        let pa = ipow(a, (n - 1) as nat); let pb = ipow(b, (n - 1) as nat);
        if n == 1 {
            assert(pa == 1 && pb == 1);
        } else {
            lemma_ipow_strict(a, b, (n - 1) as nat);
        }
        assert(0 <= a * pa < b * pb) by (nonlinear_arith) requires 0 <= a < b, 0 <= pa <= pb, pb > 0;
    }
    /// the floor root is unique: the oracle determines the value
    pub proof fn lemma_floor_root_unique(x: int, n: nat, r1: int, r2: int)
        requires n >= 1, is_floor_root(x, n, r1), is_floor_root(x, n, r2)
        ensures r1 == r2
    {
        if r1 < r2 { lemma_ipow_mono(r1 + 1, r2, n); }
        if r2 < r1 { lemma_ipow_mono(r2 + 1, r1, n); }
    }
    /// an n-th root (n >= 2) of |x| * o^(n-1) with |x| <= b is below b in magnitude
    pub proof fn lemma_nth_root_fits(o: int, b: int, x: int, n: nat, r: int)
        requires 0 < o < b, -b <= x < b, n >= 2, is_trunc_root(x * ipow(o, (n - 1) as nat), n, r)
        ensures -b < r < b, x >= 0 ==> r >= 0, x < 0 ==> r <= 0
    {
        let p = ipow(o, (n - 1) as nat); let q = ipow(b, (n - 1) as nat);
        lemma_ipow_strict(o, b, (n - 1) as nat);
        lemma_ipow_mono(1, o, (n - 1) as nat); lemma_ipow_01((n - 1) as nat);
        assert(p >= 1);
        let big = x * p;
        let ax = if x >= 0 { x } else { -x };
        let ar = if big >= 0 { r } else { -r };
        assert(big >= 0 <==> x >= 0) by (nonlinear_arith) requires big == x * p, p >= 1;
        assert((-x) * p == -(x * p)) by (nonlinear_arith);
        assert(is_floor_root(ax * p, n, ar));
        assert(ax * p < b * q) by (nonlinear_arith) requires 0 <= ax <= b, 1 <= p < q, b > 0;
        assert(ipow(b, n) == b * q);
        if ar >= b { lemma_ipow_mono(b, ar, n); assert(false); }
    }
    // ---- powers: the result never exceeds the exact power in magnitude ---------------------------
    pub open spec fn iabs(a: int) -> int { if a < 0 { -a } else { a } }
    /// e >= 1:  |r/one| <= |x/one|^e   <=>   |r| * one^(e-1) <= |x|^e
    pub open spec fn mag_ok(o: int, x: int, e: int, r: int) -> bool { iabs(r) * ipow(o, (e - 1) as nat) <= ipow(iabs(x), e as nat) }
    /// e >= 1:  |r/one| <= 1 / |x/one|^e   <=>   |r| * |x|^e <= one^(e+1)
    pub open spec fn mag_ok_neg(o: int, x: int, e: int, r: int) -> bool { iabs(r) * ipow(iabs(x), e as nat) <= ipow(o, (e + 1) as nat) }

    pub proof fn lemma_ipow_add(a: int, m: nat, n: nat)
        ensures ipow(a, m + n) == ipow(a, m) * ipow(a, n)
        decreases m
    {
        if m == 0 {
            assert(1 * ipow(a, n) == ipow(a, n));
        } else {
            lemma_ipow_add(a, (m - 1) as nat, n);
            assert(((m + n) - 1) as nat == ((m - 1) as nat) + n);
            let pm = ipow(a, (m - 1) as nat); let pn = ipow(a, n);
            assert(a * (pm * pn) == (a * pm) * pn) by (nonlinear_arith);
        }
    }
    pub proof fn lemma_ipow_mulbase(a: int, b: int, n: nat)
        ensures ipow(a * b, n) == ipow(a, n) * ipow(b, n)
        decreases n
    {
        if n > 0 {
            lemma_ipow_mulbase(a, b, (n - 1) as nat);
            let pa = ipow(a, (n - 1) as nat); let pb = ipow(b, (n - 1) as nat);
            assert((a * b) * (pa * pb) == (a * pa) * (b * pb)) by (nonlinear_arith);
        }
    }
    pub proof fn lemma_abs_mul(a: int, b: int)
        ensures iabs(a * b) == iabs(a) * iabs(b)
    {
        assert(iabs(a * b) == iabs(a) * iabs(b)) by (nonlinear_arith)
            requires iabs(a) == (if a < 0 { -a } else { a }), iabs(b) == (if b < 0 { -b } else { b }), iabs(a * b) == (if a * b < 0 { -(a * b) } else { a * b });
    }
    /// truncating division never increases the magnitude: |tdiv(p, d)| * |d| <= |p|
    pub proof fn lemma_tdiv_mag(p: int, d: int)
        requires d != 0
        ensures iabs(tdiv(p, d)) * iabs(d) <= iabs(p)
    {
        let ap = iabs(p); let ad = iabs(d);
        vstd::arithmetic::div_mod::lemma_fundamental_div_mod(ap, ad);
        vstd::arithmetic::div_mod::lemma_mod_bound(ap, ad);
        assert(ap / ad >= 0) by (nonlinear_arith) requires ap == ad * (ap / ad) + ap % ad, 0 <= ap % ad < ad, ap >= 0, ad > 0;
        assert(iabs(tdiv(p, d)) == ap / ad);
        assert((ap / ad) * ad == ad * (ap / ad)) by (nonlinear_arith);
    }
    /// squaring step: r within the k-th power of x2 = trunc(x*x/one)  ==>  r within the 2k-th power of x
    pub proof fn lemma_sq_step(o: int, x: int, x2: int, k: int, r: int)
        requires o >= 1, k >= 1, x2 == tdiv(x * x, o), mag_ok(o, x2, k, r)
        ensures mag_ok(o, x, 2 * k, r)
    {
        let a = iabs(x); let a2 = iabs(x2); let b = iabs(r);
        lemma_tdiv_mag(x * x, o); lemma_abs_mul(x, x);
        assert(a2 * o <= a * a);
        let ok1 = ipow(o, (k - 1) as nat); let ok = ipow(o, k as nat); let o2k1 = ipow(o, (2 * k - 1) as nat);
        lemma_ipow_add(o, (k - 1) as nat, k as nat);
        assert(((k - 1) as nat) + (k as nat) == (2 * k - 1) as nat);
        assert(o2k1 == ok1 * ok);
        lemma_ipow_mono(0, o, k as nat);
        let t = ipow(a2, k as nat);
        assert(b * o2k1 <= t * ok) by (nonlinear_arith) requires o2k1 == ok1 * ok, b * ok1 <= t, ok >= 0;
        lemma_ipow_mulbase(a2, o, k as nat);
        assert(0 <= a2 * o) by (nonlinear_arith) requires a2 >= 0, o >= 0;
        lemma_ipow_mono(a2 * o, a * a, k as nat);
        lemma_ipow_mulbase(a, a, k as nat);
        lemma_ipow_add(a, k as nat, k as nat);
        assert((k as nat) + (k as nat) == (2 * k) as nat);
    }
    /// odd step: b within the 2k-th power of x, r = trunc(x*b/one)  ==>  r within the (2k+1)-th power of x
    pub proof fn lemma_odd_step(o: int, x: int, bb: int, k: int, r: int)
        requires o >= 1, k >= 1, mag_ok(o, x, 2 * k, bb), r == tdiv(x * bb, o)
        ensures mag_ok(o, x, 2 * k + 1, r)
    {
        let a = iabs(x); let b = iabs(bb); let c = iabs(r);
        lemma_tdiv_mag(x * bb, o); lemma_abs_mul(x, bb);
        assert(c * o <= a * b);
        let o2k1 = ipow(o, (2 * k - 1) as nat); let a2k = ipow(a, (2 * k) as nat);
        assert(ipow(o, (2 * k) as nat) == o * o2k1);
        assert(ipow(a, (2 * k + 1) as nat) == a * a2k);
        lemma_ipow_mono(0, o, (2 * k - 1) as nat);
        assert(c * (o * o2k1) <= a * a2k) by (nonlinear_arith) requires c * o <= a * b, b * o2k1 <= a2k, o2k1 >= 0, a >= 0, b >= 0, c >= 0, o >= 0;
    }
    /// negative exponent: r within the e-th power of y = trunc(one*one/x)  ==>  r within the e-th power of 1/x
    pub proof fn lemma_recip_step(o: int, x: int, y: int, e: int, r: int)
        requires o >= 1, e >= 1, x != 0, y == tdiv(o * o, x), mag_ok(o, y, e, r)
        ensures mag_ok_neg(o, x, e, r)
    {
        let a = iabs(x); let ay = iabs(y); let c = iabs(r);
        lemma_tdiv_mag(o * o, x);
        assert(ay * a <= o * o);
        let oe1 = ipow(o, (e - 1) as nat); let oe = ipow(o, e as nat); let ae = ipow(a, e as nat); let ye = ipow(ay, e as nat);
        lemma_ipow_mono(1, o, (e - 1) as nat); lemma_ipow_01((e - 1) as nat);
        lemma_ipow_mono(0, a, e as nat);
        lemma_ipow_mulbase(ay, a, e as nat);
        assert(0 <= ay * a) by (nonlinear_arith) requires ay >= 0, a >= 0;
        lemma_ipow_mono(ay * a, o * o, e as nat);
        lemma_ipow_mulbase(o, o, e as nat);
        // c*oe1 <= ye ; ye*ae <= oe*oe ; oe == o*oe1 ; ipow(o, e+1) == o*oe
        assert(oe == o * oe1);
        assert(ipow(o, (e + 1) as nat) == o * oe);
        assert((c * ae) * oe1 <= (o * oe) * oe1) by (nonlinear_arith)
            requires c * oe1 <= ye, ye * ae <= oe * oe, oe == o * oe1, ae >= 0, c >= 0, oe1 >= 1;
        assert(c * ae <= o * oe) by (nonlinear_arith) requires (c * ae) * oe1 <= (o * oe) * oe1, oe1 >= 1;
    }
    /// 2^191 (the magnitude bound of I192) and 2^255 (I256)
    pub open spec fn b192() -> int { 0x8000_0000_0000_0000int * 0x1_0000_0000_0000_0000 * 0x1_0000_0000_0000_0000 }
    pub open spec fn b256() -> int { 0x8000_0000_0000_0000int * 0x1_0000_0000_0000_0000 * 0x1_0000_0000_0000_0000 * 0x1_0000_0000_0000_0000 }
    pub proof fn lemma_mul_width(p: int)
        ensures in_i192(tdiv(p, one())) ==> in_i256(p)
    {
        if p > i256_max() { assert(tdiv(p, one()) == p / one()); assert(p / one() > i192_max()); }
        if p < i256_min() { assert(tdiv(p, one()) == -((-p) / one())); assert((-p) / one() > i192_max() + 1); }
    }

    impl Decimal {
        /*@fn radix-common/src/math/decimal.rs :: impl Decimal :: fn is_zero
        @sig
            ensures ret == (self.0.v() == 0)
        @*/
        /*@fn radix-common/src/math/decimal.rs :: impl Decimal :: fn is_negative
        @sig
            ensures ret == (self.0.v() < 0)
        @*/
        /*@fn radix-common/src/math/decimal.rs :: impl Decimal :: fn checked_sqrt
        @sig
            ensures ret is None <==> self.0.v() < 0,
                    ret matches Some(r) ==> sqrt_ok(one(), self.0.v(), r.0.v()),
        @before <<let sqrt>>
            proof { let x = self.0.v(); let big = correct_nb.v();
                    assert(big == x * one());
                    assert forall|r: int| is_floor_root(big, 2, r) implies 0 <= r <= i192_max() && sqrt_ok(one(), x, r) by {
                        lemma_ipow_small(r); lemma_ipow_small(r + 1); lemma_sqrt_fits(one(), b192(), x, r); assert(b192() == i192_max() + 1); } }
        @*/
        /*@fn radix-common/src/math/decimal.rs :: impl Decimal :: fn checked_cbrt
        @sig
            ensures ret matches Some(r) && cbrt_ok(one(), self.0.v(), r.0.v()),
        @entry
            proof { assert(Decimal::ZERO.0.v() == 0); assert(cube(0int) == 0 && cube(0int + 1) == 1); }
        @before <<let correct_nb>>
            proof { lemma_ipow_small(one()); }
        @after <<let correct_nb>>
            proof { let x = self.0.v(); let big = correct_nb.v();
                    assert(big == x * one() * one());
                    assert forall|r: int| is_floor_root(big, 3, r) && x >= 0 implies 0 <= r <= i192_max() && cube(r) <= big < cube(r + 1) by {
                        lemma_ipow_small(r); lemma_ipow_small(r + 1); lemma_cbrt_fits(one(), b192(), x, r); }
                    let nbig = -big;
                    assert forall|r: int| #[trigger] is_floor_root(nbig, 3, r) && x < 0 implies 0 <= r <= i192_max() && cube(r) <= nbig < cube(r + 1) by {
                        lemma_ipow_small(r); lemma_ipow_small(r + 1); lemma_cbrt_fits(one(), b192(), -x, r); } }
        @*/
        /*@fn radix-common/src/math/decimal.rs :: impl Decimal :: fn checked_nth_root
        @sig
            ensures ret is None <==> ((self.0.v() < 0 && n % 2 == 0) || n == 0),
                    ret matches Some(r) ==> nth_root_ok(one(), self.0.v(), n as nat, r.0.v()),
        @entry
            proof { let x = self.0.v(); lemma_ipow_small(x); lemma_ipow_small(x + 1); lemma_ipow_small(-x); lemma_ipow_small(-x + 1); lemma_ipow_small(one());
                    lemma_ipow_01(n as nat); assert(Decimal::ZERO.0.v() == 0);
                    assert(0 * ipow(one(), (n - 1) as nat) == 0) by (nonlinear_arith);
                    assert(n >= 1 ==> is_floor_root(0, n as nat, 0));
                    assert(n >= 1 && x == 0 ==> nth_root_ok(one(), x, n as nat, 0)); }
        @after <<let correct_nb>>
            proof { let x = self.0.v(); let p = ipow(one(), (n - 1) as nat);
                    lemma_ipow_mono(1, one(), (n - 1) as nat); lemma_ipow_01((n - 1) as nat);
                    assert(correct_nb.v() == x * p);
                    assert(x * p >= 0 <==> x >= 0) by (nonlinear_arith) requires p >= 1;
                    assert forall|r: int| is_trunc_root(correct_nb.v(), n as nat, r) implies i192_min() < r <= i192_max() by { lemma_nth_root_fits(one(), b192(), x, n as nat, r); assert(b192() == i192_max() + 1); } }
        @*/
        /*@fn radix-common/src/math/decimal.rs :: impl Decimal :: fn checked_powi
        @sig
            ensures exp == 0 ==> (ret matches Some(r) && r.0.v() == one()),
                    exp == 1 ==> ret == Some(*self),
                    exp >= 1 ==> (ret matches Some(r) ==> mag_ok(one(), self.0.v(), exp as int, r.0.v())),
                    exp < 0 ==> (ret matches Some(r) ==> mag_ok_neg(one(), self.0.v(), -(exp as int), r.0.v())),
            decreases (if exp < 0 { 1 - exp as int } else { exp as int })
        @entry
            let ghost e0 = exp as int;
            proof { lemma_ipow_small(iabs(self.0.v())); lemma_ipow_small(one()); }
        @after <<let exp = mul(>>
            proof { assert(exp as int == e0 * -1); assert(exp == -e0);
                    assert forall|r: int| mag_ok(one(), dec_192.v(), exp as int, r) implies mag_ok_neg(one(), self.0.v(), exp as int, r) by {
                        lemma_recip_step(one(), self.0.v(), dec_192.v(), exp as int, r); } }
        @after <<let exp = div(exp, 2)>>
            proof { assert forall|r: int| mag_ok(one(), dec_192.v(), exp as int, r) implies mag_ok(one(), self.0.v(), e0, r) by {
                        lemma_sq_step(one(), self.0.v(), dec_192.v(), exp as int, r); } }
        @after <<let b = sub_dec>>
            proof { lemma_sq_step(one(), self.0.v(), dec_192.v(), exp as int, b.0.v());
                    lemma_odd_step(one(), self.0.v(), b.0.v(), exp as int, mul_spec(one(), self.0.v(), b.0.v())); }
        @closure 1 := |x: i64, y: i64| -> (r: Option<i64>) ensures y == 2 && x >= 0 ==> r == Some((x / 2) as i64)
        @closure 2 := |x: i64, y: i64| -> (r: Option<i64>) ensures r matches Some(v) ==> v == x - y
        @closure 3 := |x: i64, y: i64| -> (r: Option<i64>) ensures r matches Some(v) ==> v == x * y
        @*/
    }
    impl CheckedMul<Decimal> for Decimal {
        type Output = Self;
        /*@fn radix-common/src/math/decimal.rs :: impl CheckedMul<Decimal> for Decimal :: fn checked_mul
        @sig
            ensures ret matches Some(r) ==> r.0.v() == mul_spec(one(), self.0.v(), other.0.v()),
                    // (the wide -> narrow conversion of the bnum wrappers rejects -2^191: known finding under C24)
                    ret is Some <==> (in_i192(mul_spec(one(), self.0.v(), other.0.v())) && mul_spec(one(), self.0.v(), other.0.v()) != i192_min()),
        @entry
            proof { lemma_mul_width(self.0.v() * other.0.v()); }
        @subst <<c_192.map(Self)>> => <<c_192.map(|x: I192| -> (r: Decimal) ensures r.0 == x { Decimal(x) })>> why: Verus rejects a tuple-struct constructor used as a function value; the closure is its eta-expansion
        @*/
    }

    // =================================== PreciseDecimal (36 places, I256) ========================
    pub proof fn lemma_mul_width_precise(p: int)
        ensures in_i256(tdiv(p, pone())) ==> in_i384(p)
    {
        if p > i384_max() { assert(tdiv(p, pone()) == p / pone()); assert(p / pone() > i256_max()); }
        if p < i384_min() { assert(tdiv(p, pone()) == -((-p) / pone())); assert((-p) / pone() > i256_max() + 1); }
    }
    impl PreciseDecimal {
        /*@fn radix-common/src/math/precise_decimal.rs :: impl PreciseDecimal :: fn is_zero
        @sig
            ensures ret == (self.0.v() == 0)
        @*/
        /*@fn radix-common/src/math/precise_decimal.rs :: impl PreciseDecimal :: fn is_negative
        @sig
            ensures ret == (self.0.v() < 0)
        @*/
        /*@fn radix-common/src/math/precise_decimal.rs :: impl PreciseDecimal :: fn checked_sqrt
        @sig
            ensures ret is None <==> self.0.v() < 0,
                    ret matches Some(r) ==> sqrt_ok(pone(), self.0.v(), r.0.v()),
        @before <<let sqrt>>
            proof { let x = self.0.v(); let big = correct_nb.v();
                    assert(big == x * pone());
                    assert forall|r: int| is_floor_root(big, 2, r) implies 0 <= r <= i256_max() && sqrt_ok(pone(), x, r) by {
                        lemma_ipow_small(r); lemma_ipow_small(r + 1); lemma_sqrt_fits(pone(), b256(), x, r); assert(b256() == i256_max() + 1); } }
        @*/
        /*@fn radix-common/src/math/precise_decimal.rs :: impl PreciseDecimal :: fn checked_cbrt
        @sig
            ensures ret matches Some(r) && cbrt_ok(pone(), self.0.v(), r.0.v()),
        @entry
            proof { assert(PreciseDecimal::ZERO.0.v() == 0); assert(cube(0int) == 0 && cube(0int + 1) == 1); }
        @before <<let correct_nb>>
            proof { lemma_ipow_small(pone()); }
        @after <<let correct_nb>>
            proof { let x = self.0.v(); let big = correct_nb.v();
                    assert(big == x * pone() * pone());
                    assert forall|r: int| is_floor_root(big, 3, r) && x >= 0 implies 0 <= r <= i256_max() && cube(r) <= big < cube(r + 1) by {
                        lemma_ipow_small(r); lemma_ipow_small(r + 1); lemma_cbrt_fits(pone(), b256(), x, r); }
                    let nbig = -big;
                    assert forall|r: int| #[trigger] is_floor_root(nbig, 3, r) && x < 0 implies 0 <= r <= i256_max() && cube(r) <= nbig < cube(r + 1) by {
                        lemma_ipow_small(r); lemma_ipow_small(r + 1); lemma_cbrt_fits(pone(), b256(), -x, r); } }
        @*/
        /*@fn radix-common/src/math/precise_decimal.rs :: impl PreciseDecimal :: fn checked_nth_root
        @sig
            ensures ret is None <==> ((self.0.v() < 0 && n % 2 == 0) || n == 0),
                    ret matches Some(r) ==> nth_root_ok(pone(), self.0.v(), n as nat, r.0.v()),
        @entry
            proof { let x = self.0.v(); lemma_ipow_small(x); lemma_ipow_small(x + 1); lemma_ipow_small(-x); lemma_ipow_small(-x + 1); lemma_ipow_small(pone());
                    lemma_ipow_01(n as nat); assert(PreciseDecimal::ZERO.0.v() == 0);
                    assert(0 * ipow(pone(), (n - 1) as nat) == 0) by (nonlinear_arith);
                    assert(n >= 1 ==> is_floor_root(0, n as nat, 0));
                    assert(n >= 1 && x == 0 ==> nth_root_ok(pone(), x, n as nat, 0)); }
        @after <<let correct_nb>>
            proof { let x = self.0.v(); let p = ipow(pone(), (n - 1) as nat);
                    lemma_ipow_mono(1, pone(), (n - 1) as nat); lemma_ipow_01((n - 1) as nat);
                    assert(correct_nb.v() == x * p);
                    assert(x * p >= 0 <==> x >= 0) by (nonlinear_arith) requires p >= 1;
                    assert forall|r: int| is_trunc_root(correct_nb.v(), n as nat, r) implies i256_min() < r <= i256_max() by { lemma_nth_root_fits(pone(), b256(), x, n as nat, r); assert(b256() == i256_max() + 1); } }
        @*/
        /*@fn radix-common/src/math/precise_decimal.rs :: impl PreciseDecimal :: fn checked_powi
        @sig
            ensures exp == 0 ==> (ret matches Some(r) && r.0.v() == pone()),
                    exp == 1 ==> ret == Some(*self),
                    exp >= 1 ==> (ret matches Some(r) ==> mag_ok(pone(), self.0.v(), exp as int, r.0.v())),
                    exp < 0 ==> (ret matches Some(r) ==> mag_ok_neg(pone(), self.0.v(), -(exp as int), r.0.v())),
            decreases (if exp < 0 { 1 - exp as int } else { exp as int })
        @entry
            let ghost e0 = exp as int;
            proof { lemma_ipow_small(iabs(self.0.v())); lemma_ipow_small(pone()); }
        @after <<let exp = mul(>>
            proof { assert(exp as int == e0 * -1); assert(exp == -e0);
                    assert forall|r: int| mag_ok(pone(), sub_256.v(), exp as int, r) implies mag_ok_neg(pone(), self.0.v(), exp as int, r) by {
                        lemma_recip_step(pone(), self.0.v(), sub_256.v(), exp as int, r); } }
        @after <<let exp = div(exp, 2)>>
            proof { assert forall|r: int| mag_ok(pone(), sub_256.v(), exp as int, r) implies mag_ok(pone(), self.0.v(), e0, r) by {
                        lemma_sq_step(pone(), self.0.v(), sub_256.v(), exp as int, r); } }
        @after <<let b = sub_pdec>>
            proof { lemma_sq_step(pone(), self.0.v(), sub_256.v(), exp as int, b.0.v());
                    lemma_odd_step(pone(), self.0.v(), b.0.v(), exp as int, mul_spec(pone(), self.0.v(), b.0.v())); }
        @closure 1 := |x: i64, y: i64| -> (r: Option<i64>) ensures y == 2 && x >= 0 ==> r == Some((x / 2) as i64)
        @closure 2 := |x: i64, y: i64| -> (r: Option<i64>) ensures r matches Some(v) ==> v == x - y
        @closure 3 := |x: i64, y: i64| -> (r: Option<i64>) ensures r matches Some(v) ==> v == x * y
        @*/
    }
    impl CheckedMul<PreciseDecimal> for PreciseDecimal {
        type Output = Self;
        /*@fn radix-common/src/math/precise_decimal.rs :: impl CheckedMul<PreciseDecimal> for PreciseDecimal :: fn checked_mul
        @sig
            ensures ret matches Some(r) ==> r.0.v() == mul_spec(pone(), self.0.v(), other.0.v()),
                    // (the wide -> narrow conversion of the bnum wrappers rejects -2^255: known finding under C24)
                    ret is Some <==> (in_i256(mul_spec(pone(), self.0.v(), other.0.v())) && mul_spec(pone(), self.0.v(), other.0.v()) != i256_min()),
        @entry
            proof { lemma_mul_width_precise(self.0.v() * other.0.v()); }
        @subst <<c_256.map(Self)>> => <<c_256.map(|x: I256| -> (r: PreciseDecimal) ensures r.0 == x { PreciseDecimal(x) })>> why: Verus rejects a tuple-struct constructor used as a function value; the closure is its eta-expansion
        @*/
    }
}
} // verus!
fn main() {}
