// Unit c03_resource_containers -- property C03 "Every committed transaction conserves resources" and
// property C10 "Funds behind a live proof cannot be withdrawn", at the level of the resource CONTAINERS.
// Real code: radix-engine-interface/src/blueprints/resource/resource.rs (every method of
//   LiquidFungibleResource, LiquidNonFungibleResource, LockedFungibleResource, LockedNonFungibleResource
//   and their Default impls) and radix-engine-interface/src/blueprints/resource/mod.rs :: check_fungible_amount.
// Amounts are integers counting attos (Decimal::v()); a non-fungible balance is the finite set of its ids.
use vstd::prelude::*;
// the `indexset!()` macro of radix-rust with no arguments builds an empty IndexSet (shims/sets.rs: index_set_new)
macro_rules! indexset { () => { index_set_new() } }
verus! {
/*@include shims/rt.rs @*/
/*@include shims/decimal.rs @*/
/*@include shims/maps.rs @*/
/*@include shims/sets.rs @*/
/*@include shims/decimal_attos.rs @*/

pub mod env {
    use vstd::prelude::*;
    // Environment: non-fungible local ids are opaque values; only equality and Clone matter.
    #[verifier::external_body]
    pub struct NonFungibleLocalId { x: Vec<u8> }
    impl Clone for NonFungibleLocalId {
        #[verifier::external_body]
        fn clone(&self) -> (r: Self) ensures r == *self { unimplemented!() }
    }
}

pub mod unit {
    use vstd::prelude::*;
    use super::rt::*;
    use super::decimal::*;
    use super::decimal::Decimal;
    use super::env::*;
    use super::maps::*;
    use super::sets::*;
    use super::decimal_attos::*;
    use vstd::arithmetic::power::pow;
    broadcast use {group_decimal, group_sets, group_i192};

    pub assume_specification<T>[core::mem::replace](dest: &mut T, src: T) -> (r: T)
        ensures r == *old(dest), *final(dest) == src;

    /*@item radix-engine-interface/src/blueprints/resource/resource.rs :: enum ResourceError
    @derive
    @*/
    /*@item radix-engine-interface/src/blueprints/resource/resource.rs :: struct LiquidFungibleResource
    @derive
    @*/

    // `Result::unwrap` (the R5 image of `.expect(..)`) needs `E: Debug`; formatting is not under contract.
    #[verifier::external]
    impl core::fmt::Debug for ResourceError {
        fn fmt(&self, f: &mut core::fmt::Formatter<'_>) -> core::fmt::Result { f.write_str("ResourceError") }
    }

    // ------------------------------------------------------------------------------------------
    // ORACLE (fungible): a container is its balance in attos.  A take of `amt` from `bal` is
    // possible iff amt <= bal (and the remainder is representable, which only matters for the
    // negative amounts that callers must never pass).
    // ------------------------------------------------------------------------------------------
    pub open spec fn take_ok(bal: int, amt: int) -> bool { amt <= bal && in_dec(bal - amt) }
    pub open spec fn take_err(bal: Decimal, amt: Decimal) -> ResourceError {
        if bal.v() < amt.v() { ResourceError::InsufficientBalance { requested: amt, actual: bal } }
        else { ResourceError::DecimalOverflow }
    }

    impl LiquidFungibleResource {
        /*@fn radix-engine-interface/src/blueprints/resource/resource.rs :: impl LiquidFungibleResource :: fn new
        @sig
            ensures ret.amount == amount
        @*/
        /*@fn radix-engine-interface/src/blueprints/resource/resource.rs :: impl LiquidFungibleResource :: fn amount
        @sig
            ensures ret == self.amount
        @*/
        /*@fn radix-engine-interface/src/blueprints/resource/resource.rs :: impl LiquidFungibleResource :: fn is_empty
        @sig
            ensures ret == (self.amount.v() == 0)
        @*/
        /*@fn radix-engine-interface/src/blueprints/resource/resource.rs :: impl LiquidFungibleResource :: fn put
        @sig
            requires in_dec(old(self).amount.v() + other.amount.v())
            ensures final(self).amount.v() == old(self).amount.v() + other.amount.v()
        @*/
        /*@fn radix-engine-interface/src/blueprints/resource/resource.rs :: impl LiquidFungibleResource :: fn take_by_amount
        @sig
            ensures
                take_ok(old(self).amount.v(), amount_to_take.v()) ==> ret is Ok,
                ret matches Ok(r) ==> take_ok(old(self).amount.v(), amount_to_take.v())
                    && r.amount == amount_to_take
                    && final(self).amount.v() == old(self).amount.v() - amount_to_take.v(),
                ret matches Err(e) ==> *final(self) == *old(self)
                    && e == take_err(old(self).amount, amount_to_take),
                // the DESIGN form: for the amounts callers may pass (>= 0) success is exactly `amt <= balance`
                amount_to_take.v() >= 0 ==> (ret is Ok <==> amount_to_take.v() <= old(self).amount.v()),
        @*/
        /*@fn radix-engine-interface/src/blueprints/resource/resource.rs :: impl LiquidFungibleResource :: fn take_all
        @sig
            ensures ret.amount == old(self).amount, final(self).amount.v() == 0
        @*/
    }

    // ==========================================================================================
    // Non-fungible containers: the abstract state is the finite set of ids.
    // ==========================================================================================
    pub type Id = NonFungibleLocalId;

    /// the members of a prefix grow by exactly the next element
    pub proof fn lemma_take_step<T>(s: Seq<T>, k: int)
        requires 0 <= k < s.len()
        ensures s.take(k + 1).to_set() =~= s.take(k).to_set().insert(s[k])
    {
        let a = s.take(k + 1);
        let b = s.take(k);
        assert forall|x: T| a.to_set().contains(x) <==> b.to_set().insert(s[k]).contains(x) by {
            if a.to_set().contains(x) {
                let i = choose|i: int| 0 <= i < a.len() && a[i] == x;
                if i < k { assert(b[i] == x); assert(b.contains(x)); }
            }
            if b.to_set().contains(x) {
                let i = choose|i: int| 0 <= i < b.len() && b[i] == x;
                assert(a[i] == x); assert(a.contains(x));
            }
            if x == s[k] { assert(a[k] == x); assert(a.contains(x)); }
        }
    }
    /// all elements of a sequence are in `big`  ==>  its set of members is a subset of `big`
    pub proof fn lemma_all_in<T>(s: Seq<T>, big: Set<T>)
        requires forall|i: int| 0 <= i < s.len() ==> big.contains(s[i])
        ensures s.to_set().subset_of(big)
    {
        assert forall|x: T| s.to_set().contains(x) implies big.contains(x) by {
            let i = choose|i: int| 0 <= i < s.len() && s[i] == x;
        }
    }

    /*@item radix-engine-interface/src/blueprints/resource/resource.rs :: struct LiquidNonFungibleResource
    @derive
    @*/

    impl LiquidNonFungibleResource {
        /*@fn radix-engine-interface/src/blueprints/resource/resource.rs :: impl LiquidNonFungibleResource :: fn new
        @sig
            ensures ret.ids == ids
        @*/
        /*@fn radix-engine-interface/src/blueprints/resource/resource.rs :: impl LiquidNonFungibleResource :: fn ids
        @sig
            ensures *ret == self.ids
        @*/
        /*@fn radix-engine-interface/src/blueprints/resource/resource.rs :: impl LiquidNonFungibleResource :: fn into_ids
        @sig
            ensures ret == self.ids
        @*/
        /*@fn radix-engine-interface/src/blueprints/resource/resource.rs :: impl LiquidNonFungibleResource :: fn amount
        @sig
            ensures ret.v() == self.ids@.len() * one18()
        @*/
        /*@fn radix-engine-interface/src/blueprints/resource/resource.rs :: impl LiquidNonFungibleResource :: fn is_empty
        @sig
            ensures ret == (self.ids@.len() == 0)
        @*/
        /*@fn radix-engine-interface/src/blueprints/resource/resource.rs :: impl LiquidNonFungibleResource :: fn put
        @sig
            ensures
                ret is Ok,
                final(self).ids@ == old(self).ids@.union(other.ids@),
                old(self).ids@.disjoint(other.ids@) ==> final(self).ids@.len() == old(self).ids@.len() + other.ids@.len(),
        @entry
            proof { if self.ids@.disjoint(other.ids@) { vstd::set_lib::lemma_set_disjoint_lens(self.ids@, other.ids@); } }
        @*/
        /*@fn radix-engine-interface/src/blueprints/resource/resource.rs :: impl LiquidNonFungibleResource :: fn take_by_ids
        @sig
            ensures
                ret is Ok <==> ids_to_take@.subset_of(old(self).ids@),
                ret matches Ok(r) ==> r.ids == *ids_to_take
                    && final(self).ids@ == old(self).ids@.difference(ids_to_take@),
                ret matches Err(e) ==> exists|j: int| 0 <= j < ids_to_take.order().len()
                    && e == ResourceError::MissingNonFungibleLocalId(#[trigger] ids_to_take.order()[j])
                    && !old(self).ids@.contains(ids_to_take.order()[j])
                    && (forall|i: int| 0 <= i < j ==> old(self).ids@.contains(ids_to_take.order()[i]))
                    && final(self).ids@ == old(self).ids@.difference(ids_to_take.order().take(j).to_set()),
        @loop 1 iter it
            invariant
                0 <= it.index@ <= ids_to_take.order().len(),
                forall|i: int| 0 <= i < it.index@ ==> old(self).ids@.contains(ids_to_take.order()[i]),
                self.ids@ == old(self).ids@.difference(ids_to_take.order().take(it.index@ as int).to_set()),
        @before <<self.ids.swap_remove(id)>> #1
            proof {
                lemma_take_step(ids_to_take.order(), it.index@ as int);
                assert(*id == ids_to_take.order()[it.index@ as int]);
                // no duplicates: the current id is none of the ids removed so far
                assert(!ids_to_take.order().take(it.index@ as int).to_set().contains(*id)) by {
                    if ids_to_take.order().take(it.index@ as int).contains(*id) {
                        let i = choose|i: int| 0 <= i < it.index@ && ids_to_take.order().take(it.index@ as int)[i] == *id;
                        assert(ids_to_take.order()[i] == ids_to_take.order()[it.index@ as int]);
                    }
                }
            }
        @before <<return Err>> #1
            proof {
                assert(ids_to_take.order().to_set().contains(*id)) by { assert(ids_to_take.order().contains(*id)); }
            }
        @after <<self.ids.swap_remove(id)>> #1
            proof {
                assert(self.ids@ =~= old(self).ids@.difference(ids_to_take.order().take(it.index@ + 1).to_set()));
            }
        @before <<Ok(LiquidNonFungibleResource::new(>> #1
            proof {
                assert(ids_to_take.order().take(ids_to_take.order().len() as int) =~= ids_to_take.order());
                lemma_all_in(ids_to_take.order(), old(self).ids@);
            }
        @*/
        /*@fn radix-engine-interface/src/blueprints/resource/resource.rs :: impl LiquidNonFungibleResource :: fn take_by_amount
        @sig
            ensures
                ret is Ok <==> n <= old(self).ids@.len(),
                // exactly n ids leave, they are the first n in iteration order, nothing else changes
                ret matches Ok(r) ==> r.ids@.len() == n
                    && r.ids@.subset_of(old(self).ids@)
                    && final(self).ids@ == old(self).ids@.difference(r.ids@)
                    && r.ids.order() == old(self).ids.order().take(n as int),
                ret matches Err(e) ==> *final(self) == *old(self)
                    && (e matches ResourceError::InsufficientBalance { requested, actual }
                        && requested.v() == n * one18() && actual.v() == old(self).ids@.len() * one18()),
        @before <<self.take_by_ids(>> #1
            proof {
                let o = self.ids.order();
                let p = o.take(n as int);
                o.unique_seq_to_set();
                assert(p.no_duplicates());
                p.unique_seq_to_set();
                assert(ids.order() == p);
                assert forall|i: int| 0 <= i < p.len() implies self.ids@.contains(p[i]) by {
                    assert(o[i] == p[i]); assert(o.contains(p[i]));
                }
                lemma_all_in(p, self.ids@);
            }
        @*/
        /*@fn radix-engine-interface/src/blueprints/resource/resource.rs :: impl LiquidNonFungibleResource :: fn take_all
        @sig
            ensures ret.ids == old(self).ids, final(self).ids@ == Set::<Id>::empty()
        @*/
    }

    // ==========================================================================================
    // Locked containers (C10): the amounts/ids currently held behind live proofs.
    // ORACLE: overlapping locks hold the MAXIMUM of their amounts (0 if there is no lock).
    // ==========================================================================================
    /// m is max(keys U {0})
    pub open spec fn is_max_locked(keys: Set<Decimal>, m: int) -> bool {
        &&& m >= 0
        &&& forall|k: Decimal| keys.contains(k) ==> k.v() <= m
        &&& (m == 0 || exists|k: Decimal| keys.contains(k) && k.v() == m)
    }
    /// the oracle is functional: there is exactly one such maximum
    pub proof fn lemma_max_locked_unique(keys: Set<Decimal>, m1: int, m2: int)
        requires is_max_locked(keys, m1), is_max_locked(keys, m2)
        ensures m1 == m2
    {}

    /*@item radix-engine-interface/src/blueprints/resource/resource.rs :: struct LockedFungibleResource
    @derive
    @*/
    impl LockedFungibleResource {
        /*@fn radix-engine-interface/src/blueprints/resource/resource.rs :: impl LockedFungibleResource :: fn is_locked
        @sig
            ensures ret == (self.amounts@.dom().len() > 0)
        @*/
        /*@fn radix-engine-interface/src/blueprints/resource/resource.rs :: impl LockedFungibleResource :: fn amount
        @sig
            ensures is_max_locked(self.amounts@.dom(), ret.v())
        @loop 1 iter it
            invariant
                max.v() >= 0,
                forall|i: int| 0 <= i < it.index@ ==> self.amounts.key_order()[i].v() <= max.v(),
                max.v() == 0 || exists|i: int| 0 <= i < it.index@ && self.amounts.key_order()[i] == max,
        @before <<max>> #4
            proof {
                let ks = self.amounts.key_order();
                assert forall|k: Decimal| self.amounts@.dom().contains(k) implies k.v() <= max.v() by {
                    assert(ks.to_set().contains(k));
                    let i = choose|i: int| 0 <= i < ks.len() && ks[i] == k;
                }
                if max.v() != 0 {
                    let i = choose|i: int| 0 <= i < ks.len() && ks[i] == max;
                    assert(ks.contains(max));
                    assert(ks.to_set().contains(max));
                }
            }
        @*/
    }
    impl Default for LockedFungibleResource {
        /*@fn radix-engine-interface/src/blueprints/resource/resource.rs :: impl Default for LockedFungibleResource :: fn default
        @sig
            ensures ret.amounts@ == Map::<Decimal, usize>::empty()
        @*/
    }

    /*@item radix-engine-interface/src/blueprints/resource/resource.rs :: struct LockedNonFungibleResource
    @derive
    @*/
    impl LockedNonFungibleResource {
        /*@fn radix-engine-interface/src/blueprints/resource/resource.rs :: impl LockedNonFungibleResource :: fn is_locked
        @sig
            ensures ret == (self.ids@.dom().len() > 0)
        @*/
        /*@fn radix-engine-interface/src/blueprints/resource/resource.rs :: impl LockedNonFungibleResource :: fn amount
        @sig
            ensures ret.v() == self.ids@.dom().len() * one18()
        @*/
        /*@fn radix-engine-interface/src/blueprints/resource/resource.rs :: impl LockedNonFungibleResource :: fn ids
        @sig
            ensures ret@ == self.ids@.dom()
        @*/
    }
    impl Default for LockedNonFungibleResource {
        /*@fn radix-engine-interface/src/blueprints/resource/resource.rs :: impl Default for LockedNonFungibleResource :: fn default
        @sig
            ensures ret.ids@ == Map::<Id, usize>::empty()
        @*/
    }
    impl Default for LiquidFungibleResource {
        /*@fn radix-engine-interface/src/blueprints/resource/resource.rs :: impl Default for LiquidFungibleResource :: fn default
        @sig
            ensures ret.amount.v() == 0
        @*/
    }
    impl Default for LiquidNonFungibleResource {
        /*@fn radix-engine-interface/src/blueprints/resource/resource.rs :: impl Default for LiquidNonFungibleResource :: fn default
        @sig
            ensures ret.ids@ == Set::<Id>::empty()
        @*/
    }

    // ==========================================================================================
    // Divisibility (C10: "amounts always respect the resource's divisibility")
    // ORACLE: an amount (in attos) is valid for a resource of divisibility d (0..=18 decimal
    // places) iff it is non-negative and a whole multiple of 10^(18-d) attos.
    // ==========================================================================================
    pub open spec fn respects_divisibility(attos: int, d: int) -> bool {
        attos >= 0 && attos % pow(10, (18 - d) as nat) == 0
    }

    pub proof fn lemma_pow10_bounds(k: nat)
        requires k <= 18
        ensures 1 <= pow(10, k) <= 1_000_000_000_000_000_000
    {
        vstd::arithmetic::power::lemma_pow_positive(10, k);
        vstd::arithmetic::power::lemma_pow_increases(10, k, 18);
        assert(pow(10, 18) == 1_000_000_000_000_000_000) by { reveal_with_fuel(vstd::arithmetic::power::pow, 20); }
    }

    /*@fn radix-engine-interface/src/blueprints/resource/mod.rs :: fn check_fungible_amount
    @sig
        requires divisibility <= 18
        ensures ret == respects_divisibility(amount.v(), divisibility as int)
    @entry
        proof {
            let b = pow(10, (18 - divisibility) as nat);
            lemma_pow10_bounds((18 - divisibility) as nat);
            if amount.v() >= 0 {
                // truncated remainder == mathematical remainder on a non-negative dividend
                vstd::arithmetic::div_mod::lemma_fundamental_div_mod(amount.v(), b);
                assert(trem(amount.v(), b) == amount.v() % b);
            }
        }
    @*/
}
} // verus!
fn main() {}
