// Unit c25_rounding -- property C25 "Rounding follows the declared rounding modes"
// Real code: radix-common/src/math/rounding_mode.rs (RoundingMode, ResolvedRoundingStrategy::{from_mode,
// from_midpoint_ordering, towards_zero, away_from_zero}), radix-common/src/math/decimal.rs
// (Decimal::{checked_round, checked_floor, checked_ceiling}), radix-common/src/math/precise_decimal.rs
// (PreciseDecimal::{checked_round, checked_floor, checked_ceiling}) and
// radix-engine-interface/src/blueprints/resource/mod.rs (<Decimal as ForWithdrawal>::for_withdrawal)
// over the ASSUMED mathematical contracts of the bnum wrappers (shims/bigint.rs: `%`, `pow`, `<<`, `>>`,
// checked_add/sub, cmp).
use vstd::prelude::*;
verus! {
/*@include shims/rt.rs @*/
/*@include shims/bigint.rs @*/

pub mod env {
    use vstd::prelude::*;
    use super::bigint::*;

    /*@item radix-common/src/math/rounding_mode.rs :: enum RoundingMode
    @derive Clone, Copy
    @*/
    /*@item radix-common/src/math/rounding_mode.rs :: enum ResolvedRoundingStrategy
    @*/

    /*@item radix-common/src/math/decimal.rs :: struct Decimal
    @derive Clone, Copy
    @*/
    /*@item radix-common/src/math/decimal.rs :: type InnerDecimal
    @*/
    // ASSUMED: derived PartialEq on the one-field tuple struct compares the field
    impl PartialEq for Decimal { #[verifier::external_body] fn eq(&self, o: &Decimal) -> (r: bool) ensures r == (self.0.v() == o.0.v()) { unimplemented!() } }
    impl vstd::std_specs::cmp::PartialEqSpecImpl for Decimal {
        open spec fn obeys_eq_spec() -> bool { true }
        open spec fn eq_spec(&self, o: &Decimal) -> bool { self.0.v() == o.0.v() }
    }
    impl Decimal {
        /*@item radix-common/src/math/decimal.rs :: impl Decimal :: const SCALE
        @*/
    }
    /*@item radix-common/src/math/precise_decimal.rs :: struct PreciseDecimal
    @derive Clone, Copy
    @*/
    /*@item radix-common/src/math/precise_decimal.rs :: type InnerPreciseDecimal
    @*/
    // ASSUMED: derived PartialEq on the one-field tuple struct compares the field
    impl PartialEq for PreciseDecimal { #[verifier::external_body] fn eq(&self, o: &PreciseDecimal) -> (r: bool) ensures r == (self.0.v() == o.0.v()) { unimplemented!() } }
    impl vstd::std_specs::cmp::PartialEqSpecImpl for PreciseDecimal {
        open spec fn obeys_eq_spec() -> bool { true }
        open spec fn eq_spec(&self, o: &PreciseDecimal) -> bool { self.0.v() == o.0.v() }
    }
    impl PreciseDecimal {
        /*@item radix-common/src/math/precise_decimal.rs :: impl PreciseDecimal :: const SCALE
        @*/
    }
    /*@item radix-engine-interface/src/blueprints/resource/mod.rs :: enum WithdrawStrategy
    @derive Clone, Copy
    @*/
    // ASSUMED: core's lossless widening `impl From<u8> for i32` (hence `Into<i32> for u8`) is the numeric cast
    pub broadcast axiom fn ax_from_u8_i32(x: u8)
        ensures <i32 as vstd::std_specs::convert::FromSpec<u8>>::obeys_from_spec(),
                #[trigger] <i32 as vstd::std_specs::convert::FromSpec<u8>>::from_spec(x) == x as i32;
    // ASSUMED: core's reflexive `impl<T> From<T> for T` (hence `Into<i32> for i32`) is the identity
    pub broadcast axiom fn ax_into_refl_i32(x: i32)
        ensures <i32 as vstd::std_specs::convert::IntoSpec<i32>>::obeys_into_spec(),
                #[trigger] <i32 as vstd::std_specs::convert::IntoSpec<i32>>::into_spec(x) == x;
}

pub mod unit {
    use vstd::prelude::*;
    use vstd::arithmetic::div_mod::*;
    use super::rt::*;
    use super::bigint::*;
    use super::env::*;
    use super::env::Decimal;
    use super::env::PreciseDecimal;
    use core::cmp::Ordering;
    use vstd::std_specs::convert::IntoSpec;
    broadcast use {group_bigint, ax_into_refl_i32, ax_from_u8_i32};

    // ---- oracle (from the property statement) --------------------------------------------------
    /// the rounding step at `dp` decimal places of a scale-`scale` fixed point number, in sub-units
    pub open spec fn step(scale: nat, dp: int) -> int { ipow(10, (scale - dp) as nat) }
    /// largest multiple of d that is <= x   (d > 0; `/` on int is the floor division for d > 0)
    pub open spec fn lo_mult(x: int, d: int) -> int { d * (x / d) }
    /// smallest multiple of d that is >= x, for x not a multiple
    pub open spec fn hi_mult(x: int, d: int) -> int { d * (x / d) + d }
    /// the multiple of d toward zero / away from zero of a non-multiple x
    pub open spec fn toward_zero(x: int, d: int) -> int { if x > 0 { lo_mult(x, d) } else { hi_mult(x, d) } }
    pub open spec fn away_zero(x: int, d: int) -> int { if x > 0 { hi_mult(x, d) } else { lo_mult(x, d) } }
    /// the one of the two neighbouring multiples whose multiplier is even
    pub open spec fn even_mult(x: int, d: int) -> int { if (x / d) % 2 == 0 { lo_mult(x, d) } else { hi_mult(x, d) } }
    /// nearest multiple; `tie` is used when x is exactly half way
    pub open spec fn nearest(x: int, d: int, tie: int) -> int {
        let below = x - lo_mult(x, d);      // distance to the lower neighbour
        let above = hi_mult(x, d) - x;      // distance to the upper neighbour
        if below < above { lo_mult(x, d) } else if below > above { hi_mult(x, d) } else { tie }
    }
    pub open spec fn round_to(x: int, d: int, mode: RoundingMode) -> int {
        if x % d == 0 { x } else {
            match mode {
                RoundingMode::ToPositiveInfinity => hi_mult(x, d),
                RoundingMode::ToNegativeInfinity => lo_mult(x, d),
                RoundingMode::ToZero => toward_zero(x, d),
                RoundingMode::AwayFromZero => away_zero(x, d),
                RoundingMode::ToNearestMidpointTowardZero => nearest(x, d, toward_zero(x, d)),
                RoundingMode::ToNearestMidpointAwayFromZero => nearest(x, d, away_zero(x, d)),
                RoundingMode::ToNearestMidpointToEven => nearest(x, d, even_mult(x, d)),
            }
        }
    }
    /// PreciseDecimal: 36 fractional digits
    pub open spec fn round_spec_precise(x: int, dp: int, mode: RoundingMode) -> int { round_to(x, step(36, dp), mode) }
    /// Decimal: 18 fractional digits
    pub open spec fn round_spec(x: int, dp: int, mode: RoundingMode) -> int { round_to(x, step(18, dp), mode) }

    // ---- oracle for the strategy resolution ------------------------------------------------------
    pub open spec fn is_nearest(mode: RoundingMode) -> bool {
        mode is ToNearestMidpointTowardZero || mode is ToNearestMidpointAwayFromZero || mode is ToNearestMidpointToEven
    }
    pub open spec fn tz(is_positive: bool) -> ResolvedRoundingStrategy { if is_positive { ResolvedRoundingStrategy::RoundDown } else { ResolvedRoundingStrategy::RoundUp } }
    pub open spec fn az(is_positive: bool) -> ResolvedRoundingStrategy { if is_positive { ResolvedRoundingStrategy::RoundUp } else { ResolvedRoundingStrategy::RoundDown } }
    pub open spec fn mid(o: Ordering, eq: ResolvedRoundingStrategy) -> ResolvedRoundingStrategy {
        match o { Ordering::Less => ResolvedRoundingStrategy::RoundDown, Ordering::Equal => eq, Ordering::Greater => ResolvedRoundingStrategy::RoundUp }
    }
    /// `o` = position of the remainder relative to the midpoint (only consulted by the nearest modes)
    pub open spec fn resolve_spec(mode: RoundingMode, is_positive: bool, o: Ordering) -> ResolvedRoundingStrategy {
        match mode {
            RoundingMode::ToPositiveInfinity => ResolvedRoundingStrategy::RoundUp,
            RoundingMode::ToNegativeInfinity => ResolvedRoundingStrategy::RoundDown,
            RoundingMode::ToZero => tz(is_positive),
            RoundingMode::AwayFromZero => az(is_positive),
            RoundingMode::ToNearestMidpointTowardZero => mid(o, tz(is_positive)),
            RoundingMode::ToNearestMidpointAwayFromZero => mid(o, az(is_positive)),
            RoundingMode::ToNearestMidpointToEven => mid(o, ResolvedRoundingStrategy::RoundToEven),
        }
    }

    // ---- lemmas -------------------------------------------------------------------------------
    pub proof fn lemma_pow10(n: nat)
        requires n <= 18
        ensures 1 <= ipow(10, n) <= 1_000_000_000_000_000_000, n >= 1 ==> ipow(10, n) % 10 == 0,
    {
        reveal_with_fuel(ipow, 20);
    }

    pub proof fn lemma_pow10_36(n: nat)
        requires n <= 36
        ensures 1 <= ipow(10, n) <= 1_000_000_000_000_000_000_000_000_000_000_000_000, n >= 1 ==> ipow(10, n) % 10 == 0,
    {
        reveal_with_fuel(ipow, 38);
    }

    /// Euclidean decomposition and the C-style remainder expressed through it
    pub proof fn lemma_trem(x: int, d: int)
        requires d > 0
        ensures x == d * (x / d) + x % d, 0 <= x % d < d,
                trem(x, d) == (if x % d == 0 { 0 } else if x > 0 { x % d } else { x % d - d }),
    {
        lemma_fundamental_div_mod(x, d);
        lemma_mod_bound(x, d);
        if x < 0 {
            let q = (-x) / d; let m = (-x) % d;
            lemma_fundamental_div_mod(-x, d);
            lemma_mod_bound(-x, d);
            assert(d * (-q) == -(d * q)) by (nonlinear_arith);
            assert(trem(x, d) == x + d * q);
            if m == 0 {
                assert(x == (-q) * d + 0) by (nonlinear_arith) requires -x == d * q + m, m == 0;
                lemma_fundamental_div_mod_converse(x, d, -q, 0);
            } else {
                assert(x == (-q - 1) * d + (d - m)) by (nonlinear_arith) requires -x == d * q + m;
                lemma_fundamental_div_mod_converse(x, d, -q - 1, d - m);
            }
        }
    }
    /// d*q is a multiple of 2d exactly when q is even
    pub proof fn lemma_even_mult(q: int, d: int)
        requires d > 0
        ensures (trem(d * q, 2 * d) == 0) <==> (q % 2 == 0), -2 * d < trem(d * q, 2 * d) < 2 * d,
    {
        let k = q / 2; let b = q % 2;
        lemma_trem(d * q, 2 * d);
        if b == 0 {
            assert(d * q == k * (2 * d) + 0) by (nonlinear_arith) requires q == 2 * k + b, b == 0;
            lemma_fundamental_div_mod_converse(d * q, 2 * d, k, 0);
        } else {
            assert(d * q == k * (2 * d) + d) by (nonlinear_arith) requires q == 2 * k + b, b == 1;
            lemma_fundamental_div_mod_converse(d * q, 2 * d, k, d);
        }
    }

    /// the oracle has the properties the statement names: a multiple of the step, in the mode's direction,
    /// strictly less than one step away (at most half a step for the nearest modes), identity on multiples
    pub proof fn lemma_oracle_sane(x: int, d: int, mode: RoundingMode)
        requires d > 0
        ensures ({ let r = round_to(x, d, mode);
            &&& r % d == 0 && -d < r - x < d
            &&& (x % d == 0 <==> r == x)
            &&& (mode is ToPositiveInfinity ==> r >= x) && (mode is ToNegativeInfinity ==> r <= x)
            &&& (mode is ToZero ==> if x >= 0 { 0 <= r <= x } else { x <= r <= 0 })
            &&& (mode is AwayFromZero ==> if x >= 0 { r >= x } else { r <= x })
            &&& (is_nearest(mode) ==> -d <= 2 * (r - x) <= d)
            &&& (is_nearest(mode) && 2 * (r - x) == d ==> (mode is ToNearestMidpointTowardZero ==> x < 0) && (mode is ToNearestMidpointAwayFromZero ==> x > 0) && (mode is ToNearestMidpointToEven ==> (r / d) % 2 == 0))
            &&& (is_nearest(mode) && 2 * (r - x) == -d ==> (mode is ToNearestMidpointTowardZero ==> x > 0) && (mode is ToNearestMidpointAwayFromZero ==> x < 0) && (mode is ToNearestMidpointToEven ==> (r / d) % 2 == 0))
        })
    {
        let q = x / d;
        lemma_trem(x, d);
        assert(d * (q + 1) == d * q + d) by (nonlinear_arith);
        assert(d * q == q * d + 0) by (nonlinear_arith);
        lemma_fundamental_div_mod_converse(d * q, d, q, 0);
        assert(d * (q + 1) == (q + 1) * d + 0) by (nonlinear_arith);
        lemma_fundamental_div_mod_converse(d * (q + 1), d, q + 1, 0);
        if x % d != 0 && x >= 0 { assert(q >= 0) by (nonlinear_arith) requires x == d * q + x % d, x >= 0, 0 <= x % d < d, d > 0; 
                                  assert(d * q >= 0) by (nonlinear_arith) requires q >= 0, d > 0; }
        if x % d != 0 && x < 0 { assert(q < 0) by (nonlinear_arith) requires x == d * q + x % d, x < 0, 0 <= x % d < d, d > 0;
                                 assert(d * (q + 1) <= 0) by (nonlinear_arith) requires q + 1 <= 0, d > 0; }
    }

    /// what each resolved strategy has to compute so that the result is the oracle's value
    /// (x not aligned; `o` is the position of the positive remainder relative to half a step)
    pub open spec fn even_pick(x: int, d: int) -> int {
        if x > 0 { if trem(x - x % d, 2 * d) == 0 { x - x % d } else { x - x % d + d } }
        else { if trem(x + (d - x % d), 2 * d) == 0 { x + (d - x % d) } else { x + (d - x % d) - d } }
    }
    pub proof fn lemma_resolved(x: int, d: int, mode: RoundingMode, o: Ordering)
        requires d > 0, d == 1 || d % 2 == 0, x % d != 0, o == cmp_int(x % d, d / 2)
        ensures
            -2 * d < trem(x - x % d, 2 * d) < 2 * d, -2 * d < trem(x + (d - x % d), 2 * d) < 2 * d,
            resolve_spec(mode, x > 0, o) is RoundUp ==> round_to(x, d, mode) == x + (d - x % d),
            resolve_spec(mode, x > 0, o) is RoundDown ==> round_to(x, d, mode) == x - x % d,
            resolve_spec(mode, x > 0, o) is RoundToEven ==> round_to(x, d, mode) == even_pick(x, d),
    {
        let q = x / d;
        lemma_trem(x, d);
        lemma_even_mult(q, d);
        lemma_even_mult(q + 1, d);
        assert(d * (q + 1) == d * q + d) by (nonlinear_arith);
        assert(x - x % d == d * q);
        assert(x + (d - x % d) == d * (q + 1));
        assert(lo_mult(x, d) == x - x % d);
        assert(hi_mult(x, d) == x + (d - x % d));
    }

    impl ResolvedRoundingStrategy {
        /*@fn radix-common/src/math/rounding_mode.rs :: impl ResolvedRoundingStrategy :: fn towards_zero
        @sig
            ensures ret == tz(is_positive)
        @*/
        /*@fn radix-common/src/math/rounding_mode.rs :: impl ResolvedRoundingStrategy :: fn away_from_zero
        @sig
            ensures ret == az(is_positive)
        @*/
        /*@fn radix-common/src/math/rounding_mode.rs :: impl ResolvedRoundingStrategy :: fn from_midpoint_ordering
        @sig
            ensures ret == mid(ordering, equal_strategy)
        @*/
        /*@fn radix-common/src/math/rounding_mode.rs :: impl ResolvedRoundingStrategy :: fn from_mode
        @sig
            requires is_nearest(mode) ==> compare_to_midpoint.requires(())
            ensures !is_nearest(mode) ==> ret == resolve_spec(mode, is_positive, Ordering::Equal),
                    is_nearest(mode) ==> exists|o: Ordering| #[trigger] compare_to_midpoint.ensures((), o) && ret == resolve_spec(mode, is_positive, o),
        @*/
    }

    impl Decimal {
        /*@fn radix-common/src/math/decimal.rs :: impl Decimal :: fn is_positive
        @sig
            ensures ret == (self.0.v() > 0)
        @*/
        /*@fn radix-common/src/math/decimal.rs :: impl Decimal :: fn checked_round
        @sig
            requires T::obeys_into_spec(), 0 <= decimal_places.into_spec() <= 18,
            ensures ret matches Some(r) ==> r.0.v() == round_spec(self.0.v(), decimal_places.into_spec() as int, mode),
                    ret is None <==> !in_i192(round_spec(self.0.v(), decimal_places.into_spec() as int, mode)),
                    self.0.v() % step(18, decimal_places.into_spec() as int) == 0 ==> ret == Some(*self),
        @before <<let divisor>>
            proof { lemma_pow10(n as nat); }
        @before <<let positive_remainder>>
            proof { lemma_trem(self.0.v(), divisor.v());
                    assert(pow2(1) == 2) by { reveal_with_fuel(pow2, 2); } }
        @before <<let resolved_strategy>>
            proof { lemma_resolved(self.0.v(), divisor.v(), mode, cmp_int(positive_remainder.v(), divisor.v() / 2)); }
        @closure 1 := || -> (o: Ordering) ensures o == cmp_int(positive_remainder.v(), divisor.v() / 2)
        @*/
        /*@fn radix-common/src/math/decimal.rs :: impl Decimal :: fn checked_floor
        @sig
            ensures ret matches Some(r) ==> r.0.v() == round_spec(self.0.v(), 0, RoundingMode::ToNegativeInfinity),
                    ret is None <==> !in_i192(round_spec(self.0.v(), 0, RoundingMode::ToNegativeInfinity)),
        @*/
        /*@fn radix-common/src/math/decimal.rs :: impl Decimal :: fn checked_ceiling
        @sig
            ensures ret matches Some(r) ==> r.0.v() == round_spec(self.0.v(), 0, RoundingMode::ToPositiveInfinity),
                    ret is None <==> !in_i192(round_spec(self.0.v(), 0, RoundingMode::ToPositiveInfinity)),
        @*/
    }

    // trait method `ForWithdrawal::for_withdrawal` placed in an inherent impl (a trait impl method cannot carry `requires`)
    impl Decimal {
        /*@fn radix-engine-interface/src/blueprints/resource/mod.rs :: impl ForWithdrawal for Decimal :: fn for_withdrawal
        @sig
            requires divisibility <= 18
            ensures withdraw_strategy is Exact ==> ret == Some(*self),
                    withdraw_strategy matches WithdrawStrategy::Rounded(mode) ==>
                        (ret matches Some(r) ==> r.0.v() == round_spec(self.0.v(), divisibility as int, mode))
                        && (ret is None <==> !in_i192(round_spec(self.0.v(), divisibility as int, mode))),
        @entry
            proof { assert(<i32 as vstd::std_specs::convert::FromSpec<u8>>::from_spec(divisibility) == divisibility as i32);
                    assert(<u8 as IntoSpec<i32>>::obeys_into_spec());
                    assert(<u8 as IntoSpec<i32>>::into_spec(divisibility) == divisibility as i32); }
        @*/
    }

    impl PreciseDecimal {
        /*@fn radix-common/src/math/precise_decimal.rs :: impl PreciseDecimal :: fn is_positive
        @sig
            ensures ret == (self.0.v() > 0)
        @*/
        /*@fn radix-common/src/math/precise_decimal.rs :: impl PreciseDecimal :: fn checked_round
        @sig
            requires T::obeys_into_spec(), 0 <= decimal_places.into_spec() <= 36,
            ensures ret matches Some(r) ==> r.0.v() == round_spec_precise(self.0.v(), decimal_places.into_spec() as int, mode),
                    ret is None <==> !in_i256(round_spec_precise(self.0.v(), decimal_places.into_spec() as int, mode)),
                    self.0.v() % step(36, decimal_places.into_spec() as int) == 0 ==> ret == Some(*self),
        @before <<let divisor>>
            proof { lemma_pow10_36(n as nat); }
        @before <<let positive_remainder>>
            proof { lemma_trem(self.0.v(), divisor.v());
                    assert(pow2(1) == 2) by { reveal_with_fuel(pow2, 2); } }
        @before <<let resolved_strategy>>
            proof { lemma_resolved(self.0.v(), divisor.v(), mode, cmp_int(positive_remainder.v(), divisor.v() / 2)); }
        @closure 1 := || -> (o: Ordering) ensures o == cmp_int(positive_remainder.v(), divisor.v() / 2)
        @*/
        /*@fn radix-common/src/math/precise_decimal.rs :: impl PreciseDecimal :: fn checked_floor
        @sig
            ensures ret matches Some(r) ==> r.0.v() == round_spec_precise(self.0.v(), 0, RoundingMode::ToNegativeInfinity),
                    ret is None <==> !in_i256(round_spec_precise(self.0.v(), 0, RoundingMode::ToNegativeInfinity)),
        @*/
        /*@fn radix-common/src/math/precise_decimal.rs :: impl PreciseDecimal :: fn checked_ceiling
        @sig
            ensures ret matches Some(r) ==> r.0.v() == round_spec_precise(self.0.v(), 0, RoundingMode::ToPositiveInfinity),
                    ret is None <==> !in_i256(round_spec_precise(self.0.v(), 0, RoundingMode::ToPositiveInfinity)),
        @*/
    }
}
} // verus!
fn main() {}
