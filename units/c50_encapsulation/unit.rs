// Unit c50_encapsulation -- property C50 "Objects are encapsulated by their blueprint"
// Real code (bodies extracted verbatim from /repo):
//   radix-engine/src/system/system.rs (SystemService): drop_object (tail after kernel_drop_node cut, R9), globalize,
//     globalize_with_address_internal (WHOLE body, 5 loops), get_reservation_address, new_object, get_object_info, current_actor,
//     get_outer_object, get_actor_object_id, get_blueprint_info, get_actor_info, get_actor_field_info, get_actor_collection_partition_info,
//     is_feature_enabled, actor_open_field (tail after the open cut, R9), TryFrom<ActorStateHandle> for ActorStateRef, and the
//     forwarding impls kernel_drop_node / kernel_create_node_from / kernel_read_substate / kernel_close_substate / kernel_set_substate
//   radix-engine/src/system/actor.rs: Actor::{instance_context, blueprint_id, package_address, get_object_id}, MethodActor::get_blueprint_id,
//     MethodType::module_id;  radix-engine-interface: ObjectInfo::{is_global, try_get_outer_object}, AttachedModuleId::static_blueprint,
//     ModuleId::base_partition_num, From<AttachedModuleId> for ModuleId, From<ModuleId> for Option<AttachedModuleId>;
//     radix-common PartitionNumber::at_offset; system_substates.rs FieldSubstate::{new_field, new_unlocked_field}
// Method: "sensitive callee". The ghost kernel (env trait SystemBasedKernelApi) knows, for every live node, the type info
// TypeInfoBlueprint::get_type returns, and the current actor. Its dangerous primitives carry property C50 as PRECONDITION:
//   kernel_drop_node            requires drop_permitted      (object: allowed_drop(info, actor); or an emptied shell of a globalization)
//   kernel_create_node_from     requires globalize_permitted (every source node: not-yet-global object of the actor's PACKAGE, or module-blueprint object)
//   kernel_set_substate         requires type_info_write_permitted (type info: only phantom -> object of the reserved blueprint, by its package)
//   kernel_open_substate(_with_default) with FIELD lock data requires field_access_permitted (actor's own object or its outer object)
//   new_object_internal (system.rs, NOT extracted) requires allowed_create (actor's package; actor's instance context)
// so every extracted path that reaches one of them is proved to have made the access check first. The oracles are written
// from the property statement over the Actor / ObjectInfo data types (running_blueprint, acting_outer_object, own_object), and
// the real Actor accessor functions are proved to compute exactly them.
// NOTE on the statement: drop is checked at BLUEPRINT level, globalize and create at PACKAGE level ("only the package can
// globalize a node", system.rs) -- the oracles say package where the code says package; see props.frag.json.
use vstd::prelude::*;
/// sbor `btreemap!` (sbor/src/rust.rs): a BTreeMap built by successive inserts
macro_rules! btreemap {
    ( $($key:expr => $value:expr),* $(,)? ) => {{
        let mut temp = btree_map_new();
        $( temp.insert($key, $value); )*
        temp
    }};
}
/// radix-rust `indexset!()` (only the empty form is used by the code under contract)
macro_rules! indexset { () => { index_set_new() }; }
verus! {
/*@include shims/rt.rs @*/
/*@include shims/c35_ordered_indexmap.rs @*/

pub mod env {
    use vstd::prelude::*;
    use super::unit::{Actor, ObjectInfo, BlueprintId, BlueprintInfo, SystemService, InstanceContext, AttachedModuleId, ModuleId, PartitionNumber, PartitionOffset, MethodType, OuterObjectInfo, FieldSubstate};
    pub use super::omap::IndexMap;
    use super::omap::has_key;

    // ---- addresses ----------------------------------------------------------------------------------
    /// radix-common NodeId(pub [u8; NodeId::LENGTH]), LENGTH = 30
    #[derive(Clone, Copy)]
    pub struct NodeId(pub [u8; 30]);
    /// radix-common GlobalAddress / PackageAddress: new-types over NodeId (the entity-type byte check of
    /// `new_or_panic` is a panic site, not modelled: a panic aborts, it grants nothing)
    #[derive(Clone, Copy)]
    pub struct GlobalAddress(pub NodeId);
    #[derive(Clone, Copy)]
    pub struct PackageAddress(pub NodeId);
    impl GlobalAddress {
        #[verifier::external_body]
        pub fn new_or_panic(raw: [u8; 30]) -> (r: Self) ensures r == GlobalAddress(NodeId(raw)) { unimplemented!() }
        pub fn as_node_id(&self) -> (r: &NodeId) ensures *r == self.0 { &self.0 }
        pub fn into_node_id(self) -> (r: NodeId) ensures r == self.0 { self.0 }
    }
    impl PartialEq for GlobalAddress {
        #[verifier::external_body]
        fn eq(&self, other: &Self) -> (r: bool) ensures r == (*self == *other) { unimplemented!() }
    }
    impl vstd::std_specs::cmp::PartialEqSpecImpl for GlobalAddress {
        open spec fn obeys_eq_spec() -> bool { true }
        open spec fn eq_spec(&self, other: &Self) -> bool { *self == *other }
    }
    impl PartialEq for PackageAddress {
        #[verifier::external_body]
        fn eq(&self, other: &Self) -> (r: bool) ensures r == (*self == *other) { unimplemented!() }
    }
    impl vstd::std_specs::cmp::PartialEqSpecImpl for PackageAddress {
        open spec fn obeys_eq_spec() -> bool { true }
        open spec fn eq_spec(&self, other: &Self) -> bool { *self == *other }
    }
    pub const RESOURCE_PACKAGE: PackageAddress = PackageAddress(NodeId(/*@expr-after radix-common/src/constants/native_addresses.rs :: const RESOURCE_PACKAGE :: <<new_or_panic(>> @*/));
    pub const FUNGIBLE_PROOF_BLUEPRINT: &'static str = /*@expr-after radix-engine-interface/src/blueprints/resource/fungible/fungible_proof.rs :: const FUNGIBLE_PROOF_BLUEPRINT :: <<&str =>> @*/;
    pub const NON_FUNGIBLE_PROOF_BLUEPRINT: &'static str = /*@expr-after radix-engine-interface/src/blueprints/resource/non_fungible/non_fungible_proof.rs :: const NON_FUNGIBLE_PROOF_BLUEPRINT :: <<&str =>> @*/;

    // ---- BlueprintId (struct extracted in `unit`): derived PartialEq / Clone, `new` ------------------
    /// `s.to_string()` for a &str (uninterpreted: no string reasoning is needed, only that it is a function)
    pub uninterp spec fn string_of(s: &str) -> String;
    impl BlueprintId {
        #[verifier::external_body]
        pub fn new(package_address: &PackageAddress, blueprint_name: &str) -> (r: Self)
            ensures r == (BlueprintId { package_address: *package_address, blueprint_name: string_of(blueprint_name) })
        { unimplemented!() }
    }
    impl PartialEq for BlueprintId {
        #[verifier::external_body]
        fn eq(&self, other: &Self) -> (r: bool) ensures r == (*self == *other) { unimplemented!() }
    }
    impl vstd::std_specs::cmp::PartialEqSpecImpl for BlueprintId {
        open spec fn obeys_eq_spec() -> bool { true }
        open spec fn eq_spec(&self, other: &Self) -> bool { *self == *other }
    }
    impl Clone for BlueprintId {
        #[verifier::external_body]
        fn clone(&self) -> (r: Self) ensures r == *self { unimplemented!() }
    }
    impl Clone for Actor {
        #[verifier::external_body]
        fn clone(&self) -> (r: Self) ensures r == *self { unimplemented!() }
    }

    // ---- object info pieces not looked at ------------------------------------------------------------
    #[verifier::external_body]
    pub struct BlueprintVersion { x: u8 }
    #[verifier::external_body]
    pub struct GenericSubstitution { x: u8 }
    #[verifier::external_body]
    #[verifier::reject_recursive_types(T)]
    pub struct IndexSet<T> { x: core::marker::PhantomData<T> }
    impl IndexSet<String> {
        #[verifier::external_body]
        pub fn contains(&self, value: &str) -> (r: bool) { unimplemented!() }
    }
    #[verifier::external_body]
    pub fn index_set_new<T>() -> (r: IndexSet<T>) { unimplemented!() }
    impl Default for BlueprintVersion {
        #[verifier::external_body]
        fn default() -> (r: Self) { unimplemented!() }
    }
    /// what shims/c35_ordered_indexmap.rs lacks (indexmap docs: `contains_key` = some entry has an equal key;
    /// `keys()` iterates the keys in insertion order; radix-rust `index_map_new()` = empty map)
    impl<K, V> IndexMap<K, V> {
        #[verifier::external_body]
        pub fn contains_key(&self, key: &K) -> (r: bool) ensures r == has_key(self.entries(), *key) { unimplemented!() }
    }
    impl<K, V> IndexMap<K, V> {
        #[verifier::external_body]
        pub fn keys(&self) -> (r: Keys<'_, K, V>)
            ensures r.rest().len() == self.entries().len(),
                    forall|i: int| 0 <= i < self.entries().len() ==> *(#[trigger] r.rest()[i]) == self.entries()[i].0,
        { unimplemented!() }
    }
    #[verifier::external_body]
    #[verifier::reject_recursive_types(K)]
    #[verifier::reject_recursive_types(V)]
    pub struct Keys<'a, K, V> { k: core::marker::PhantomData<&'a (K, V)> }
    impl<'a, K, V> Keys<'a, K, V> { pub uninterp spec fn rest(&self) -> Seq<&'a K>; }
    impl<'a, K, V> Iterator for Keys<'a, K, V> {
        type Item = &'a K;
        #[verifier::external_body]
        fn next(&mut self) -> (r: Option<&'a K>) { unimplemented!() }
    }
    impl<'a, K, V> vstd::std_specs::iter::IteratorSpecImpl for Keys<'a, K, V> {
        open spec fn obeys_prophetic_iter_laws(&self) -> bool { true }
        open spec fn remaining(&self) -> Seq<&'a K> { self.rest() }
        open spec fn will_return_none(&self) -> bool { true }
        open spec fn peek(&self, index: int) -> Option<&'a K> { if 0 <= index < self.rest().len() { Some(self.rest()[index]) } else { None } }
        open spec fn decrease(&self) -> Option<nat> { Some(self.rest().len()) }
    }
    /// an IndexMap holds every key once (indexmap invariant)
    pub open spec fn distinct_keys<K, V>(s: Seq<(K, V)>) -> bool {
        forall|i: int, j: int| 0 <= i < j < s.len() ==> (#[trigger] s[i]).0 != (#[trigger] s[j]).0
    }
    #[verifier::external_body]
    pub fn index_map_new<K, V>() -> (r: IndexMap<K, V>) ensures r.entries() == Seq::<(K, V)>::empty() { unimplemented!() }

    /// std BTreeMap, as a map (ASSUMED: documented behaviour of new / get / insert)
    #[verifier::external_body]
    #[verifier::reject_recursive_types(K)]
    #[verifier::reject_recursive_types(V)]
    pub struct BTreeMap<K, V> { x: core::marker::PhantomData<(K, V)> }
    impl<K, V> BTreeMap<K, V> {
        pub uninterp spec fn view(&self) -> Map<K, V>;
        #[verifier::external_body]
        pub fn get(&self, key: &K) -> (r: Option<&V>)
            ensures match r { Some(v) => self@.contains_key(*key) && *v == self@[*key], None => !self@.contains_key(*key) }
        { unimplemented!() }
        #[verifier::external_body]
        pub fn insert(&mut self, key: K, value: V) -> (r: Option<V>)
            ensures final(self)@ == old(self)@.insert(key, value)
        { unimplemented!() }
    }
    #[verifier::external_body]
    pub fn btree_map_new<K, V>() -> (r: BTreeMap<K, V>) ensures r@ == Map::<K, V>::empty() { unimplemented!() }
    #[verifier::external_body]
    pub struct BlueprintHook { x: u8 }
    #[verifier::external_body]
    pub struct KeyValueStoreInfo { x: u8 }
    // ---- substates, partitions ------------------------------------------------------------------------
    pub const TYPE_INFO_FIELD_PARTITION: PartitionNumber = /*@expr-after radix-engine-interface/src/types/node_layout.rs :: const TYPE_INFO_FIELD_PARTITION :: <<PartitionNumber =>> @*/;
    pub const SCHEMAS_PARTITION: PartitionNumber = /*@expr-after radix-engine-interface/src/types/node_layout.rs :: const SCHEMAS_PARTITION :: <<PartitionNumber =>> @*/;
    pub const METADATA_BASE_PARTITION: PartitionNumber = /*@expr-after radix-engine-interface/src/types/node_layout.rs :: const METADATA_BASE_PARTITION :: <<PartitionNumber =>> @*/;
    pub const ROYALTY_BASE_PARTITION: PartitionNumber = /*@expr-after radix-engine-interface/src/types/node_layout.rs :: const ROYALTY_BASE_PARTITION :: <<PartitionNumber =>> @*/;
    pub const ROLE_ASSIGNMENT_BASE_PARTITION: PartitionNumber = /*@expr-after radix-engine-interface/src/types/node_layout.rs :: const ROLE_ASSIGNMENT_BASE_PARTITION :: <<PartitionNumber =>> @*/;
    pub const MAIN_BASE_PARTITION: PartitionNumber = /*@expr-after radix-engine-interface/src/types/node_layout.rs :: const MAIN_BASE_PARTITION :: <<PartitionNumber =>> @*/;
    pub enum SubstateKey { Field(u8), Map(Vec<u8>), Sorted(([u8; 2], Vec<u8>)) }
    pub enum TypeInfoField { TypeInfo }
    /// node_layout.rs: TypeInfoField::TypeInfo is field 0 of the type-info partition
    impl From<TypeInfoField> for SubstateKey {
        fn from(value: TypeInfoField) -> (r: Self) ensures r == SubstateKey::Field(0u8) { SubstateKey::Field(0u8) }
    }
    impl vstd::std_specs::convert::FromSpecImpl<TypeInfoField> for SubstateKey {
        open spec fn obeys_from_spec() -> bool { true }
        open spec fn from_spec(value: TypeInfoField) -> Self { SubstateKey::Field(0u8) }
    }
    pub type SubstateHandle = u32;
    pub type SubstateId = (NodeId, PartitionNumber, SubstateKey);
    pub struct Own(pub NodeId);
    impl Own { pub fn as_node_id(&self) -> (r: &NodeId) ensures *r == self.0 { &self.0 } }
    pub struct GlobalAddressReservation(pub Own);
    impl From<GlobalAddress> for NodeId {
        fn from(value: GlobalAddress) -> (r: Self) ensures r == value.0 { value.0 }
    }
    impl vstd::std_specs::convert::FromSpecImpl<GlobalAddress> for NodeId {
        open spec fn obeys_from_spec() -> bool { true }
        open spec fn from_spec(value: GlobalAddress) -> Self { value.0 }
    }

    // ---- SBOR, uninterpreted: `dec::<T>(bytes)` is what decoding `bytes` as a T yields ----------------
    pub uninterp spec fn dec<T>(b: Seq<u8>) -> Option<T>;
    pub struct DecodeError;
    #[verifier::external]
    impl core::fmt::Debug for DecodeError { fn fmt(&self, f: &mut core::fmt::Formatter<'_>) -> core::fmt::Result { f.write_str("DecodeError") } }
    #[verifier::external_body]
    pub struct IndexedScryptoValue { x: Vec<u8> }
    impl IndexedScryptoValue {
        pub uninterp spec fn bytes(self) -> Seq<u8>;
        #[verifier::external_body]
        pub fn from_typed<T>(value: &T) -> (r: Self) ensures dec::<T>(r.bytes()) == Some(*value) { unimplemented!() }
        #[verifier::external_body]
        pub fn as_typed<T>(&self) -> (r: Result<T, DecodeError>)
            ensures match dec::<T>(self.bytes()) { Some(t) => r == Ok::<T, DecodeError>(t), None => r is Err }
        { unimplemented!() }
    }
    pub open spec fn ti_of(v: IndexedScryptoValue) -> Option<TypeInfoSubstate> { dec::<TypeInfoSubstate>(v.bytes()) }

    pub type NodeSubstates = BTreeMap<PartitionNumber, BTreeMap<SubstateKey, IndexedScryptoValue>>;
    /// kernel_api.rs
    pub struct DroppedNode { pub substates: NodeSubstates, pub pinned_to_heap: bool }
    /// the type info a dropped node carried
    pub open spec fn dropped_type_info(d: DroppedNode) -> Option<TypeInfoSubstate> {
        if d.substates@.contains_key(TYPE_INFO_FIELD_PARTITION) && d.substates@[TYPE_INFO_FIELD_PARTITION]@.contains_key(SubstateKey::Field(0u8)) {
            ti_of(d.substates@[TYPE_INFO_FIELD_PARTITION]@[SubstateKey::Field(0u8)])
        } else { None }
    }

    #[derive(Clone, Copy)]
    pub struct LockFlags { pub bits: u32 }
    /// bitflags! LockFlags (radix-engine-interface/src/api/field_api.rs)
    impl LockFlags {
        pub const MUTABLE: LockFlags = LockFlags { bits: 1 };
        pub const UNMODIFIED_BASE: LockFlags = LockFlags { bits: 2 };
        pub const FORCE_WRITE: LockFlags = LockFlags { bits: 4 };
        pub open spec fn has(self, o: LockFlags) -> bool { self.bits & o.bits == o.bits }
        pub fn contains(&self, other: LockFlags) -> (r: bool) ensures r == self.has(other) { self.bits & other.bits == other.bits }
    }
    /// system_callback.rs SystemLockData / FieldLockData; the key-value payloads are not constructed by the code under contract
    pub enum SystemLockData { KeyValueEntry(KeyValueEntryLockData), Field(FieldLockData), Default }
    #[verifier::external_body]
    pub struct KeyValueEntryLockData { x: u8 }
    pub enum FieldLockData { Read, Write { target: BlueprintTypeTarget, field_index: u8 } }
    /// system_type_checker.rs
    pub enum SchemaValidationMeta { ExistingObject { additional_schemas: NodeId }, Blueprint }
    pub struct BlueprintTypeTarget { pub blueprint_info: BlueprintInfo, pub meta: SchemaValidationMeta }
    #[verifier::external_body]
    pub struct ScryptoValue { x: Vec<u8> }
    #[verifier::external_body]
    pub fn scrypto_decode<T>(buf: &[u8]) -> (r: Result<T, DecodeError>)
        ensures match dec::<T>(buf@) { Some(t) => r == Ok::<T, DecodeError>(t), None => r is Err }
    { unimplemented!() }
    pub const FUNGIBLE_VAULT_BLUEPRINT: &'static str = "FungibleVault";
    /// the image of the one `panic!` in get_actor_field_info (see the @subst there): abort
    #[verifier::external_body]
    pub fn panic_abort() -> ! { unimplemented!() }

    // ---- system state reachable through kernel_get_system_state().system (not part of the ghost state) ----
    #[verifier::external_body]
    pub struct SystemModuleMixer { x: u8 }
    impl SystemModuleMixer {
        /// execution-trace bookkeeping only
        #[verifier::external_body]
        pub fn add_replacement(&mut self, from: (NodeId, ModuleId), to: (NodeId, ModuleId)) { unimplemented!() }
    }
    pub struct System { pub modules: SystemModuleMixer }

    // ---- blueprint definitions ---------------------------------------------------------------------------
    #[verifier::external_body]
    pub struct IndexedStateSchema { x: u8 }
    impl IndexedStateSchema {
        pub uninterp spec fn n_logical(&self) -> u8;
        /// ASSUMED: an installed blueprint definition has at most 192 logical partitions, so that
        /// MAIN_BASE_PARTITION (64) + offset and module base + offset do not overflow u8 (the real code unwraps
        /// `at_offset`; the panic would be caught and turned into an error -- it aborts, it grants nothing)
        #[verifier::external_body]
        pub fn num_logical_partitions(&self) -> (r: u8) ensures r == self.n_logical(), r <= 192 { unimplemented!() }
    }
    /// radix-blueprint-schema-init
    pub enum Condition { Always, IfFeature(String), IfOuterFeature(String) }
    pub enum FieldTransience { NotTransient, TransientStatic { default_value: Vec<u8> } }
    pub enum PartitionDescription { Logical(PartitionOffset), Physical(PartitionNumber) }
    pub struct FieldSchema { pub condition: Condition, pub transience: FieldTransience }
    impl IndexedStateSchema {
        /// blueprints/package/substates.rs, not under contract. ASSUMED of installed definitions: logical offsets stay below 192
        /// (no u8 overflow from a module base, the real code `expect`s it), a transient field's default value is valid SBOR
        /// (the real code unwraps its decoding)
        #[verifier::external_body]
        pub fn field(&self, field_index: u8) -> (r: Option<(PartitionDescription, FieldSchema)>)
            ensures r matches Some(t) ==> (t.0 matches PartitionDescription::Logical(o) ==> o.0 < 192)
                && (t.1.transience matches FieldTransience::TransientStatic { default_value } ==> dec::<ScryptoValue>(default_value@) is Some)
        { unimplemented!() }
    }
    #[derive(Clone, Copy)]
    pub enum BlueprintPartitionType { KeyValueCollection, IndexCollection, SortedIndexCollection }
    impl PartialEq for BlueprintPartitionType {
        #[verifier::external_body]
        fn eq(&self, other: &Self) -> (r: bool) ensures r == (*self == *other) { unimplemented!() }
    }
    impl vstd::std_specs::cmp::PartialEqSpecImpl for BlueprintPartitionType {
        open spec fn obeys_eq_spec() -> bool { true }
        open spec fn eq_spec(&self, other: &Self) -> bool { *self == *other }
    }
    /// `x.to_owned()` for T: Clone is a clone (only used to fill an error value)
    pub assume_specification<T: Clone>[<T as std::borrow::ToOwned>::to_owned](_0: &T) -> T;
    impl IndexedStateSchema {
        /// blueprints/package/substates.rs, not under contract; same ASSUMPTION on logical offsets as `field`
        #[verifier::external_body]
        pub fn get_partition(&self, collection_index: u8) -> (r: Option<(PartitionDescription, BlueprintPartitionType)>)
            ensures r matches Some(t) ==> (t.0 matches PartitionDescription::Logical(o) ==> o.0 < 192)
        { unimplemented!() }
    }
    pub struct BlueprintInterface { pub is_transient: bool, pub state: IndexedStateSchema }
    pub struct BlueprintDefinition { pub interface: BlueprintInterface }
    impl<'a, Y: SystemBasedKernelApi> SystemService<'a, Y> {
        /// system.rs, not under contract: loads the definition from the package (cache / substate reads). ASSUMED: no effect on the ghost state.
        #[verifier::external_body]
        pub fn get_blueprint_default_definition(&mut self, blueprint_id: BlueprintId) -> (r: Result<std::rc::Rc<BlueprintDefinition>, RuntimeError>)
            ensures final(self).api.st() == old(self).api.st(),
                    *final(final(self).api) == *final(old(self).api),
                    r matches Err(e) ==> e is Environment,
                    // ASSUMED of the three native object-module blueprints (Metadata: 1 collection; ComponentRoyalty, RoleAssignment:
                    // fields + 1 collection): at least one logical partition, and no more than fit before the next module's base
                    r matches Ok(d) ==> forall|m: AttachedModuleId| blueprint_id == #[trigger] module_blueprint(m)
                        ==> 1 <= d.interface.state.n_logical() <= module_room(m),
        { unimplemented!() }
    }

    /// radix-engine/src/errors.rs error_models::ReferencedNodeId(pub NodeId)
    pub mod error_models {
        use vstd::prelude::*;
        use super::NodeId;
        pub struct ReferencedNodeId(pub NodeId);
        impl From<NodeId> for ReferencedNodeId {
            fn from(value: NodeId) -> (r: Self) ensures r == ReferencedNodeId(value) { ReferencedNodeId(value) }
        }
        impl vstd::std_specs::convert::FromSpecImpl<NodeId> for ReferencedNodeId {
            open spec fn obeys_from_spec() -> bool { true }
            open spec fn from_spec(value: NodeId) -> Self { ReferencedNodeId(value) }
        }
    }
    pub use error_models::ReferencedNodeId;

    pub struct GlobalAddressPhantom { pub blueprint_id: BlueprintId }
    /// radix-engine/src/system/type_info.rs
    pub enum TypeInfoSubstate {
        Object(ObjectInfo),
        KeyValueStore(KeyValueStoreInfo),
        GlobalAddressReservation(GlobalAddress),
        GlobalAddressPhantom(GlobalAddressPhantom),
    }

    /// RuntimeError (radix-engine/src/errors.rs) reduced: `Environment` = every error only the kernel / other modules raise
    pub enum RuntimeError { SystemError(SystemError), Environment }
    pub enum SystemError {
        NotAnObject,
        InvalidDropAccess(Box<super::unit::InvalidDropAccess>),
        InvalidActorStateHandle,
        InvalidLockFlags,
        FieldDoesNotExist(BlueprintId, u8),
        CollectionIndexDoesNotExist(BlueprintId, u8),
        CollectionIndexIsOfWrongType(BlueprintId, u8, BlueprintPartitionType, BlueprintPartitionType),
        InvalidGlobalAddressReservation,
        NotAnAddressReservation,
        InvalidGlobalizeAccess(Box<super::unit::InvalidGlobalizeAccess>),
        MissingModule(ModuleId),
        CannotGlobalize(super::unit::CannotGlobalizeError),
        GlobalizingTransientBlueprint,
        InvalidModuleType(Box<super::unit::InvalidModuleType>),
        OuterObjectDoesNotExist,
        NoPackageAddress,
        Other,
    }

    // ---- ghost kernel state ---------------------------------------------------------------------------
    pub ghost struct KState {
        /// for every live node: what TypeInfoBlueprint::get_type returns for it
        pub type_info: Map<NodeId, TypeInfoSubstate>,
        /// the actor of the current call frame (fixed during a system call)
        pub actor: Actor,
        /// open substate handles
        pub handles: Map<SubstateHandle, SubstateId>,
        /// nodes whose partitions were moved into a global node by kernel_create_node_from (empty shells)
        pub consumed: Set<NodeId>,
    }

    /// kernel_api.rs SystemState, with M = System
    pub struct SystemState<'a> {
        pub system: &'a mut System,
        pub current_call_frame: &'a Actor,
        pub caller_call_frame: &'a Actor,
    }

    // ================================================================================================
    // ORACLE of property C50 (written from the statement; the kernel primitive carries it as PRECONDITION)
    // ================================================================================================
    /// the blueprint whose code is running in the current call frame
    pub open spec fn running_blueprint(a: Actor) -> Option<BlueprintId> {
        match a {
            Actor::Root => None,
            Actor::Function(f) => Some(f.blueprint_id),
            Actor::BlueprintHook(h) => Some(h.blueprint_id),
            Actor::Method(m) => match m.method_type {
                super::unit::MethodType::Module(module) => Some(module_blueprint(module)),
                _ => Some(m.object_info.blueprint_info.blueprint_id),
            },
        }
    }
    pub open spec fn module_blueprint(m: AttachedModuleId) -> BlueprintId {
        match m {
            AttachedModuleId::Metadata => BlueprintId { package_address: METADATA_MODULE_PACKAGE, blueprint_name: string_of(METADATA_BLUEPRINT) },
            AttachedModuleId::Royalty => BlueprintId { package_address: ROYALTY_MODULE_PACKAGE, blueprint_name: string_of(COMPONENT_ROYALTY_BLUEPRINT) },
            AttachedModuleId::RoleAssignment => BlueprintId { package_address: ROLE_ASSIGNMENT_MODULE_PACKAGE, blueprint_name: string_of(ROLE_ASSIGNMENT_BLUEPRINT) },
        }
    }
    /// the outer object on whose behalf the running code acts: a main/direct method of a GLOBAL object acts for that
    /// object itself; a main/direct method of an owned inner object acts for the object's outer object; nothing else does
    pub open spec fn acting_outer_object(a: Actor) -> Option<GlobalAddress> {
        match a {
            Actor::Method(m) => match m.method_type {
                super::unit::MethodType::Module(_) => None,
                _ => if m.object_info.object_type is Global { Some(GlobalAddress(m.node_id)) }
                     else { match m.object_info.blueprint_info.outer_obj_info {
                         super::unit::OuterObjectInfo::Some { outer_object } => Some(outer_object),
                         super::unit::OuterObjectInfo::None => None,
                     } },
            },
            _ => None,
        }
    }
    pub open spec fn outer_of(info: ObjectInfo) -> Option<GlobalAddress> {
        match info.blueprint_info.outer_obj_info { OuterObjectInfo::Some { outer_object } => Some(outer_object), OuterObjectInfo::None => None }
    }
    /// C50, state: "the current actor's own object" -- the receiver of the running method together with the module
    /// the method belongs to (None = the object's own blueprint state), or the receiver of a blueprint hook
    pub open spec fn own_object(a: Actor) -> Option<(NodeId, Option<AttachedModuleId>)> {
        match a {
            Actor::Method(m) => Some((m.node_id, match m.method_type { MethodType::Module(x) => Some(x), _ => None })),
            Actor::BlueprintHook(h) => match h.receiver { Some(n) => Some((n, None)), None => None },
            _ => None,
        }
    }
    /// C50, state: the only nodes whose FIELDS the running code may open -- its own object, or (main module only) the outer
    /// object recorded in its own object's type info
    pub open spec fn field_access_permitted(s: KState, n: NodeId) -> bool {
        own_object(s.actor) matches Some(own) && (n == own.0
            || (own.1 is None && s.type_info.contains_key(own.0)
                && (s.type_info[own.0] matches TypeInfoSubstate::Object(info) && outer_of(info) == Some(GlobalAddress(n)))))
    }
    pub open spec fn is_proof(id: BlueprintId) -> bool {
        id == (BlueprintId { package_address: RESOURCE_PACKAGE, blueprint_name: string_of(FUNGIBLE_PROOF_BLUEPRINT) })
        || id == (BlueprintId { package_address: RESOURCE_PACKAGE, blueprint_name: string_of(NON_FUNGIBLE_PROOF_BLUEPRINT) })
    }
    /// C50, drop: "only code of an object's own blueprint (or, for an inner object, of its outer object) can drop that
    /// object; proofs may be dropped by whoever holds them" -- a proof is an inner object of its resource manager; for
    /// it the outer-object rule is waived, what remains is the own-blueprint rule (FungibleProof / NonFungibleProof
    /// `drop` is a public FUNCTION of the proof blueprint, which is how "whoever holds them" drops one)
    pub open spec fn allowed_drop(info: ObjectInfo, actor: Actor) -> bool {
        if is_proof(info.blueprint_info.blueprint_id) {
            running_blueprint(actor) == Some(info.blueprint_info.blueprint_id)
        } else {
            match info.blueprint_info.outer_obj_info {
                super::unit::OuterObjectInfo::Some { outer_object } => acting_outer_object(actor) == Some(outer_object),
                super::unit::OuterObjectInfo::None => running_blueprint(actor) == Some(info.blueprint_info.blueprint_id),
            }
        }
    }
    /// the kernel drops an OBJECT only for an actor that C50 allows to drop it -- or when the node is the empty shell
    /// left behind by a (permitted) globalization. Non-objects (address reservations, ..) cannot be named in
    /// `drop_object` (NotAnObject); the system drops a reservation when it is consumed by globalize.
    pub open spec fn drop_permitted(s: KState, node_id: NodeId) -> bool {
        s.consumed.contains(node_id) || (s.type_info.contains_key(node_id) ==> match s.type_info[node_id] {
            TypeInfoSubstate::Object(info) => allowed_drop(info, s.actor),
            _ => true,
        })
    }
    pub open spec fn actor_package(a: Actor) -> Option<PackageAddress> {
        match running_blueprint(a) { Some(id) => Some(id.package_address), None => None }
    }
    pub open spec fn is_module_blueprint(id: BlueprintId) -> bool {
        id == module_blueprint(AttachedModuleId::Metadata) || id == module_blueprint(AttachedModuleId::Royalty) || id == module_blueprint(AttachedModuleId::RoleAssignment)
    }
    /// C50, globalize: a node's partitions may be moved into a global node only if the node is a not yet global object
    /// of the RUNNING CODE'S PACKAGE ("only the package can globalize a node", system.rs) or an object of one of the
    /// three object-module blueprints (Metadata / Royalty / RoleAssignment -- these exist to be attached by their holder)
    pub open spec fn globalize_source_ok(s: KState, n: NodeId) -> bool {
        s.type_info.contains_key(n) && (s.type_info[n] matches TypeInfoSubstate::Object(info)
            && ((info.object_type is Owned && Some(info.blueprint_info.blueprint_id.package_address) == actor_package(s.actor))
                || is_module_blueprint(info.blueprint_info.blueprint_id)))
    }
    pub open spec fn globalize_permitted(s: KState, partitions: Map<PartitionNumber, (NodeId, PartitionNumber)>) -> bool {
        forall|p: PartitionNumber| #[trigger] partitions.contains_key(p) ==> globalize_source_ok(s, partitions[p].0)
    }
    /// node_layout.rs: first partition of an attached module, and how many partitions lie before the next module's base
    pub open spec fn module_base(m: AttachedModuleId) -> u8 {
        match m { AttachedModuleId::Metadata => 2u8, AttachedModuleId::Royalty => 3u8, AttachedModuleId::RoleAssignment => 5u8 }
    }
    pub open spec fn module_room(m: AttachedModuleId) -> u8 {
        match m { AttachedModuleId::Metadata => 1u8, AttachedModuleId::Royalty => 2u8, AttachedModuleId::RoleAssignment => 59u8 }
    }
    /// C50, type info: the system rewrites the type info of a node only to turn the PHANTOM of a reserved address into an
    /// object of exactly the reserved blueprint, for code of that blueprint's package
    pub open spec fn type_info_write_permitted(s: KState, n: NodeId, v: IndexedScryptoValue) -> bool {
        s.type_info.contains_key(n) && (s.type_info[n] matches TypeInfoSubstate::GlobalAddressPhantom(ph)
            && (ti_of(v) matches Some(TypeInfoSubstate::Object(info)) && info.blueprint_info.blueprint_id == ph.blueprint_id
                && Some(ph.blueprint_id.package_address) == actor_package(s.actor)))
    }
    pub open spec fn same_but_handles(s0: KState, s1: KState) -> bool {
        s1.type_info == s0.type_info && s1.actor == s0.actor && s1.consumed == s0.consumed
    }

    pub const METADATA_MODULE_PACKAGE: PackageAddress = PackageAddress(NodeId(/*@expr-after radix-common/src/constants/native_addresses.rs :: const METADATA_MODULE_PACKAGE :: <<new_or_panic(>> @*/));
    pub const ROYALTY_MODULE_PACKAGE: PackageAddress = PackageAddress(NodeId(/*@expr-after radix-common/src/constants/native_addresses.rs :: const ROYALTY_MODULE_PACKAGE :: <<new_or_panic(>> @*/));
    pub const ROLE_ASSIGNMENT_MODULE_PACKAGE: PackageAddress = PackageAddress(NodeId(/*@expr-after radix-common/src/constants/native_addresses.rs :: const ROLE_ASSIGNMENT_MODULE_PACKAGE :: <<new_or_panic(>> @*/));
    pub const METADATA_BLUEPRINT: &'static str = /*@expr-after radix-engine-interface/src/object_modules/metadata/invocations.rs :: const METADATA_BLUEPRINT :: <<&str =>> @*/;
    pub const COMPONENT_ROYALTY_BLUEPRINT: &'static str = /*@expr-after radix-engine-interface/src/object_modules/royalty/invocations.rs :: const COMPONENT_ROYALTY_BLUEPRINT :: <<&str =>> @*/;
    pub const ROLE_ASSIGNMENT_BLUEPRINT: &'static str = /*@expr-after radix-engine-interface/src/object_modules/role_assignment/invocations.rs :: const ROLE_ASSIGNMENT_BLUEPRINT :: <<&str =>> @*/;

    /// The kernel as seen by the system layer (kernel_api.rs KernelNodeApi / KernelInternalApi).
    pub trait SystemBasedKernelApi: Sized {
        spec fn st(&self) -> KState;

        /// the system-module state behind `.system` is disjoint from the ghost state
        fn kernel_get_system_state(&mut self) -> (r: SystemState<'_>)
            ensures *r.current_call_frame == old(self).st().actor, final(self).st() == old(self).st();

        /// THE SENSITIVE CALLEE: its precondition is property C50 (drop) itself.
        fn kernel_drop_node(&mut self, node_id: &NodeId) -> (r: Result<DroppedNode, RuntimeError>)
            requires drop_permitted(old(self).st(), *node_id)
            ensures
                final(self).st().actor == old(self).st().actor,
                final(self).st().handles == old(self).st().handles,
                final(self).st().consumed == old(self).st().consumed,
                r matches Ok(d) ==> old(self).st().type_info.contains_key(*node_id)
                    && final(self).st().type_info == old(self).st().type_info.remove(*node_id)
                    && dropped_type_info(d) == Some(old(self).st().type_info[*node_id]),
                r matches Err(e) ==> e is Environment && final(self).st() == old(self).st();

        /// THE SENSITIVE CALLEE of globalize: its precondition is property C50 (globalize) itself.
        fn kernel_create_node_from(&mut self, node_id: NodeId, partitions: BTreeMap<PartitionNumber, (NodeId, PartitionNumber)>) -> (r: Result<(), RuntimeError>)
            requires globalize_permitted(old(self).st(), partitions@)
            ensures
                final(self).st().actor == old(self).st().actor,
                final(self).st().handles == old(self).st().handles,
                final(self).st().type_info == old(self).st().type_info,
                r is Ok ==> (forall|n: NodeId| final(self).st().consumed.contains(n) <==> old(self).st().consumed.contains(n)
                                || exists|p: PartitionNumber| #[trigger] partitions@.contains_key(p) && partitions@[p].0 == n),
                r matches Err(e) ==> e is Environment && final(self).st() == old(self).st();

        /// SENSITIVE for state access: a substate is opened with FIELD lock data (what field_read / field_write / field_lock
        /// accept) only on a node C50 lets the running code read and write
        fn kernel_open_substate_with_default<F: FnOnce() -> IndexedScryptoValue>(&mut self, node_id: &NodeId, partition_num: PartitionNumber,
                substate_key: &SubstateKey, flags: LockFlags, default: Option<F>, lock_data: SystemLockData) -> (r: Result<SubstateHandle, RuntimeError>)
            requires
                default matches Some(f) ==> f.requires(()),
                lock_data is Field ==> field_access_permitted(old(self).st(), *node_id),
            ensures
                same_but_handles(old(self).st(), final(self).st()),
                r matches Ok(h) ==> !old(self).st().handles.contains_key(h)
                    && final(self).st().handles == old(self).st().handles.insert(h, (*node_id, partition_num, *substate_key)),
                r matches Err(e) ==> e is Environment && final(self).st() == old(self).st();

        fn kernel_mark_substate_as_transient(&mut self, node_id: NodeId, partition_num: PartitionNumber, key: SubstateKey) -> (r: Result<(), RuntimeError>)
            ensures final(self).st() == old(self).st(), r matches Err(e) ==> e is Environment;

        fn kernel_open_substate(&mut self, node_id: &NodeId, partition_num: PartitionNumber, substate_key: &SubstateKey,
                flags: LockFlags, lock_data: SystemLockData) -> (r: Result<SubstateHandle, RuntimeError>)
            requires
                lock_data is Field ==> field_access_permitted(old(self).st(), *node_id),
            ensures
                same_but_handles(old(self).st(), final(self).st()),
                r matches Ok(h) ==> !old(self).st().handles.contains_key(h)
                    && final(self).st().handles == old(self).st().handles.insert(h, (*node_id, partition_num, *substate_key))
                    && old(self).st().type_info.contains_key(*node_id),
                r matches Err(e) ==> e is Environment && final(self).st() == old(self).st();

        /// reading field 0 of the type-info partition of a node yields (the encoding of) what get_type returns for it
        fn kernel_read_substate(&mut self, lock_handle: SubstateHandle) -> (r: Result<&IndexedScryptoValue, RuntimeError>)
            ensures
                final(self).st() == old(self).st(),
                r matches Ok(v) ==> old(self).st().handles.contains_key(lock_handle)
                    && ({ let id = old(self).st().handles[lock_handle];
                          id.1 == TYPE_INFO_FIELD_PARTITION && id.2 == SubstateKey::Field(0u8) && old(self).st().type_info.contains_key(id.0)
                            ==> ti_of(*v) == Some(old(self).st().type_info[id.0]) }),
                r matches Err(e) ==> e is Environment;

        fn kernel_close_substate(&mut self, lock_handle: SubstateHandle) -> (r: Result<(), RuntimeError>)
            ensures
                same_but_handles(old(self).st(), final(self).st()),
                r is Ok ==> final(self).st().handles == old(self).st().handles.remove(lock_handle),
                r matches Err(e) ==> e is Environment && final(self).st() == old(self).st();

        /// SENSITIVE: overwriting field 0 of the type-info partition changes what a node IS
        fn kernel_set_substate(&mut self, node_id: &NodeId, partition_num: PartitionNumber, substate_key: SubstateKey, value: IndexedScryptoValue) -> (r: Result<(), RuntimeError>)
            requires partition_num == TYPE_INFO_FIELD_PARTITION ==> substate_key == SubstateKey::Field(0u8) && type_info_write_permitted(old(self).st(), *node_id, value)
            ensures
                final(self).st().actor == old(self).st().actor,
                final(self).st().handles == old(self).st().handles,
                final(self).st().consumed == old(self).st().consumed,
                r is Ok ==> final(self).st().type_info == (if partition_num == TYPE_INFO_FIELD_PARTITION { old(self).st().type_info.insert(*node_id, ti_of(value)->Some_0) } else { old(self).st().type_info }),
                r matches Err(e) ==> e is Environment && final(self).st() == old(self).st();
    }

    pub type ActorStateHandle = u32;
    pub const ACTOR_STATE_SELF: ActorStateHandle = /*@expr-after radix-engine-interface/src/api/mod.rs :: const ACTOR_STATE_SELF :: <<ActorStateHandle =>> @*/;
    pub const ACTOR_STATE_OUTER_OBJECT: ActorStateHandle = /*@expr-after radix-engine-interface/src/api/mod.rs :: const ACTOR_STATE_OUTER_OBJECT :: <<ActorStateHandle =>> @*/;

    // ---- new_object: arguments not looked at -----------------------------------------------------------
    #[verifier::external_body]
    pub struct GenericArgs { x: u8 }
    #[verifier::external_body]
    pub struct FieldValue { x: u8 }
    #[verifier::external_body]
    pub struct KVEntry { x: u8 }

    /// C50, create: the new object's blueprint lives in the package of the running code, and (if it turns out to be an
    /// inner object) the only outer object it can be attached to is the one the running code acts for
    pub open spec fn allowed_create(actor: Actor, blueprint_id: BlueprintId, instance_context: Option<InstanceContext>) -> bool {
        &&& running_blueprint(actor) matches Some(own) && own.package_address == blueprint_id.package_address
        &&& match acting_outer_object(actor) { Some(o) => instance_context == Some(InstanceContext { outer_object: o }), None => instance_context is None }
    }
    /// what new_object_internal creates (ASSUMED, see there): an Owned object of exactly the requested blueprint whose
    /// outer object, if any, is the instance context's
    pub open spec fn created_info_ok(info: ObjectInfo, blueprint_id: BlueprintId, instance_context: Option<InstanceContext>) -> bool {
        &&& info.blueprint_info.blueprint_id == blueprint_id
        &&& info.object_type is Owned
        &&& info.blueprint_info.outer_obj_info matches super::unit::OuterObjectInfo::Some { outer_object }
                ==> instance_context == Some(InstanceContext { outer_object })
    }
    impl<'a, Y: SystemBasedKernelApi> SystemService<'a, Y> {
        /// system.rs new_object_internal -- NOT under contract (schema validation, id allocation, kernel_create_node).
        /// It is the SENSITIVE CALLEE of `new_object`: its precondition is property C50 (create).
        #[verifier::external_body]
        pub fn new_object_internal(&mut self, blueprint_id: &BlueprintId, features: Vec<&str>, instance_context: Option<InstanceContext>,
                generic_args: GenericArgs, fields: IndexMap<u8, FieldValue>, kv_entries: IndexMap<u8, IndexMap<Vec<u8>, KVEntry>>) -> (r: Result<NodeId, RuntimeError>)
            requires allowed_create(old(self).api.st().actor, *blueprint_id, instance_context)
            ensures
                *final(final(self).api) == *final(old(self).api),
                final(self).api.st().actor == old(self).api.st().actor,
                r matches Ok(n) ==> !old(self).api.st().type_info.contains_key(n)
                    && final(self).api.st().type_info.contains_key(n)
                    && final(self).api.st().type_info.remove(n) =~= old(self).api.st().type_info
                    && (final(self).api.st().type_info[n] matches TypeInfoSubstate::Object(info) && created_info_ok(info, *blueprint_id, instance_context)),
                r is Err ==> final(self).api.st() == old(self).api.st(),
        { unimplemented!() }
    }

    /// system/type_info.rs: reads the TypeInfo substate of a node (open, read, close). ASSUMED: net effect nil.
    pub struct TypeInfoBlueprint;
    impl TypeInfoBlueprint {
        #[verifier::external_body]
        pub fn get_type<Y: SystemBasedKernelApi>(receiver: &NodeId, api: &mut Y) -> (r: Result<TypeInfoSubstate, RuntimeError>)
            ensures final(api).st() == old(api).st(),
                    r matches Ok(t) ==> old(api).st().type_info.contains_key(*receiver) && t == old(api).st().type_info[*receiver],
                    r matches Err(e) ==> e is Environment,
        { unimplemented!() }
    }

    impl<'a, Y: SystemBasedKernelApi> SystemService<'a, Y> {
        /// kernel_api.rs: PROVIDED method of KernelSubstateApi (= kernel_open_substate_with_default with `None::<fn() -> _>`, which
        /// SystemService forwards to self.api); not extracted (fn-pointer type). Same contract as the kernel's.
        #[verifier::external_body]
        pub fn kernel_open_substate(&mut self, node_id: &NodeId, partition_num: PartitionNumber, substate_key: &SubstateKey,
                flags: LockFlags, lock_data: SystemLockData) -> (r: Result<SubstateHandle, RuntimeError>)
            requires
                lock_data is Field ==> field_access_permitted(old(self).api.st(), *node_id),
            ensures
                *final(final(self).api) == *final(old(self).api),
                same_but_handles(old(self).api.st(), final(self).api.st()),
                r matches Ok(h) ==> !old(self).api.st().handles.contains_key(h)
                    && final(self).api.st().handles == old(self).api.st().handles.insert(h, (*node_id, partition_num, *substate_key))
                    && old(self).api.st().type_info.contains_key(*node_id),
                r matches Err(e) ==> e is Environment && final(self).api.st() == old(self).api.st(),
        { unimplemented!() }
    }

    impl<'a, Y: SystemBasedKernelApi> SystemService<'a, Y> {
        /// system.rs allocate_global_address (kernel_allocate_node_id + prepare_global_address), NOT under contract. ASSUMED:
        /// creates two FRESH nodes, a phantom at the new address recording `blueprint_id` and a reservation pointing at it.
        /// (No access check here: anybody may reserve an address for any blueprint; the check is at globalize time.)
        #[verifier::external_body]
        pub fn allocate_global_address(&mut self, blueprint_id: BlueprintId) -> (r: Result<(GlobalAddressReservation, GlobalAddress), RuntimeError>)
            ensures
                *final(final(self).api) == *final(old(self).api),
                final(self).api.st().actor == old(self).api.st().actor,
                final(self).api.st().consumed == old(self).api.st().consumed,
                r matches Ok(t) ==> !old(self).api.st().type_info.contains_key(t.0.0.0) && !old(self).api.st().type_info.contains_key(t.1.0)
                    && t.0.0.0 != t.1.0
                    && final(self).api.st().type_info == old(self).api.st().type_info
                        .insert(t.1.0, TypeInfoSubstate::GlobalAddressPhantom(GlobalAddressPhantom { blueprint_id }))
                        .insert(t.0.0.0, TypeInfoSubstate::GlobalAddressReservation(t.1)),
                r matches Err(e) ==> e is Environment && final(self).api.st() == old(self).api.st(),
        { unimplemented!() }
    }

    /// what is cut from actor_open_field by @drop-tail (after the substate was opened): for a MUTABLE open, reading the lock
    /// status and returning FieldLocked for a locked field -- that guard is property C51 (unit c51_locked_state)
    impl<'a, Y: SystemBasedKernelApi> SystemService<'a, Y> {
        #[verifier::external_body]
        pub fn open_field_lock_check_tail(&mut self, handle: SubstateHandle, object_handle: ActorStateHandle, field_index: u8, flags: LockFlags) -> (r: Result<SubstateHandle, RuntimeError>)
            ensures *final(final(self).api) == *final(old(self).api),
                    final(self).api.st() == old(self).api.st(),
                    r matches Ok(h) ==> h == handle,
        { unimplemented!() }
    }


    /// what is cut from drop_object by @drop-tail: turning the dropped node's MAIN_BASE_PARTITION fields into payload bytes
    #[verifier::external_body]
    pub fn dropped_fields_tail(dropped_node: DroppedNode) -> (r: Vec<Vec<u8>>) { unimplemented!() }
}

pub mod unit {
    use vstd::prelude::*;
    use super::rt::*;
    use super::env::*;
    use std::rc::Rc;

    /*@item radix-common/src/types/node_and_substate.rs :: struct PartitionNumber
    @derive Clone, Copy
    @*/
    /*@item radix-common/src/types/node_and_substate.rs :: struct PartitionOffset
    @derive Clone, Copy
    @*/
    /*@item radix-common/src/types/blueprint_id.rs :: struct BlueprintId
    @derive
    @*/
    /*@item radix-engine-interface/src/types/object_and_kvstore.rs :: enum OuterObjectInfo
    @derive
    @*/
    /*@item radix-engine-interface/src/types/object_and_kvstore.rs :: struct BlueprintInfo
    @derive
    @*/
    /*@item radix-engine-interface/src/types/object_and_kvstore.rs :: enum ObjectType
    @derive
    @*/
    /*@item radix-engine-interface/src/types/object_and_kvstore.rs :: struct ObjectInfo
    @derive
    @*/
    /*@item radix-engine-interface/src/api/object_api.rs :: enum ModuleId
    @derive Clone, Copy
    @*/
    /*@item radix-engine-interface/src/api/object_api.rs :: enum AttachedModuleId
    @derive Clone, Copy
    @*/
    /*@item radix-engine/src/system/system_substates.rs :: enum LockStatus
    @derive Copy, Clone
    @*/
    /*@item radix-engine/src/system/system_substates.rs :: struct FieldSubstateV1
    @derive
    @*/
    /*@item radix-engine/src/system/system_substates.rs :: enum FieldSubstate
    @derive
    @*/
    impl<V> FieldSubstate<V> {
        /*@fn radix-engine/src/system/system_substates.rs :: impl<V> FieldSubstate<V> :: fn new_field
        @sig
            ensures ret == FieldSubstate::V1(FieldSubstateV1 { payload, lock_status })
        @*/
        /*@fn radix-engine/src/system/system_substates.rs :: impl<V> FieldSubstate<V> :: fn new_unlocked_field
        @sig
            ensures ret == FieldSubstate::V1(FieldSubstateV1 { payload, lock_status: LockStatus::Unlocked })
        @*/
    }
    /*@item radix-engine/src/system/actor.rs :: struct InstanceContext
    @derive
    @*/
    /*@item radix-engine/src/system/actor.rs :: enum MethodType
    @derive
    @*/
    /*@item radix-engine/src/system/actor.rs :: struct MethodActor
    @derive
    @*/
    /*@item radix-engine/src/system/actor.rs :: struct FunctionActor
    @derive
    @*/
    /*@item radix-engine/src/system/actor.rs :: struct BlueprintHookActor
    @derive
    @*/
    /*@item radix-engine/src/system/actor.rs :: enum Actor
    @derive
    @*/
    /*@item radix-engine/src/errors.rs :: struct InvalidDropAccess
    @derive
    @*/
    /*@item radix-engine/src/errors.rs :: struct InvalidGlobalizeAccess
    @derive
    @*/
    /*@item radix-engine/src/errors.rs :: struct InvalidModuleType
    @derive
    @*/
    /*@item radix-engine/src/errors.rs :: enum CannotGlobalizeError
    @derive
    @*/
    /*@item radix-engine/src/system/system.rs :: struct SystemService
    @*/

    impl ObjectInfo {
        /*@fn radix-engine-interface/src/types/object_and_kvstore.rs :: impl ObjectInfo :: fn is_global
        @sig
            ensures ret == (self.object_type is Global)
        @*/
        /*@fn radix-engine-interface/src/types/object_and_kvstore.rs :: impl ObjectInfo :: fn try_get_outer_object
        @sig
            ensures ret == outer_of(*self)
        @*/
    }
    // ---- ModuleId <-> AttachedModuleId conversions (radix-engine-interface/src/api/object_api.rs) ------
    pub open spec fn module_of_attached(val: AttachedModuleId) -> ModuleId {
        match val { AttachedModuleId::Metadata => ModuleId::Metadata, AttachedModuleId::Royalty => ModuleId::Royalty, AttachedModuleId::RoleAssignment => ModuleId::RoleAssignment }
    }
    pub open spec fn attached_of_module(val: ModuleId) -> Option<AttachedModuleId> {
        match val { ModuleId::Main => None, ModuleId::Metadata => Some(AttachedModuleId::Metadata), ModuleId::Royalty => Some(AttachedModuleId::Royalty), ModuleId::RoleAssignment => Some(AttachedModuleId::RoleAssignment) }
    }
    impl vstd::std_specs::convert::FromSpecImpl<AttachedModuleId> for ModuleId {
        open spec fn obeys_from_spec() -> bool { true }
        open spec fn from_spec(val: AttachedModuleId) -> Self { module_of_attached(val) }
    }
    impl From<AttachedModuleId> for ModuleId {
        /*@fn radix-engine-interface/src/api/object_api.rs :: impl From<AttachedModuleId> for ModuleId :: fn from
        @sig
            ensures ret == module_of_attached(val)
        @*/
    }
    impl vstd::std_specs::convert::FromSpecImpl<ModuleId> for Option<AttachedModuleId> {
        open spec fn obeys_from_spec() -> bool { true }
        open spec fn from_spec(val: ModuleId) -> Self { attached_of_module(val) }
    }
    impl From<ModuleId> for Option<AttachedModuleId> {
        /*@fn radix-engine-interface/src/api/object_api.rs :: impl From<ModuleId> for Option<AttachedModuleId> :: fn from
        @sig
            ensures ret == attached_of_module(val)
        @*/
    }
    impl PartitionNumber {
        /*@fn radix-common/src/types/node_and_substate.rs :: impl PartitionNumber :: fn at_offset
        @sig
            ensures ret == (if self.0 + offset.0 <= 255 { Some(PartitionNumber((self.0 + offset.0) as u8)) } else { None })
        @*/
    }
    impl ModuleId {
        /*@fn radix-engine-interface/src/api/object_api.rs :: impl ModuleId :: fn base_partition_num
        @sig
            ensures ret.0 == (match *self { ModuleId::Main => 64u8, ModuleId::Metadata => 2u8, ModuleId::Royalty => 3u8, ModuleId::RoleAssignment => 5u8 })
        @*/
    }
    impl MethodType {
        /*@fn radix-engine/src/system/actor.rs :: impl MethodType :: fn module_id
        @sig
            ensures ret == (match *self { MethodType::Module(m) => module_of_attached(m), _ => ModuleId::Main })
        @*/
    }
    impl AttachedModuleId {
        /*@fn radix-engine-interface/src/api/object_api.rs :: impl AttachedModuleId :: fn static_blueprint
        @sig
            ensures ret == module_blueprint(*self)
        @*/
    }
    impl MethodActor {
        /*@fn radix-engine/src/system/actor.rs :: impl MethodActor :: fn get_blueprint_id
        @sig
            ensures Some(ret) == running_blueprint(Actor::Method(*self))
        @*/
    }
    impl Actor {
        /*@fn radix-engine/src/system/actor.rs :: impl Actor :: fn instance_context
        @sig
            ensures match acting_outer_object(*self) { Some(o) => ret == Some(InstanceContext { outer_object: o }), None => ret is None }
        @*/
        /*@fn radix-engine/src/system/actor.rs :: impl Actor :: fn get_object_id
        @sig
            ensures ret == own_object(*self)
        @*/
        /*@fn radix-engine/src/system/actor.rs :: impl Actor :: fn blueprint_id
        @sig
            ensures ret == running_blueprint(*self)
        @*/
        /*@fn radix-engine/src/system/actor.rs :: impl Actor :: fn package_address
        @sig
            ensures ret == (match running_blueprint(*self) { Some(id) => Some(id.package_address), None => None })
        @closure 1 := |id: BlueprintId| -> (r: PackageAddress) ensures r == id.package_address
        @*/
    }

    /*@item radix-engine/src/system/system.rs :: enum ActorStateRef
    @derive
    @subst <<enum ActorStateRef>> => <<pub enum ActorStateRef>> why: visibility only -- the private enum is mentioned in pub spec fns of this unit
    @*/
    pub open spec fn actor_state_ref(value: ActorStateHandle) -> Result<ActorStateRef, RuntimeError> {
        if value == 0u32 { Ok(ActorStateRef::SELF) } else if value == 1u32 { Ok(ActorStateRef::OuterObject) }
        else { Err(RuntimeError::SystemError(SystemError::InvalidActorStateHandle)) }
    }
    impl vstd::std_specs::convert::TryFromSpecImpl<ActorStateHandle> for ActorStateRef {
        open spec fn obeys_try_from_spec() -> bool { true }
        open spec fn try_from_spec(value: ActorStateHandle) -> Result<ActorStateRef, RuntimeError> { actor_state_ref(value) }
    }
    impl TryFrom<ActorStateHandle> for ActorStateRef {
        type Error = RuntimeError;
        /*@fn radix-engine/src/system/system.rs :: impl TryFrom<ActorStateHandle> for ActorStateRef :: fn try_from
        @sig
            ensures ret == actor_state_ref(value)
        @*/
    }
    /// C50, state: an actor state handle designates ONLY (SELF) the current actor's own object, with the module the running
    /// method belongs to, or (OUTER_OBJECT) the outer object recorded in the type info of the actor's own object (main
    /// module only) -- never a node id chosen by the caller
    pub open spec fn resolves_to(s: KState, r: ActorStateRef, id: (NodeId, Option<AttachedModuleId>)) -> bool {
        own_object(s.actor) matches Some(own) && match r {
            ActorStateRef::SELF => id == own,
            ActorStateRef::OuterObject => own.1 is None && id.1 is None && s.type_info.contains_key(own.0)
                && (s.type_info[own.0] matches TypeInfoSubstate::Object(info) && outer_of(info) == Some(GlobalAddress(id.0))),
        }
    }
    /// the node behind an actor state handle, without the module
    pub open spec fn actor_state_node(s: KState, r: ActorStateRef, n: NodeId) -> bool {
        own_object(s.actor) matches Some(own) && match r {
            ActorStateRef::SELF => n == own.0,
            ActorStateRef::OuterObject => own.1 is None && s.type_info.contains_key(own.0)
                && (s.type_info[own.0] matches TypeInfoSubstate::Object(info) && outer_of(info) == Some(GlobalAddress(n))),
        }
    }
    /// the blueprint info the system associates with (node, module): the node's own for the main module, the static module blueprint otherwise
    pub open spec fn info_matches(s: KState, n: NodeId, m: Option<AttachedModuleId>, bi: BlueprintInfo) -> bool {
        match m {
            None => s.type_info.contains_key(n) && (s.type_info[n] matches TypeInfoSubstate::Object(info) && info.blueprint_info == bi),
            Some(module) => bi.blueprint_id == module_blueprint(module) && bi.outer_obj_info is None,
        }
    }
    pub open spec fn is_new_handle(s0: KState, s1: KState, h: SubstateHandle) -> bool { s1.handles.contains_key(h) && !s0.handles.contains_key(h) }
    /// C50, create: what `new_object(blueprint_ident, ..)` may bring into existence for the running actor
    pub open spec fn created_by(info: ObjectInfo, actor: Actor, blueprint_ident: &str) -> bool {
        &&& running_blueprint(actor) matches Some(own)
                && info.blueprint_info.blueprint_id == (BlueprintId { package_address: own.package_address, blueprint_name: string_of(blueprint_ident) })
        &&& info.object_type is Owned
        &&& info.blueprint_info.outer_obj_info matches OuterObjectInfo::Some { outer_object } ==> acting_outer_object(actor) == Some(outer_object)
    }

    // ---- (2) globalize ------------------------------------------------------------------------------------
    /// state invariant: an address reservation points at a live phantom node (prepare_global_address creates both)
    pub open spec fn reservations_wf(s: KState) -> bool {
        forall|n: NodeId| #[trigger] s.type_info.contains_key(n) ==> (s.type_info[n] matches TypeInfoSubstate::GlobalAddressReservation(a)
            ==> s.type_info.contains_key(a.0) && s.type_info[a.0] is GlobalAddressPhantom)
    }
    /// the address and blueprint a reservation node stands for
    pub open spec fn reservation_target(s: KState, res: NodeId) -> Option<(GlobalAddress, BlueprintId)> {
        if s.type_info.contains_key(res) && (s.type_info[res] matches TypeInfoSubstate::GlobalAddressReservation(a)
            && s.type_info.contains_key(a.0) && s.type_info[a.0] is GlobalAddressPhantom) {
            Some((s.type_info[res]->GlobalAddressReservation_0, s.type_info[s.type_info[res]->GlobalAddressReservation_0.0]->GlobalAddressPhantom_0.blueprint_id))
        } else { None }
    }
    pub open spec fn module_ok(s: KState, e: (AttachedModuleId, NodeId)) -> bool {
        s.type_info.contains_key(e.1) && (s.type_info[e.1] matches TypeInfoSubstate::Object(mi) && mi.blueprint_info.blueprint_id == module_blueprint(e.0))
    }
    /// C50, globalize, as a statement about a SUCCESSFUL call: the reservation was made for blueprint `bp` at `addr`, the
    /// running code belongs to bp's package, the globalized node is a not-yet-global object of exactly blueprint bp, and
    /// every attached module node is an object of the static blueprint of the module it is attached as
    pub open spec fn globalize_authorized(s: KState, node_id: NodeId, mods: Seq<(AttachedModuleId, NodeId)>, res: NodeId, addr: GlobalAddress) -> bool {
        &&& reservation_target(s, res) matches Some(t) && t.0 == addr
                && Some(t.1.package_address) == actor_package(s.actor)
                && s.type_info.contains_key(node_id)
                && (s.type_info[node_id] matches TypeInfoSubstate::Object(info) && info.object_type is Owned && info.blueprint_info.blueprint_id == t.1)
        &&& forall|i: int| 0 <= i < mods.len() ==> module_ok(s, #[trigger] mods[i])
    }
    /// C50, globalize, seen from the public entry point: whatever reservation was used, a successful globalize means the
    /// node was a not-yet-global object of the running code's own package, and the modules were module-blueprint objects
    pub open spec fn globalized_by_owner(s: KState, node_id: NodeId, mods: Seq<(AttachedModuleId, NodeId)>) -> bool {
        &&& s.type_info.contains_key(node_id) && (s.type_info[node_id] matches TypeInfoSubstate::Object(info) && info.object_type is Owned
                && Some(info.blueprint_info.blueprint_id.package_address) == actor_package(s.actor))
        &&& forall|i: int| 0 <= i < mods.len() ==> module_ok(s, #[trigger] mods[i])
    }
    /// what a successful globalize leaves behind: the shell of `node_id` is gone and the reserved address now holds an
    /// object with the SAME blueprint info (blueprint, outer object, features, generics) as the globalized node, typed Global
    pub open spec fn globalized_result(s0: KState, s1: KState, node_id: NodeId, addr: GlobalAddress) -> bool {
        &&& !s1.type_info.contains_key(node_id)
        &&& s1.type_info.contains_key(addr.0)
        &&& s1.type_info[addr.0] matches TypeInfoSubstate::Object(gi) && gi.object_type is Global
                && s0.type_info[node_id] is Object && gi.blueprint_info == s0.type_info[node_id]->Object_0.blueprint_info
    }
    /// partition-map bookkeeping of globalize_with_address_internal: the entry that witnesses "this node was moved"
    pub open spec fn w_main(p: Map<PartitionNumber, (NodeId, PartitionNumber)>, n: NodeId) -> bool {
        p.contains_key(SCHEMAS_PARTITION) && p[SCHEMAS_PARTITION].0 == n
    }
    pub open spec fn w_mod(p: Map<PartitionNumber, (NodeId, PartitionNumber)>, e: (AttachedModuleId, NodeId)) -> bool {
        p.contains_key(PartitionNumber(module_base(e.0))) && p[PartitionNumber(module_base(e.0))].0 == e.1
    }
    /// loop-carried facts of globalize_with_address_internal: actor fixed, the package check has passed
    pub open spec fn pre_ok(s0: KState, s1: KState, res: NodeId) -> bool {
        &&& s1.actor == s0.actor
        &&& !(reservation_target(s0, res) matches Some(t) && Some(t.1.package_address) != actor_package(s0.actor))
    }
    pub open spec fn invalid_globalize_error(bp: BlueprintId, actor: Actor) -> RuntimeError {
        RuntimeError::SystemError(SystemError::InvalidGlobalizeAccess(Box::new(InvalidGlobalizeAccess {
            package_address: bp.package_address,
            blueprint_name: bp.blueprint_name,
            actor_package: actor_package(actor),
        })))
    }

    pub open spec fn invalid_drop_error(node_id: NodeId, info: ObjectInfo, actor: Actor) -> RuntimeError {
        RuntimeError::SystemError(SystemError::InvalidDropAccess(Box::new(InvalidDropAccess {
            node_id: ReferencedNodeId(node_id),
            package_address: info.blueprint_info.blueprint_id.package_address,
            blueprint_name: info.blueprint_info.blueprint_id.blueprint_name,
            actor_package: match running_blueprint(actor) { Some(id) => Some(id.package_address), None => None },
        })))
    }

    impl<'a, Y: SystemBasedKernelApi> SystemService<'a, Y> {
        /*@fn radix-engine/src/system/system.rs :: impl<'a, Y: SystemBasedKernelApi> SystemService<'a, Y> :: fn current_actor
        @sig
            ensures ret == old(self).api.st().actor, final(self).api.st() == old(self).api.st(),
                    *final(final(self).api) == *final(old(self).api),
        @*/
        /*@fn radix-engine/src/system/system.rs :: impl<'a, Y: SystemBasedKernelApi> SystemService<'a, Y> :: fn get_object_info
        @sig
            ensures final(self).api.st() == old(self).api.st(),
                    *final(final(self).api) == *final(old(self).api),
                    ret matches Ok(info) ==> old(self).api.st().type_info.contains_key(*node_id)
                        && old(self).api.st().type_info[*node_id] == TypeInfoSubstate::Object(info),
                    ret matches Err(e) ==> e is Environment || (e == RuntimeError::SystemError(SystemError::NotAnObject)
                        && old(self).api.st().type_info.contains_key(*node_id) && !(old(self).api.st().type_info[*node_id] is Object)),
        @*/
        // ---- forwarding impls KernelNodeApi / KernelSubstateApi for SystemService: same (sensitive) contracts ----
        /*@fn radix-engine/src/system/system.rs :: impl<'a, Y: SystemBasedKernelApi> KernelNodeApi for SystemService<'a, Y> :: fn kernel_drop_node
        @sig
            requires drop_permitted(old(self).api.st(), *node_id)
            ensures
                *final(final(self).api) == *final(old(self).api),
                final(self).api.st().actor == old(self).api.st().actor,
                final(self).api.st().handles == old(self).api.st().handles,
                final(self).api.st().consumed == old(self).api.st().consumed,
                ret matches Ok(d) ==> old(self).api.st().type_info.contains_key(*node_id)
                    && final(self).api.st().type_info == old(self).api.st().type_info.remove(*node_id)
                    && dropped_type_info(d) == Some(old(self).api.st().type_info[*node_id]),
                ret matches Err(e) ==> e is Environment && final(self).api.st() == old(self).api.st(),
        @*/
        /*@fn radix-engine/src/system/system.rs :: impl<'a, Y: SystemBasedKernelApi> KernelNodeApi for SystemService<'a, Y> :: fn kernel_create_node_from
        @sig
            requires globalize_permitted(old(self).api.st(), partitions@)
            ensures
                *final(final(self).api) == *final(old(self).api),
                final(self).api.st().actor == old(self).api.st().actor,
                final(self).api.st().handles == old(self).api.st().handles,
                final(self).api.st().type_info == old(self).api.st().type_info,
                ret is Ok ==> (forall|n: NodeId| final(self).api.st().consumed.contains(n) <==> old(self).api.st().consumed.contains(n)
                                || exists|p: PartitionNumber| #[trigger] partitions@.contains_key(p) && partitions@[p].0 == n),
                ret matches Err(e) ==> e is Environment && final(self).api.st() == old(self).api.st(),
        @*/
        /*@fn radix-engine/src/system/system.rs :: impl<'a, Y: SystemBasedKernelApi> KernelSubstateApi<SystemLockData> for SystemService<'a, Y> :: fn kernel_read_substate
        @sig
            ensures
                *final(final(self).api) == *final(old(self).api),
                final(self).api.st() == old(self).api.st(),
                ret matches Ok(v) ==> old(self).api.st().handles.contains_key(lock_handle)
                    && ({ let id = old(self).api.st().handles[lock_handle];
                          id.1 == TYPE_INFO_FIELD_PARTITION && id.2 == SubstateKey::Field(0u8) && old(self).api.st().type_info.contains_key(id.0)
                            ==> ti_of(*v) == Some(old(self).api.st().type_info[id.0]) }),
                ret matches Err(e) ==> e is Environment,
        @*/
        /*@fn radix-engine/src/system/system.rs :: impl<'a, Y: SystemBasedKernelApi> KernelSubstateApi<SystemLockData> for SystemService<'a, Y> :: fn kernel_close_substate
        @sig
            ensures
                *final(final(self).api) == *final(old(self).api),
                same_but_handles(old(self).api.st(), final(self).api.st()),
                ret is Ok ==> final(self).api.st().handles == old(self).api.st().handles.remove(lock_handle),
                ret matches Err(e) ==> e is Environment && final(self).api.st() == old(self).api.st(),
        @*/

        /*@fn radix-engine/src/system/system.rs :: impl<'a, Y: SystemBasedKernelApi> KernelSubstateApi<SystemLockData> for SystemService<'a, Y> :: fn kernel_set_substate
        @sig
            requires partition_num == TYPE_INFO_FIELD_PARTITION ==> substate_key == SubstateKey::Field(0u8) && type_info_write_permitted(old(self).api.st(), *node_id, value)
            ensures
                *final(final(self).api) == *final(old(self).api),
                final(self).api.st().actor == old(self).api.st().actor,
                final(self).api.st().handles == old(self).api.st().handles,
                final(self).api.st().consumed == old(self).api.st().consumed,
                ret is Ok ==> final(self).api.st().type_info == (if partition_num == TYPE_INFO_FIELD_PARTITION { old(self).api.st().type_info.insert(*node_id, ti_of(value)->Some_0) } else { old(self).api.st().type_info }),
                ret matches Err(e) ==> e is Environment && final(self).api.st() == old(self).api.st(),
        @*/

        // ---- (2) globalize ---------------------------------------------------------------------------------
        /*@fn radix-engine/src/system/system.rs :: impl<'a, Y: SystemBasedKernelApi> SystemService<'a, Y> :: fn globalize_with_address_internal
        @sig
            requires
                reservations_wf(old(self).api.st()),
                // the node handed in as reservation is not an object (callers: `globalize` checks it -- proved below)
                !(old(self).api.st().type_info.contains_key(global_address_reservation.0.0) && old(self).api.st().type_info[global_address_reservation.0.0] is Object),
                old(self).api.st().consumed.is_empty(),
                distinct_keys(modules.entries()),
            ensures
                *final(final(self).api) == *final(old(self).api),
                final(self).api.st().actor == old(self).api.st().actor,
                ret matches Ok(addr) ==> globalize_authorized(old(self).api.st(), node_id, modules.entries(), global_address_reservation.0.0, addr)
                    && globalized_result(old(self).api.st(), final(self).api.st(), node_id, addr),
                // a valid reservation for a blueprint of ANOTHER package: InvalidGlobalizeAccess (unless the kernel failed first)
                (reservation_target(old(self).api.st(), global_address_reservation.0.0) matches Some(t) && Some(t.1.package_address) != actor_package(old(self).api.st().actor))
                    ==> (ret matches Err(e) && (e is Environment || e == invalid_globalize_error(reservation_target(old(self).api.st(), global_address_reservation.0.0)->Some_0.1, old(self).api.st().actor))),
        @entry
            let ghost s0 = self.api.st();
            let ghost res = global_address_reservation.0.0;
            let ghost main_node = node_id;
            let ghost ents = modules.entries();
        @closure 1 := |x: &BTreeMap<SubstateKey, IndexedScryptoValue>| -> (r: Option<&IndexedScryptoValue>) ensures match r { Some(v) => x@.contains_key(SubstateKey::Field(0u8)) && *v == x@[SubstateKey::Field(0u8)], None => !x@.contains_key(SubstateKey::Field(0u8)) }
        @closure 2 := |x: &IndexedScryptoValue| -> (r: Option<TypeInfoSubstate>) ensures r == ti_of(*x)
        @before <<let mut partitions>> #1
            let ghost s1 = self.api.st();
            let ghost info0 = object_info;
            proof {
                assert(s1.type_info == s0.type_info.remove(res));
                assert(globalize_source_ok(s1, node_id));
            }
        @loop 1
            invariant
                num_main_partitions <= 192,
                self.api.st() == s1, *final(self.api) == *final(old(self).api), pre_ok(s0, s1, res), s0 == old(self).api.st(), res == global_address_reservation.0.0,
                globalize_source_ok(s1, node_id),
                globalize_permitted(s1, partitions@),
                w_main(partitions@, node_id),
        @loop 2 iter it
            invariant
                self.api.st() == s1, *final(self.api) == *final(old(self).api), pre_ok(s0, s1, res), s0 == old(self).api.st(), res == global_address_reservation.0.0,
                globalize_permitted(s1, partitions@),
                ents == modules.entries(), distinct_keys(ents),
                it.seq().len() == ents.len(),
                forall|i: int| 0 <= i < ents.len() ==> *(#[trigger] it.seq()[i]).0 == ents[i].0 && *it.seq()[i].1 == ents[i].1,
                forall|i: int| 0 <= i < it.index@ ==> module_ok(s1, #[trigger] ents[i]),
                w_main(partitions@, main_node),
                forall|i: int| 0 <= i < it.index@ ==> w_mod(partitions@, #[trigger] ents[i]),
        @before <<let module_id: ModuleId>> #1
            let ghost att = *module_id;
            let ghost idx = it.index@ as int;
            proof {
                assert(blueprint_id == module_blueprint(att));
                assert(is_module_blueprint(blueprint_id));
                assert(s1.type_info.contains_key(*node_id));
                assert(globalize_source_ok(s1, *node_id));
                assert(module_ok(s1, (att, *node_id)));
                assert(ents[idx] == (att, *node_id));
            }
        @loop 3 iter it3
            invariant
                num_logical_partitions <= 192, module_base_partition.0 == module_base(att),
                1 <= num_logical_partitions <= module_room(att),
                it3.seq().len() == num_logical_partitions as int,
                self.api.st() == s1, *final(self.api) == *final(old(self).api), pre_ok(s0, s1, res), s0 == old(self).api.st(), res == global_address_reservation.0.0,
                globalize_source_ok(s1, *node_id),
                globalize_permitted(s1, partitions@),
                distinct_keys(ents), 0 <= idx < ents.len(), ents[idx] == (att, *node_id),
                w_main(partitions@, main_node),
                forall|i: int| 0 <= i < idx ==> w_mod(partitions@, #[trigger] ents[i]),
                it3.index@ > 0 ==> w_mod(partitions@, (att, *node_id)),
        @before <<self.kernel_create_node_from(>> #1
            let ghost pm = partitions@;
        @after <<self.kernel_create_node_from(>> #1
            let ghost s2 = self.api.st();
            proof {
                assert(pm.contains_key(SCHEMAS_PARTITION));
                assert(s2.consumed.contains(main_node));
                assert forall|i: int| 0 <= i < ents.len() implies s2.consumed.contains((#[trigger] ents[i]).1) by {
                    assert(w_mod(pm, ents[i]));
                    assert(pm.contains_key(PartitionNumber(module_base(ents[i].0))));
                }
            }
        @loop 4 iter it4
            invariant
                self.api.st() == s2, *final(self.api) == *final(old(self).api), pre_ok(s0, s1, res), s0 == old(self).api.st(), res == global_address_reservation.0.0,
        @loop 5 iter it5
            invariant
                *final(self.api) == *final(old(self).api), pre_ok(s0, s1, res), s0 == old(self).api.st(), res == global_address_reservation.0.0,
                self.api.st().actor == s1.actor, self.api.st().consumed == s2.consumed,
                ents == modules.entries(),
                it5.seq().len() == ents.len(),
                forall|i: int| 0 <= i < ents.len() ==> *(#[trigger] it5.seq()[i]).1 == ents[i].1,
                forall|i: int| 0 <= i < ents.len() ==> s2.consumed.contains((#[trigger] ents[i]).1) && module_ok(s1, ents[i]),
                s1.type_info.contains_key(global_address.0) && s1.type_info[global_address.0] is GlobalAddressPhantom,
                !self.api.st().type_info.contains_key(main_node),
                self.api.st().type_info.contains_key(global_address.0)
                    && (self.api.st().type_info[global_address.0] matches TypeInfoSubstate::Object(gi) && gi.blueprint_info == info0.blueprint_info && gi.object_type is Global),
        @*/

        /*@fn radix-engine/src/system/system.rs :: impl<'a, Y: SystemBasedKernelApi> SystemObjectApi<RuntimeError> for SystemService<'a, Y> :: fn get_reservation_address
        @sig
            ensures final(self).api.st() == old(self).api.st(),
                    *final(final(self).api) == *final(old(self).api),
                    ret matches Ok(a) ==> old(self).api.st().type_info.contains_key(*node_id)
                        && old(self).api.st().type_info[*node_id] == TypeInfoSubstate::GlobalAddressReservation(a),
                    ret matches Err(e) ==> e is Environment || e == RuntimeError::SystemError(SystemError::NotAnAddressReservation),
        @*/
        /// the public entry point (WASM `globalize_object` lands here)
        /*@fn radix-engine/src/system/system.rs :: impl<'a, Y: SystemBasedKernelApi> SystemObjectApi<RuntimeError> for SystemService<'a, Y> :: fn globalize
        @sig
            requires
                reservations_wf(old(self).api.st()),
                old(self).api.st().consumed.is_empty(),
                distinct_keys(modules.entries()),
            ensures
                *final(final(self).api) == *final(old(self).api),
                final(self).api.st().actor == old(self).api.st().actor,
                ret matches Ok(addr) ==> globalized_by_owner(old(self).api.st(), node_id, modules.entries())
                    && (address_reservation matches Some(r) ==> globalize_authorized(old(self).api.st(), node_id, modules.entries(), r.0.0, addr)),
                // a node that is not an address reservation is never consumed as one
                (address_reservation matches Some(r) && old(self).api.st().type_info.contains_key(r.0.0) && !(old(self).api.st().type_info[r.0.0] is GlobalAddressReservation))
                    ==> (ret matches Err(e) && (e is Environment || e == RuntimeError::SystemError(SystemError::NotAnAddressReservation)))
                        && final(self).api.st() == old(self).api.st(),
        @*/

        // ---- (3) actor state handles: SELF / OUTER_OBJECT resolve to the actor's own object / its outer object ----
        /*@fn radix-engine/src/system/system.rs :: impl<'a, Y: SystemBasedKernelApi> SystemObjectApi<RuntimeError> for SystemService<'a, Y> :: fn get_outer_object
        @sig
            ensures final(self).api.st() == old(self).api.st(),
                    *final(final(self).api) == *final(old(self).api),
                    ret matches Ok(a) ==> old(self).api.st().type_info.contains_key(*node_id)
                        && (old(self).api.st().type_info[*node_id] matches TypeInfoSubstate::Object(info) && outer_of(info) == Some(a)),
        @*/
        /*@fn radix-engine/src/system/system.rs :: impl<'a, Y: SystemBasedKernelApi> SystemService<'a, Y> :: fn get_actor_object_id
        @sig
            ensures final(self).api.st() == old(self).api.st(),
                    *final(final(self).api) == *final(old(self).api),
                    ret matches Ok(id) ==> resolves_to(old(self).api.st(), actor_object_type, id),
                    // SELF never fails for an actor that has an object
                    actor_object_type is SELF && own_object(old(self).api.st().actor) is Some ==> ret is Ok,
                    own_object(old(self).api.st().actor) is None ==> ret == Err::<(NodeId, Option<AttachedModuleId>), RuntimeError>(RuntimeError::SystemError(SystemError::NotAnObject)),
        @closure 1 := || -> (r: RuntimeError) ensures r == RuntimeError::SystemError(SystemError::NotAnObject)
        @*/

        /*@fn radix-engine/src/system/system.rs :: impl<'a, Y: SystemBasedKernelApi> SystemService<'a, Y> :: fn get_blueprint_info
        @sig
            ensures final(self).api.st() == old(self).api.st(),
                    *final(final(self).api) == *final(old(self).api),
                    ret matches Ok(bi) ==> info_matches(old(self).api.st(), *node_id, module_id, bi),
        @*/
        /*@fn radix-engine/src/system/system.rs :: impl<'a, Y: SystemBasedKernelApi> SystemService<'a, Y> :: fn is_feature_enabled
        @sig
            ensures final(self).api.st() == old(self).api.st(),
                    *final(final(self).api) == *final(old(self).api),
        @*/
        /*@fn radix-engine/src/system/system.rs :: impl<'a, Y: SystemBasedKernelApi> SystemService<'a, Y> :: fn get_actor_info
        @sig
            ensures final(self).api.st() == old(self).api.st(),
                    *final(final(self).api) == *final(old(self).api),
                    ret matches Ok(t) ==> resolves_to(old(self).api.st(), actor_object_type, (t.0, t.1))
                        && info_matches(old(self).api.st(), t.0, t.1, t.3),
        @*/
        /*@fn radix-engine/src/system/system.rs :: impl<'a, Y: SystemBasedKernelApi> SystemService<'a, Y> :: fn get_actor_field_info
        @no-r5
        @subst <<panic!("Outer object should not have IfOuterFeature.")>> => <<panic_abort()>> why: this panic site (a blueprint-definition consistency check: a field with Condition::IfOuterFeature on an object without outer object) is modelled as an ABORT -- a diverging env function without contract -- instead of a proof obligation; a panic grants no access, and discharging it would need an assumption tying installed definitions to type infos that has nothing to do with C50
        @sig
            ensures final(self).api.st() == old(self).api.st(),
                    *final(final(self).api) == *final(old(self).api),
                    ret matches Ok(t) ==> actor_state_node(old(self).api.st(), actor_object_type, t.0)
                        && (t.3 matches FieldTransience::TransientStatic { default_value } ==> dec::<ScryptoValue>(default_value@) is Some),
        @closure 1 := || -> (r: RuntimeError)
        @*/
        /*@fn radix-engine/src/system/system.rs :: impl<'a, Y: SystemBasedKernelApi> SystemService<'a, Y> :: fn get_actor_collection_partition_info
        @sig
            ensures final(self).api.st() == old(self).api.st(),
                    *final(final(self).api) == *final(old(self).api),
                    ret matches Ok(t) ==> actor_state_node(old(self).api.st(), actor_object_type, t.0),
        @closure 1 := || -> (r: RuntimeError)
        @*/
        /// the state door for fields: SystemActorApi::actor_open_field (WASM `actor_open_field` lands here)
        /*@fn radix-engine/src/system/system.rs :: impl<'a, Y: SystemBasedKernelApi> SystemActorApi<RuntimeError> for SystemService<'a, Y> :: fn actor_open_field
        @sig
            ensures
                *final(final(self).api) == *final(old(self).api),
                same_but_handles(old(self).api.st(), final(self).api.st()),
                // whatever handle this call opened is on field `field_index` of the actor's own object (SELF) / its outer object (OUTER_OBJECT)
                forall|h: SubstateHandle| is_new_handle(old(self).api.st(), final(self).api.st(), h) ==>
                    final(self).api.st().handles[h].2 == SubstateKey::Field(field_index)
                    && (actor_state_ref(object_handle) matches Ok(r) && actor_state_node(old(self).api.st(), r, final(self).api.st().handles[h].0)),
                ret matches Ok(h) ==> is_new_handle(old(self).api.st(), final(self).api.st(), h),
                // any handle value other than 0 / 1 is refused
                object_handle != ACTOR_STATE_SELF && object_handle != ACTOR_STATE_OUTER_OBJECT
                    ==> ret == Err::<SubstateHandle, RuntimeError>(RuntimeError::SystemError(SystemError::InvalidActorStateHandle)) && final(self).api.st() == old(self).api.st(),
        @closure 1 := || -> (r: IndexedScryptoValue)
        @drop-tail <<let handle = match transient>> #1 => return self.open_field_lock_check_tail(handle, object_handle, field_index, flags);
        @*/

        // ---- (4) new_object: blueprint from the ACTOR'S package, instance context from the ACTOR ---------------
        /*@fn radix-engine/src/system/system.rs :: impl<'a, Y: SystemBasedKernelApi> SystemObjectApi<RuntimeError> for SystemService<'a, Y> :: fn new_object
        @sig
            ensures
                *final(final(self).api) == *final(old(self).api),
                final(self).api.st().actor == old(self).api.st().actor,
                running_blueprint(old(self).api.st().actor) is None
                    ==> ret == Err::<NodeId, RuntimeError>(RuntimeError::SystemError(SystemError::NoPackageAddress)),
                ret is Err ==> final(self).api.st() == old(self).api.st(),
                ret matches Ok(n) ==> !old(self).api.st().type_info.contains_key(n)
                    && final(self).api.st().type_info.contains_key(n)
                    && final(self).api.st().type_info.remove(n) =~= old(self).api.st().type_info
                    && (final(self).api.st().type_info[n] matches TypeInfoSubstate::Object(info)
                        && created_by(info, old(self).api.st().actor, blueprint_ident)),
        @closure 1 := |b: BlueprintId| -> (r: PackageAddress) ensures r == b.package_address
        @*/

        /*@fn radix-engine/src/system/system.rs :: impl<'a, Y: SystemBasedKernelApi> SystemObjectApi<RuntimeError> for SystemService<'a, Y> :: fn drop_object
        @sig
            ensures
                ret is Ok ==> old(self).api.st().type_info.contains_key(*node_id)
                    && (old(self).api.st().type_info[*node_id] matches TypeInfoSubstate::Object(info) && allowed_drop(info, old(self).api.st().actor))
                    && final(self).api.st().type_info == old(self).api.st().type_info.remove(*node_id)
                    && final(self).api.st().actor == old(self).api.st().actor
                    && *final(final(self).api) == *final(old(self).api),
                ret matches Err(e) ==> (
                    e is Environment
                    || (e == RuntimeError::SystemError(SystemError::NotAnObject)
                        && old(self).api.st().type_info.contains_key(*node_id) && !(old(self).api.st().type_info[*node_id] is Object))
                    || (old(self).api.st().type_info.contains_key(*node_id)
                        && (old(self).api.st().type_info[*node_id] matches TypeInfoSubstate::Object(info)
                            && !allowed_drop(info, old(self).api.st().actor)
                            && e == invalid_drop_error(*node_id, info, old(self).api.st().actor)))),
        @drop-tail <<let mut dropped_node>> #1 => return Ok(dropped_fields_tail(dropped_node));
        @*/
    }
}
} // verus!
fn main() {}
