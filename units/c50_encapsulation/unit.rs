// Unit c50_encapsulation -- property C50 "Objects are encapsulated by their blueprint"
use vstd::prelude::*;
verus! {
/*@include shims/rt.rs @*/

pub mod env {
    use vstd::prelude::*;
    use super::unit::{Actor, ObjectInfo, BlueprintId, SystemService};

    // ---- addresses ----------------------------------------------------------------------------------
    /// radix-common NodeId(pub [u8; NodeId::LENGTH]), LENGTH = 30
    #[derive(Clone, Copy)]
    pub struct NodeId(pub [u8; 30]);
    /// radix-common GlobalAddress / PackageAddress: new-types over NodeId (the entity-type byte check of
    /// `new_or_panic` is a panic site, not modelled: a panic aborts, it grants nothing)
    #[derive(Clone, Copy)]
    pub struct GlobalAddress(pub NodeId);
    #[derive(Clone, Copy)]
    pub struct PackageAddress(pub NodeId);
    impl GlobalAddress {
        #[verifier::external_body]
        pub fn new_or_panic(raw: [u8; 30]) -> (r: Self) ensures r == GlobalAddress(NodeId(raw)) { unimplemented!() }
        pub fn as_node_id(&self) -> (r: &NodeId) ensures *r == self.0 { &self.0 }
        pub fn into_node_id(self) -> (r: NodeId) ensures r == self.0 { self.0 }
    }
    impl PartialEq for GlobalAddress {
        #[verifier::external_body]
        fn eq(&self, other: &Self) -> (r: bool) ensures r == (*self == *other) { unimplemented!() }
    }
    impl vstd::std_specs::cmp::PartialEqSpecImpl for GlobalAddress {
        open spec fn obeys_eq_spec() -> bool { true }
        open spec fn eq_spec(&self, other: &Self) -> bool { *self == *other }
    }
    impl PartialEq for PackageAddress {
        #[verifier::external_body]
        fn eq(&self, other: &Self) -> (r: bool) ensures r == (*self == *other) { unimplemented!() }
    }
    impl vstd::std_specs::cmp::PartialEqSpecImpl for PackageAddress {
        open spec fn obeys_eq_spec() -> bool { true }
        open spec fn eq_spec(&self, other: &Self) -> bool { *self == *other }
    }
    pub const RESOURCE_PACKAGE: PackageAddress = PackageAddress(NodeId(/*@expr-after radix-common/src/constants/native_addresses.rs :: const RESOURCE_PACKAGE :: <<new_or_panic(>> @*/));
    pub const FUNGIBLE_PROOF_BLUEPRINT: &'static str = /*@expr-after radix-engine-interface/src/blueprints/resource/fungible/fungible_proof.rs :: const FUNGIBLE_PROOF_BLUEPRINT :: <<&str =>> @*/;
    pub const NON_FUNGIBLE_PROOF_BLUEPRINT: &'static str = /*@expr-after radix-engine-interface/src/blueprints/resource/non_fungible/non_fungible_proof.rs :: const NON_FUNGIBLE_PROOF_BLUEPRINT :: <<&str =>> @*/;

    // ---- BlueprintId (struct extracted in `unit`): derived PartialEq / Clone, `new` ------------------
    /// `s.to_string()` for a &str (uninterpreted: no string reasoning is needed, only that it is a function)
    pub uninterp spec fn string_of(s: &str) -> String;
    impl BlueprintId {
        #[verifier::external_body]
        pub fn new(package_address: &PackageAddress, blueprint_name: &str) -> (r: Self)
            ensures r == (BlueprintId { package_address: *package_address, blueprint_name: string_of(blueprint_name) })
        { unimplemented!() }
    }
    impl PartialEq for BlueprintId {
        #[verifier::external_body]
        fn eq(&self, other: &Self) -> (r: bool) ensures r == (*self == *other) { unimplemented!() }
    }
    impl vstd::std_specs::cmp::PartialEqSpecImpl for BlueprintId {
        open spec fn obeys_eq_spec() -> bool { true }
        open spec fn eq_spec(&self, other: &Self) -> bool { *self == *other }
    }
    impl Clone for BlueprintId {
        #[verifier::external_body]
        fn clone(&self) -> (r: Self) ensures r == *self { unimplemented!() }
    }
    impl Clone for Actor {
        #[verifier::external_body]
        fn clone(&self) -> (r: Self) ensures r == *self { unimplemented!() }
    }

    // ---- object info pieces not looked at ------------------------------------------------------------
    #[verifier::external_body]
    pub struct BlueprintVersion { x: u8 }
    #[verifier::external_body]
    pub struct GenericSubstitution { x: u8 }
    #[verifier::external_body]
    #[verifier::reject_recursive_types(T)]
    pub struct IndexSet<T> { x: core::marker::PhantomData<T> }
    #[verifier::external_body]
    #[verifier::reject_recursive_types(K)]
    #[verifier::reject_recursive_types(V)]
    pub struct IndexMap<K, V> { x: core::marker::PhantomData<(K, V)> }
    #[verifier::external_body]
    pub struct BlueprintHook { x: u8 }
    #[verifier::external_body]
    pub struct KeyValueStoreInfo { x: u8 }
    #[verifier::external_body]
    pub struct DroppedNode { x: u8 }

    /// radix-engine/src/errors.rs error_models::ReferencedNodeId(pub NodeId)
    pub mod error_models {
        use vstd::prelude::*;
        use super::NodeId;
        pub struct ReferencedNodeId(pub NodeId);
        impl From<NodeId> for ReferencedNodeId {
            fn from(value: NodeId) -> (r: Self) ensures r == ReferencedNodeId(value) { ReferencedNodeId(value) }
        }
        impl vstd::std_specs::convert::FromSpecImpl<NodeId> for ReferencedNodeId {
            open spec fn obeys_from_spec() -> bool { true }
            open spec fn from_spec(value: NodeId) -> Self { ReferencedNodeId(value) }
        }
    }
    pub use error_models::ReferencedNodeId;

    pub struct GlobalAddressPhantom { pub blueprint_id: BlueprintId }
    /// radix-engine/src/system/type_info.rs
    pub enum TypeInfoSubstate {
        Object(ObjectInfo),
        KeyValueStore(KeyValueStoreInfo),
        GlobalAddressReservation(GlobalAddress),
        GlobalAddressPhantom(GlobalAddressPhantom),
    }

    /// RuntimeError (radix-engine/src/errors.rs) reduced: `Environment` = every error only the kernel / other modules raise
    pub enum RuntimeError { SystemError(SystemError), Environment }
    pub enum SystemError {
        NotAnObject,
        InvalidDropAccess(Box<super::unit::InvalidDropAccess>),
        Other,
    }

    // ---- ghost kernel state ---------------------------------------------------------------------------
    pub ghost struct KState {
        /// for every live node: what TypeInfoBlueprint::get_type returns for it
        pub type_info: Map<NodeId, TypeInfoSubstate>,
        /// the actor of the current call frame (fixed during a system call)
        pub actor: Actor,
    }

    /// kernel_api.rs SystemState, reduced to the call-frame data (the `system` field is not used by the code under contract)
    pub struct SystemState<'a> {
        pub current_call_frame: &'a Actor,
        pub caller_call_frame: &'a Actor,
    }

    // ================================================================================================
    // ORACLE of property C50 (written from the statement; the kernel primitive carries it as PRECONDITION)
    // ================================================================================================
    /// the blueprint whose code is running in the current call frame
    pub open spec fn running_blueprint(a: Actor) -> Option<BlueprintId> {
        match a {
            Actor::Root => None,
            Actor::Function(f) => Some(f.blueprint_id),
            Actor::BlueprintHook(h) => Some(h.blueprint_id),
            Actor::Method(m) => match m.method_type {
                super::unit::MethodType::Module(module) => Some(module_blueprint(module)),
                _ => Some(m.object_info.blueprint_info.blueprint_id),
            },
        }
    }
    pub open spec fn module_blueprint(m: AttachedModuleId) -> BlueprintId {
        match m {
            AttachedModuleId::Metadata => BlueprintId { package_address: METADATA_MODULE_PACKAGE, blueprint_name: string_of(METADATA_BLUEPRINT) },
            AttachedModuleId::Royalty => BlueprintId { package_address: ROYALTY_MODULE_PACKAGE, blueprint_name: string_of(COMPONENT_ROYALTY_BLUEPRINT) },
            AttachedModuleId::RoleAssignment => BlueprintId { package_address: ROLE_ASSIGNMENT_MODULE_PACKAGE, blueprint_name: string_of(ROLE_ASSIGNMENT_BLUEPRINT) },
        }
    }
    /// the outer object on whose behalf the running code acts: a main/direct method of a GLOBAL object acts for that
    /// object itself; a main/direct method of an owned inner object acts for the object's outer object; nothing else does
    pub open spec fn acting_outer_object(a: Actor) -> Option<GlobalAddress> {
        match a {
            Actor::Method(m) => match m.method_type {
                super::unit::MethodType::Module(_) => None,
                _ => if m.object_info.object_type is Global { Some(GlobalAddress(m.node_id)) }
                     else { match m.object_info.blueprint_info.outer_obj_info {
                         super::unit::OuterObjectInfo::Some { outer_object } => Some(outer_object),
                         super::unit::OuterObjectInfo::None => None,
                     } },
            },
            _ => None,
        }
    }
    pub open spec fn is_proof(id: BlueprintId) -> bool {
        id == (BlueprintId { package_address: RESOURCE_PACKAGE, blueprint_name: string_of(FUNGIBLE_PROOF_BLUEPRINT) })
        || id == (BlueprintId { package_address: RESOURCE_PACKAGE, blueprint_name: string_of(NON_FUNGIBLE_PROOF_BLUEPRINT) })
    }
    /// C50, drop: "only code of an object's own blueprint (or, for an inner object, of its outer object) can drop that
    /// object; proofs may be dropped by whoever holds them" -- a proof is an inner object of its resource manager; for
    /// it the outer-object rule is waived, what remains is the own-blueprint rule (FungibleProof / NonFungibleProof
    /// `drop` is a public FUNCTION of the proof blueprint, which is how "whoever holds them" drops one)
    pub open spec fn allowed_drop(info: ObjectInfo, actor: Actor) -> bool {
        if is_proof(info.blueprint_info.blueprint_id) {
            running_blueprint(actor) == Some(info.blueprint_info.blueprint_id)
        } else {
            match info.blueprint_info.outer_obj_info {
                super::unit::OuterObjectInfo::Some { outer_object } => acting_outer_object(actor) == Some(outer_object),
                super::unit::OuterObjectInfo::None => running_blueprint(actor) == Some(info.blueprint_info.blueprint_id),
            }
        }
    }
    pub open spec fn drop_permitted(s: KState, node_id: NodeId) -> bool {
        s.type_info.contains_key(node_id) ==> match s.type_info[node_id] {
            TypeInfoSubstate::Object(info) => allowed_drop(info, s.actor),
            _ => true,
        }
    }

    #[derive(Clone, Copy)]
    pub enum AttachedModuleId { Metadata, Royalty, RoleAssignment }
    #[derive(Clone, Copy)]
    pub enum ModuleId { Main, Metadata, Royalty, RoleAssignment }
    pub const METADATA_MODULE_PACKAGE: PackageAddress = PackageAddress(NodeId(/*@expr-after radix-common/src/constants/native_addresses.rs :: const METADATA_MODULE_PACKAGE :: <<new_or_panic(>> @*/));
    pub const ROYALTY_MODULE_PACKAGE: PackageAddress = PackageAddress(NodeId(/*@expr-after radix-common/src/constants/native_addresses.rs :: const ROYALTY_MODULE_PACKAGE :: <<new_or_panic(>> @*/));
    pub const ROLE_ASSIGNMENT_MODULE_PACKAGE: PackageAddress = PackageAddress(NodeId(/*@expr-after radix-common/src/constants/native_addresses.rs :: const ROLE_ASSIGNMENT_MODULE_PACKAGE :: <<new_or_panic(>> @*/));
    pub const METADATA_BLUEPRINT: &'static str = "Metadata";
    pub const COMPONENT_ROYALTY_BLUEPRINT: &'static str = "ComponentRoyalty";
    pub const ROLE_ASSIGNMENT_BLUEPRINT: &'static str = "RoleAssignment";

    /// The kernel as seen by the system layer (kernel_api.rs KernelNodeApi / KernelInternalApi).
    pub trait SystemBasedKernelApi: Sized {
        spec fn st(&self) -> KState;

        fn kernel_get_system_state(&mut self) -> (r: SystemState<'_>)
            ensures *r.current_call_frame == old(self).st().actor, final(self).st() == old(self).st();

        /// THE SENSITIVE CALLEE: its precondition is property C50 (drop) itself.
        fn kernel_drop_node(&mut self, node_id: &NodeId) -> (r: Result<DroppedNode, RuntimeError>)
            requires drop_permitted(old(self).st(), *node_id)
            ensures
                final(self).st().actor == old(self).st().actor,
                r is Ok ==> old(self).st().type_info.contains_key(*node_id)
                    && final(self).st().type_info == old(self).st().type_info.remove(*node_id),
                r matches Err(e) ==> e is Environment && final(self).st() == old(self).st();
    }

    /// system/type_info.rs: reads the TypeInfo substate of a node (open, read, close). ASSUMED: net effect nil.
    pub struct TypeInfoBlueprint;
    impl TypeInfoBlueprint {
        #[verifier::external_body]
        pub fn get_type<Y: SystemBasedKernelApi>(receiver: &NodeId, api: &mut Y) -> (r: Result<TypeInfoSubstate, RuntimeError>)
            ensures final(api).st() == old(api).st(),
                    r matches Ok(t) ==> old(api).st().type_info.contains_key(*receiver) && t == old(api).st().type_info[*receiver],
                    r matches Err(e) ==> e is Environment,
        { unimplemented!() }
    }

    /// what is cut from drop_object by @drop-tail: turning the dropped node's MAIN_BASE_PARTITION fields into payload bytes
    #[verifier::external_body]
    pub fn dropped_fields_tail(dropped_node: DroppedNode) -> (r: Vec<Vec<u8>>) { unimplemented!() }
}

pub mod unit {
    use vstd::prelude::*;
    use super::rt::*;
    use super::env::*;

    /*@item radix-common/src/types/blueprint_id.rs :: struct BlueprintId
    @derive
    @*/
    /*@item radix-engine-interface/src/types/object_and_kvstore.rs :: enum OuterObjectInfo
    @derive
    @*/
    /*@item radix-engine-interface/src/types/object_and_kvstore.rs :: struct BlueprintInfo
    @derive
    @*/
    /*@item radix-engine-interface/src/types/object_and_kvstore.rs :: enum ObjectType
    @derive
    @*/
    /*@item radix-engine-interface/src/types/object_and_kvstore.rs :: struct ObjectInfo
    @derive
    @*/
    /*@item radix-engine/src/system/actor.rs :: struct InstanceContext
    @derive
    @*/
    /*@item radix-engine/src/system/actor.rs :: enum MethodType
    @derive
    @*/
    /*@item radix-engine/src/system/actor.rs :: struct MethodActor
    @derive
    @*/
    /*@item radix-engine/src/system/actor.rs :: struct FunctionActor
    @derive
    @*/
    /*@item radix-engine/src/system/actor.rs :: struct BlueprintHookActor
    @derive
    @*/
    /*@item radix-engine/src/system/actor.rs :: enum Actor
    @derive
    @*/
    /*@item radix-engine/src/errors.rs :: struct InvalidDropAccess
    @derive
    @*/
    /*@item radix-engine/src/system/system.rs :: struct SystemService
    @*/

    impl ObjectInfo {
        /*@fn radix-engine-interface/src/types/object_and_kvstore.rs :: impl ObjectInfo :: fn is_global
        @sig
            ensures ret == (self.object_type is Global)
        @*/
    }
    impl AttachedModuleId {
        /*@fn radix-engine-interface/src/api/object_api.rs :: impl AttachedModuleId :: fn static_blueprint
        @sig
            ensures ret == module_blueprint(*self)
        @*/
    }
    impl MethodActor {
        /*@fn radix-engine/src/system/actor.rs :: impl MethodActor :: fn get_blueprint_id
        @sig
            ensures Some(ret) == running_blueprint(Actor::Method(*self))
        @*/
    }
    impl Actor {
        /*@fn radix-engine/src/system/actor.rs :: impl Actor :: fn instance_context
        @sig
            ensures match acting_outer_object(*self) { Some(o) => ret == Some(InstanceContext { outer_object: o }), None => ret is None }
        @*/
        /*@fn radix-engine/src/system/actor.rs :: impl Actor :: fn blueprint_id
        @sig
            ensures ret == running_blueprint(*self)
        @*/
        /*@fn radix-engine/src/system/actor.rs :: impl Actor :: fn package_address
        @sig
            ensures ret == (match running_blueprint(*self) { Some(id) => Some(id.package_address), None => None })
        @closure 1 := |id: BlueprintId| -> (r: PackageAddress) ensures r == id.package_address
        @*/
    }

    pub open spec fn invalid_drop_error(node_id: NodeId, info: ObjectInfo, actor: Actor) -> RuntimeError {
        RuntimeError::SystemError(SystemError::InvalidDropAccess(Box::new(InvalidDropAccess {
            node_id: ReferencedNodeId(node_id),
            package_address: info.blueprint_info.blueprint_id.package_address,
            blueprint_name: info.blueprint_info.blueprint_id.blueprint_name,
            actor_package: match running_blueprint(actor) { Some(id) => Some(id.package_address), None => None },
        })))
    }

    impl<'a, Y: SystemBasedKernelApi> SystemService<'a, Y> {
        /*@fn radix-engine/src/system/system.rs :: impl<'a, Y: SystemBasedKernelApi> SystemService<'a, Y> :: fn current_actor
        @sig
            ensures ret == old(self).api.st().actor, final(self).api.st() == old(self).api.st(),
                    *final(final(self).api) == *final(old(self).api),
        @*/
        /*@fn radix-engine/src/system/system.rs :: impl<'a, Y: SystemBasedKernelApi> SystemService<'a, Y> :: fn get_object_info
        @sig
            ensures final(self).api.st() == old(self).api.st(),
                    *final(final(self).api) == *final(old(self).api),
                    ret matches Ok(info) ==> old(self).api.st().type_info.contains_key(*node_id)
                        && old(self).api.st().type_info[*node_id] == TypeInfoSubstate::Object(info),
                    ret matches Err(e) ==> e is Environment || (e == RuntimeError::SystemError(SystemError::NotAnObject)
                        && old(self).api.st().type_info.contains_key(*node_id) && !(old(self).api.st().type_info[*node_id] is Object)),
        @*/
        /*@fn radix-engine/src/system/system.rs :: impl<'a, Y: SystemBasedKernelApi> SystemObjectApi<RuntimeError> for SystemService<'a, Y> :: fn drop_object
        @sig
            ensures
                final(self).api.st().actor == old(self).api.st().actor,
                *final(final(self).api) == *final(old(self).api),
                ret is Ok ==> old(self).api.st().type_info.contains_key(*node_id)
                    && (old(self).api.st().type_info[*node_id] matches TypeInfoSubstate::Object(info) && allowed_drop(info, old(self).api.st().actor))
                    && final(self).api.st().type_info == old(self).api.st().type_info.remove(*node_id),
                ret matches Err(e) ==> final(self).api.st() == old(self).api.st() && (
                    e is Environment
                    || (e == RuntimeError::SystemError(SystemError::NotAnObject)
                        && old(self).api.st().type_info.contains_key(*node_id) && !(old(self).api.st().type_info[*node_id] is Object))
                    || (old(self).api.st().type_info.contains_key(*node_id)
                        && (old(self).api.st().type_info[*node_id] matches TypeInfoSubstate::Object(info)
                            && !allowed_drop(info, old(self).api.st().actor)
                            && e == invalid_drop_error(*node_id, info, old(self).api.st().actor)))),
        @drop-tail <<let mut dropped_node = self.api.kernel_drop_node(node_id)?;>> #1 => return Ok(dropped_fields_tail(dropped_node));
        @*/
    }
}
} // verus!
fn main() {}
