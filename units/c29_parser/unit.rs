// Unit c29_parser -- property C29 "Calendar time conversions are correct and invertible", clause
//   "parsing any text returns a date-time or an error without panicking" (+ print/parse corollary).
// Real code (bodies extracted verbatim on every run):
//   radix-common/src/time/utc_date_time.rs ::
//     `impl FromStr for UtcDateTime :: from_str`        (the parser; a REAL trait impl, `type Err` extracted too)
//     `impl From<ParseIntError> for ParseUtcDateTimeError :: from`, `impl From<DateTimeError> for
//     ParseUtcDateTimeError :: from`                     (the two conversions the `?` operator calls)
//     UtcDateTime::{new, is_leap_year}                   (re-proved here with the contract of unit c29_calendar)
//     struct UtcDateTime, enum DateTimeError, enum ParseUtcDateTimeError, const LEAP_YEAR_DAYS_IN_MONTHS
// Strings: this vstd models `str` as Seq<char> (`s@`) with `s.spec_bytes() == encode_utf8(s@)` and ALREADY
//   specifies `str::chars`, `Iterator::collect::<Vec<char>>` (chars@ == s@), `str::is_ascii` (== is_ascii_chars(s@)),
//   `Vec` indexing, and the PRECONDITION of `s[a..b]` on a str (`IndexSpec::index_req` for str ==
//   `vstd::string::str_slice_in_bounds`):
//       a <= b <= byte length  &&  is_char_boundary(bytes, a)  &&  is_char_boundary(bytes, b).
//   That precondition is the obligation the historical defect violated (20 characters, one of them multi-byte:
//   byte offset 19 falls inside a character; see examples_rejected). It is discharged here from `s.is_ascii()`
//   by lemma_ascii_layout, which uses only PROVED vstd lemmas (encode_utf8_valid_utf8, is_ascii_chars_encode_utf8,
//   is_char_boundary_iff_not_is_continuation_byte, is_char_boundary_start_end_of_seq, encode_utf8_decode_utf8).
//   Removing `s.is_ascii() &&` from /repo makes from_str FAIL on all six of these preconditions (mutants.txt).
// Assumed std contracts (shims/str_parse_c29.rs):
//   (I1) the VALUE of `s[a..b]` is what vstd specifies for `SliceIndex::<str>::index` (bytes[a..b]);
//   (P1) `str::parse::<F>` is total (returns a Result, no panic); (P2) for F = u8 / u32 it is a function of the
//   text (uninterpreted `spec_parse`); (P3) 1..=9 ASCII digits whose value fits parse to that value -- P3 is
//   used by the print/parse corollary only; `ParseIntError` is an opaque type; `FromStr` is declared as an
//   external trait (no contract on the trait).
//   shims/try_from.rs: the error produced by `?` is a result of the `From` impl (here: the two real impls).
// Not in this unit: `impl Display for UtcDateTime` (`write!` / core::fmt): the corollary below is stated on
//   the ORACLE text `iso_text(dt)` of the documented form, not on the output of `fmt`.
use vstd::prelude::*;
verus! {
/*@include shims/rt.rs @*/
/*@include shims/try_from.rs @*/
/*@include shims/str_parse_c29.rs @*/

pub mod unit {
    use vstd::prelude::*;
    use vstd::string::*;
    use vstd::utf8::*;
    use core::str::FromStr;
    use core::num::ParseIntError;
    use super::rt::*;
    use super::str_parse::*;
    broadcast use super::try_from::axiom_question_mark_calls_from;

    /*@item radix-common/src/time/utc_date_time.rs :: const LEAP_YEAR_DAYS_IN_MONTHS
    @*/
    /*@item radix-common/src/time/utc_date_time.rs :: struct UtcDateTime
    @derive Clone, Copy, PartialEq, Eq
    @*/
    /*@item radix-common/src/time/utc_date_time.rs :: enum DateTimeError
    @derive Clone, Copy, PartialEq, Eq
    @*/
    /*@item radix-common/src/time/utc_date_time.rs :: enum ParseUtcDateTimeError
    @derive
    @*/

    // ------------------------------------------------------------------------------------------
    // ORACLE 1 (same as unit c29_calendar): valid civil date-times of the proleptic Gregorian calendar
    // ------------------------------------------------------------------------------------------
    #[verifier::opaque]
    pub open spec fn leap(y: int) -> bool { y % 4 == 0 && (y % 100 != 0 || y % 400 == 0) }
    pub open spec fn dim(y: int, m: int) -> int {
        if m == 2 { if leap(y) { 29 } else { 28 } } else if m == 4 || m == 6 || m == 9 || m == 11 { 30 } else { 31 }
    }
    pub open spec fn valid_civil(y: int, m: int, d: int, h: int, mi: int, s: int) -> bool {
        1 <= y <= u32::MAX && 1 <= m <= 12 && 1 <= d <= dim(y, m) && 0 <= h <= 23 && 0 <= mi <= 59 && 0 <= s <= 59
    }
    pub open spec fn valid(dt: UtcDateTime) -> bool {
        valid_civil(dt.year as int, dt.month as int, dt.day_of_month as int, dt.hour as int, dt.minute as int, dt.second as int)
    }
    /// the error `new` must report: the first offending component in the order y, m, d, h, mi, s
    pub open spec fn first_error(y: int, m: int, d: int, h: int, mi: int, s: int) -> Option<DateTimeError> {
        if y == 0 { Some(DateTimeError::InvalidYear) }
        else if !(1 <= m <= 12) { Some(DateTimeError::InvalidMonth) }
        else if !(1 <= d <= dim(y, m)) { Some(DateTimeError::InvalidDayOfMonth) }
        else if h > 23 { Some(DateTimeError::InvalidHour) }
        else if mi > 59 { Some(DateTimeError::InvalidMinute) }
        else if s > 59 { Some(DateTimeError::InvalidSecond) }
        else { None }
    }

    impl UtcDateTime {
        /*@fn radix-common/src/time/utc_date_time.rs :: impl UtcDateTime :: fn is_leap_year
        @sig
            ensures ret == leap(year as int)
        @entry
            proof { reveal(leap); }
        @*/
        /*@fn radix-common/src/time/utc_date_time.rs :: impl UtcDateTime :: fn new
        @sig
            ensures
                ret is Ok <==> valid_civil(year as int, month as int, day_of_month as int, hour as int, minute as int, second as int),
                ret matches Ok(dt) ==> dt.year == year && dt.month == month && dt.day_of_month == day_of_month
                    && dt.hour == hour && dt.minute == minute && dt.second == second,
                ret matches Err(e) ==> Some(e) == first_error(year as int, month as int, day_of_month as int, hour as int, minute as int, second as int),
        @*/
    }

    // ------------------------------------------------------------------------------------------
    // ORACLE 2: the documented text form `YYYY-MM-DDTHH:MM:SSZ` (20 ASCII characters, fixed separators,
    // six integer fields read by the std integer parser) and what the parser must return for EVERY text
    // ------------------------------------------------------------------------------------------
    pub open spec fn format_ok(t: Seq<char>) -> bool {
        &&& is_ascii_chars(t)
        &&& t.len() == 20
        &&& t[4] == '-' && t[7] == '-' && t[10] == 'T' && t[13] == ':' && t[16] == ':' && t[19] == 'Z'
    }
    pub open spec fn parse_oracle(t: Seq<char>) -> Result<UtcDateTime, ParseUtcDateTimeError> {
        if !format_ok(t) { Err(ParseUtcDateTimeError::InvalidFormat) } else {
            match (spec_parse::<u32>(t.subrange(0, 4)), spec_parse::<u8>(t.subrange(5, 7)), spec_parse::<u8>(t.subrange(8, 10)),
                   spec_parse::<u8>(t.subrange(11, 13)), spec_parse::<u8>(t.subrange(14, 16)), spec_parse::<u8>(t.subrange(17, 19))) {
                (Some(y), Some(m), Some(d), Some(h), Some(mi), Some(s)) =>
                    match first_error(y as int, m as int, d as int, h as int, mi as int, s as int) {
                        None => Ok(UtcDateTime { year: y, month: m, day_of_month: d, hour: h, minute: mi, second: s }),
                        Some(e) => Err(ParseUtcDateTimeError::DateTimeError(e)),
                    },
                _ => Err(ParseUtcDateTimeError::InvalidFormat),
            }
        }
    }

    // ---- UTF-8 layout of an ASCII string (from PROVED vstd lemmas) -----------------------------
    /// byte length == char count, every offset 0..=len is a char boundary, and cutting the bytes at
    /// [a, b) yields the encoding of the characters [a, b)
    pub proof fn lemma_ascii_layout(cs: Seq<char>)
        requires is_ascii_chars(cs)
        ensures
            valid_utf8(encode_utf8(cs)),
            encode_utf8(cs).len() == cs.len(),
            forall|i: int| 0 <= i <= cs.len() ==> is_char_boundary(encode_utf8(cs), i),
    {
        let b = encode_utf8(cs);
        encode_utf8_valid_utf8(cs);
        is_ascii_chars_encode_utf8(cs);
        is_char_boundary_start_end_of_seq(b);
        assert forall|i: int| 0 <= i <= cs.len() implies is_char_boundary(b, i) by {
            if i < cs.len() {
                assert(b[i] == cs[i] as u8);
                assert(0 <= cs[i] as u32 <= 127);
                is_char_boundary_iff_not_is_continuation_byte(b, i);
            }
        }
    }
    /// a string whose bytes are the bytes [a, b) of an ASCII string consists of the characters [a, b)
    pub proof fn lemma_ascii_slice(cs: Seq<char>, t: Seq<char>, a: int, b: int)
        requires is_ascii_chars(cs), 0 <= a <= b <= cs.len(), encode_utf8(t) == encode_utf8(cs).subrange(a, b)
        ensures t == cs.subrange(a, b)
    {
        let u = cs.subrange(a, b);
        assert(is_ascii_chars(u)) by {
            assert forall|i: int| 0 <= i < u.len() implies 0 <= #[trigger] u[i] as u32 <= 127 by { assert(u[i] == cs[a + i]); }
        }
        is_ascii_chars_encode_utf8(cs);
        is_ascii_chars_encode_utf8(u);
        assert(encode_utf8(u) =~= encode_utf8(cs).subrange(a, b)) by {
            assert forall|i: int| 0 <= i < u.len() implies encode_utf8(u)[i] == encode_utf8(cs)[a + i] by {
                assert(u[i] == cs[a + i]);
            }
        }
        encode_utf8_decode_utf8(u);
        encode_utf8_decode_utf8(t);
    }

    // ---- the two conversions `?` calls -------------------------------------------------------
    impl vstd::std_specs::convert::FromSpecImpl<ParseIntError> for ParseUtcDateTimeError {
        open spec fn obeys_from_spec() -> bool { true }
        open spec fn from_spec(v: ParseIntError) -> Self { ParseUtcDateTimeError::InvalidFormat }
    }
    impl From<ParseIntError> for ParseUtcDateTimeError {
        /*@fn radix-common/src/time/utc_date_time.rs :: impl From<ParseIntError> for ParseUtcDateTimeError :: fn from
        @sig
            ensures ret == ParseUtcDateTimeError::InvalidFormat
        @*/
    }
    impl vstd::std_specs::convert::FromSpecImpl<DateTimeError> for ParseUtcDateTimeError {
        open spec fn obeys_from_spec() -> bool { true }
        open spec fn from_spec(v: DateTimeError) -> Self { ParseUtcDateTimeError::DateTimeError(v) }
    }
    impl From<DateTimeError> for ParseUtcDateTimeError {
        /*@fn radix-common/src/time/utc_date_time.rs :: impl From<DateTimeError> for ParseUtcDateTimeError :: fn from
        @sig
            ensures ret == ParseUtcDateTimeError::DateTimeError(value)
        @*/
    }

    // ---- THE PARSER ------------------------------------------------------------------------------
    impl FromStr for UtcDateTime {
        /*@item radix-common/src/time/utc_date_time.rs :: impl FromStr for UtcDateTime :: type Err
        @*/
        /*@fn radix-common/src/time/utc_date_time.rs :: impl FromStr for UtcDateTime :: fn from_str
        @sig
            // no `requires`: every &str is admitted; all panic sites (Vec index x6, str range index x6) are obligations
            ensures
                ret == parse_oracle(s@),
                ret matches Ok(dt) ==> valid(dt) && format_ok(s@),
                !format_ok(s@) ==> ret == Err::<UtcDateTime, ParseUtcDateTimeError>(ParseUtcDateTimeError::InvalidFormat),
        @entry
            proof {
                ax_parse_is_function_ints();
                if is_ascii_chars(s@) {
                    lemma_ascii_layout(s@);
                    assert forall|t: Seq<char>, a: int, b: int| 0 <= a <= b <= s@.len()
                        && #[trigger] encode_utf8(t) == #[trigger] encode_utf8(s@).subrange(a, b) implies t == s@.subrange(a, b) by {
                        lemma_ascii_slice(s@, t, a, b);
                    }
                }
            }
        @*/
    }

    // ------------------------------------------------------------------------------------------
    // COROLLARY (print then parse): the documented ISO-8601 text of a valid date-time with a four-digit
    // year, `iso_text(dt)` (ORACLE: zero-padded decimal fields, what `{:04}-{:02}-{:02}T{:02}:{:02}:{:02}Z`
    // denotes), is accepted by the parser contract and yields `dt` again. Uses assumption (P3) of
    // shims/str_parse_c29.rs (digit strings parse to their decimal value). The link "Display::fmt produces
    // iso_text" is NOT proved (core::fmt).
    // ------------------------------------------------------------------------------------------
    pub open spec fn digit(k: int) -> char { ((48 + k) as u8) as char }
    pub open spec fn dec2(n: int) -> Seq<char> { seq![digit(n / 10), digit(n % 10)] }
    pub open spec fn dec4(n: int) -> Seq<char> { seq![digit(n / 10 / 10 / 10), digit(n / 10 / 10 % 10), digit(n / 10 % 10), digit(n % 10)] }
    pub open spec fn iso_text(dt: UtcDateTime) -> Seq<char> {
        dec4(dt.year as int) + seq!['-'] + dec2(dt.month as int) + seq!['-'] + dec2(dt.day_of_month as int) + seq!['T']
            + dec2(dt.hour as int) + seq![':'] + dec2(dt.minute as int) + seq![':'] + dec2(dt.second as int) + seq!['Z']
    }
    pub proof fn lemma_digit(k: int)
        requires 0 <= k <= 9
        ensures '0' <= digit(k) && digit(k) <= '9', digit(k) as u32 - '0' as u32 == k, 0 <= digit(k) as u32 <= 127
    {}
    /// value of a 2- / 4-character digit string, stated on the DIGITS (no division in this query)
    pub proof fn lemma_dec_val2(a: int, b: int)
        requires 0 <= a <= 9, 0 <= b <= 9
        ensures dec_val(seq![digit(a), digit(b)]) == 10 * a + b
    {
        let s = seq![digit(a), digit(b)];
        lemma_digit(a); lemma_digit(b);
        let s1 = s.drop_last();
        assert(s1 =~= seq![digit(a)]);
        assert(s1.drop_last() =~= Seq::<char>::empty());
        assert(dec_val(s1.drop_last()) == 0);
        assert(dec_val(s1) == a);
        assert(dec_val(s) == 10 * dec_val(s1) + b);
    }
    pub proof fn lemma_dec_val4(a: int, b: int, c: int, d: int)
        requires 0 <= a <= 9, 0 <= b <= 9, 0 <= c <= 9, 0 <= d <= 9
        ensures dec_val(seq![digit(a), digit(b), digit(c), digit(d)]) == 1000 * a + 100 * b + 10 * c + d
    {
        let s = seq![digit(a), digit(b), digit(c), digit(d)];
        lemma_digit(c); lemma_digit(d);
        let s3 = s.drop_last(); let s2 = s3.drop_last();
        assert(s3 =~= seq![digit(a), digit(b), digit(c)]);
        assert(s2 =~= seq![digit(a), digit(b)]);
        lemma_dec_val2(a, b);
        assert(dec_val(s3) == 10 * dec_val(s2) + c);
        assert(dec_val(s) == 10 * dec_val(s3) + d);
    }
    pub proof fn lemma_dec2(n: int)
        requires 0 <= n <= 99
        ensures dec2(n).len() == 2, all_digits(dec2(n)), dec_val(dec2(n)) == n, is_ascii_chars(dec2(n))
    {
        let (a, b) = (n / 10, n % 10);
        assert(0 <= a <= 9 && 0 <= b <= 9 && n == 10 * a + b);
        lemma_digit(a); lemma_digit(b);
        lemma_dec_val2(a, b);
    }
    pub proof fn lemma_dec4(n: int)
        requires 0 <= n <= 9999
        ensures dec4(n).len() == 4, all_digits(dec4(n)), dec_val(dec4(n)) == n, is_ascii_chars(dec4(n))
    {
        let q1 = n / 10; let q2 = q1 / 10;
        let (a, b, c, d) = (q2 / 10, q2 % 10, q1 % 10, n % 10);
        assert(n == 10 * q1 + d && 0 <= d <= 9 && 0 <= q1 <= 999);
        assert(q1 == 10 * q2 + c && 0 <= c <= 9 && 0 <= q2 <= 99);
        assert(q2 == 10 * a + b && 0 <= b <= 9 && 0 <= a <= 9);
        assert(n == 1000 * a + 100 * b + 10 * c + d);
        lemma_digit(a); lemma_digit(b); lemma_digit(c); lemma_digit(d);
        lemma_dec_val4(a, b, c, d);
    }
    pub proof fn theorem_parse_of_iso_text(dt: UtcDateTime)
        requires valid(dt), dt.year <= 9999
        ensures
            iso_text(dt).len() == 20, format_ok(iso_text(dt)),
            parse_oracle(iso_text(dt)) == Ok::<UtcDateTime, ParseUtcDateTimeError>(dt),
    {
        let t = iso_text(dt);
        let (y, m, d, h, mi, s) = (dt.year as int, dt.month as int, dt.day_of_month as int, dt.hour as int, dt.minute as int, dt.second as int);
        lemma_dec4(y); lemma_dec2(m); lemma_dec2(d); lemma_dec2(h); lemma_dec2(mi); lemma_dec2(s);
        assert(t.len() == 20);
        assert(t.subrange(0, 4) =~= dec4(y));
        assert(t.subrange(5, 7) =~= dec2(m));
        assert(t.subrange(8, 10) =~= dec2(d));
        assert(t.subrange(11, 13) =~= dec2(h));
        assert(t.subrange(14, 16) =~= dec2(mi));
        assert(t.subrange(17, 19) =~= dec2(s));
        assert(t[4] == '-' && t[7] == '-' && t[10] == 'T' && t[13] == ':' && t[16] == ':' && t[19] == 'Z');
        assert(is_ascii_chars(t)) by {
            assert forall|i: int| 0 <= i < t.len() implies 0 <= #[trigger] t[i] as u32 <= 127 by {
                if i < 4 { assert(t[i] == dec4(y)[i]); }
                else if 5 <= i < 7 { assert(t[i] == dec2(m)[i - 5]); }
                else if 8 <= i < 10 { assert(t[i] == dec2(d)[i - 8]); }
                else if 11 <= i < 13 { assert(t[i] == dec2(h)[i - 11]); }
                else if 14 <= i < 16 { assert(t[i] == dec2(mi)[i - 14]); }
                else if 17 <= i < 19 { assert(t[i] == dec2(s)[i - 17]); }
            }
        }
        ax_parse_digits_u32(dec4(y));
        ax_parse_digits_u8(dec2(m)); ax_parse_digits_u8(dec2(d)); ax_parse_digits_u8(dec2(h));
        ax_parse_digits_u8(dec2(mi)); ax_parse_digits_u8(dec2(s));
        assert(first_error(y, m, d, h, mi, s) is None);
    }
    /// ... and the parser contract is not vacuous on the error side: some concrete rejected texts
    pub proof fn examples_rejected()
        ensures
            // 20 characters, the last-but-one is the two-byte 'e-acute': the input of the historical panic
            parse_oracle(seq!['2','0','2','3','-','0','1','-','2','7','T','1','2',':','1','7',':','2','\u{e9}','Z'])
                == Err::<UtcDateTime, ParseUtcDateTimeError>(ParseUtcDateTimeError::InvalidFormat),
            parse_oracle(Seq::<char>::empty()) == Err::<UtcDateTime, ParseUtcDateTimeError>(ParseUtcDateTimeError::InvalidFormat),
    {
        let t = seq!['2','0','2','3','-','0','1','-','2','7','T','1','2',':','1','7',':','2','\u{e9}','Z'];
        assert(t[18] as u32 == 0xe9);
        assert(!is_ascii_chars(t));
    }
}
} // verus!
fn main() {}
