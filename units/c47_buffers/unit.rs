// Unit c47_buffers -- property C47 "Host memory access from WASM is always bounds-checked"
// Gap-filling unit: the host-side buffer table and the host functions that move bytes between it and
// the program's linear memory.
// Real code: radix-engine/src/vm/wasm_runtime/scrypto_runtime.rs :: <ScryptoRuntime as WasmRuntime>::{allocate_buffer, buffer_consume}
//            radix-engine/src/vm/wasm/wasmi.rs :: consume_buffer, call_method, new_object, new_key_value_store,
//                                                  read_memory / write_memory (callees, re-verified at the instances used), macro grab_memory!
//            radix-engine-interface/src/types/wasm.rs :: Buffer::{new, id, len}
// The wasmi model (Store, Memory, contexts) is the one of unit c47_wasm_memory; `Memory::write` REQUIRES
// offset + len <= size, so a missing or wrong bounds check on the path to it is a failed precondition.
use vstd::prelude::*;

// `grab_runtime!` in /repo is `unsafe { &mut *$caller.data().runtime_ptr.assume_init() }` (a raw pointer to the
// `Box<dyn WasmRuntime>` installed by WasmiInstance::invoke_export).  Neither the raw-pointer dereference nor
// `dyn` can be expressed in Verus; the macro is RE-DEFINED here (environment) as a call to an assumed accessor
// returning an exclusive reference (of unconstrained lifetime, as in the original) to the installed runtime.
macro_rules! grab_runtime {
    ($caller: expr) => {{
        crate::env::grab_runtime_ptr(&$caller)
    }};
}

verus! {
// the engine runs on 64-bit hosts; on a 32-bit host `ptr as usize + len as usize` could overflow (stated assumption)
global size_of usize == 8;
/*@include shims/rt.rs @*/
/*@include shims/bytes.rs @*/
/*@include shims/maps.rs @*/

pub mod env {
    use vstd::prelude::*;
    use super::unit::{Buffer, InvokeError, WasmRuntimeError};
    // ---- wasmi 0.39 model (same as unit c47_wasm_memory) -------------------------------------
    /// `wasmi::Memory`: a copyable handle to a linear memory owned by a store
    #[derive(Clone, Copy)]
    pub struct Memory { pub id: usize }
    /// the store's contents, opaque except for the bytes of each linear memory
    #[verifier::external_body]
    pub struct StoreInner { _p: () }
    impl StoreInner {
        pub uninterp spec fn mem(&self, m: Memory) -> Seq<u8>;
    }
    pub struct StoreContext<'a> { pub store: &'a StoreInner }
    pub struct StoreContextMut<'a> { pub store: &'a mut StoreInner }
    /// ASSUMED: the context returned is a borrow of the same store
    pub trait AsContext {
        spec fn inner(&self) -> StoreInner;
        fn as_context(&self) -> (r: StoreContext<'_>) ensures *r.store == self.inner();
    }
    pub trait AsContextMut: AsContext {
        fn as_context_mut(&mut self) -> (r: StoreContextMut<'_>)
            ensures *r.store == old(self).inner(), *final(r.store) == final(self).inner();
    }
    pub trait DataCtx<'a> {
        spec fn mem_of(&self, m: Memory) -> Seq<u8>;
        #[verifier::prophetic]
        spec fn untouched(&self) -> bool;
    }
    impl<'a, 'b> DataCtx<'a> for &'a StoreContext<'b> {
        open spec fn mem_of(&self, m: Memory) -> Seq<u8> { self.store.mem(m) }
        #[verifier::prophetic]
        open spec fn untouched(&self) -> bool { true }
    }
    impl<'a, 'b> DataCtx<'a> for &'a mut StoreContextMut<'b> {
        open spec fn mem_of(&self, m: Memory) -> Seq<u8> { self.store.mem(m) }
        #[verifier::prophetic]
        open spec fn untouched(&self) -> bool { *final(*self) == **self }
    }
    impl<'a> AsContext for StoreContextMut<'a> {
        open spec fn inner(&self) -> StoreInner { *self.store }
        fn as_context(&self) -> (r: StoreContext<'_>) { StoreContext { store: &*self.store } }
    }
    impl<'a> AsContextMut for StoreContextMut<'a> {
        fn as_context_mut(&mut self) -> (r: StoreContextMut<'_>)
            ensures *final(final(self).store) == *final(old(self).store)
        { StoreContextMut { store: &mut *self.store } }
    }
    pub struct MemoryError;
    impl Memory {
        /// ASSUMED (wasmi `Memory::data`): the whole linear memory as a byte slice
        #[verifier::external_body]
        pub fn data<'a, C: DataCtx<'a>>(&self, ctx: C) -> (r: &'a [u8])
            ensures r@ == ctx.mem_of(*self), ctx.untouched()
        { unimplemented!() }
        /// ASSUMED (wasmi `Memory::data_mut`): the whole linear memory as a mutable byte slice; what is written
        /// through the slice is what happens to this memory, nothing else changes.  Not used by the shipped
        /// code: present so that a rewrite of write_memory through it is DECIDED instead of being an unknown method.
        #[verifier::external_body]
        pub fn data_mut<'a, 'b>(&self, ctx: &'a mut StoreContextMut<'b>) -> (r: &'a mut [u8])
            ensures r@ == old(ctx).store.mem(*self),
                final(ctx).store.mem(*self) == final(r)@,
                final(r)@ == r@ ==> *final(ctx).store == *old(ctx).store,
                forall|m: Memory| m != *self ==> final(ctx).store.mem(m) == old(ctx).store.mem(m),
                *final(final(ctx).store) == *final(old(ctx).store),
        { unimplemented!() }
        /// ASSUMED (wasmi `Memory::write`), deliberately with the bounds as a PRECONDITION.
        #[verifier::external_body]
        pub fn write(&self, ctx: &mut StoreContextMut<'_>, offset: usize, buffer: &[u8]) -> (r: Result<(), MemoryError>)
            requires offset + buffer@.len() <= old(ctx).store.mem(*self).len()
            ensures r is Ok,
                final(ctx).store.mem(*self) == old(ctx).store.mem(*self).subrange(0, offset as int) + buffer@
                    + old(ctx).store.mem(*self).subrange(offset + buffer@.len(), old(ctx).store.mem(*self).len() as int),
                forall|m: Memory| m != *self ==> final(ctx).store.mem(m) == old(ctx).store.mem(m),
                *final(final(ctx).store) == *final(old(ctx).store),
        { unimplemented!() }
    }

    // ---- wasmi::Caller, host state, exports ------------------------------------------------------
    /// radix-engine/src/vm/wasm/wasmi.rs :: struct WasmiInstanceEnv (holds the raw runtime pointer; opaque here)
    pub struct WasmiInstanceEnv;
    pub struct Global; pub struct Table; pub struct Func;
    /// `wasmi::Extern`
    pub enum Extern { Global(Global), Table(Table), Memory(Memory), Func(Func) }
    /// `wasmi::Caller<'a, T>`: the store seen from inside a host function
    pub struct Caller<'a, T> { pub store: &'a mut StoreInner, pub host: &'a T }
    impl<'a, T> Caller<'a, T> {
        /// the module instance's export called "memory" (EXPORT_MEMORY); a property of the instance, not of the store contents
        pub open spec fn memory(&self) -> Memory { instance_memory(*self.host) }
        /// ASSUMED (module validation, InvalidMemory::MemoryNotExported): the instance exports its linear
        /// memory under EXPORT_MEMORY -- the only name this is called with; so grab_memory! never panics.
        #[verifier::external_body]
        pub fn get_export(&self, name: &str) -> (r: Option<Extern>)
            ensures r == Some(Extern::Memory(self.memory()))
        { unimplemented!() }
        /// the runtime installed behind `data().runtime_ptr` (lives outside the store)
        pub open spec fn runtime(&self) -> AnyRuntime { installed_runtime(*self.host) }
    }
    pub uninterp spec fn instance_memory<T>(host: T) -> Memory;
    pub uninterp spec fn installed_runtime<T>(host: T) -> AnyRuntime;
    impl<'a, T> AsContext for Caller<'a, T> {
        open spec fn inner(&self) -> StoreInner { *self.store }
        fn as_context(&self) -> (r: StoreContext<'_>) { StoreContext { store: &*self.store } }
    }
    impl<'a, T> AsContextMut for Caller<'a, T> {
        fn as_context_mut(&mut self) -> (r: StoreContextMut<'_>)
            ensures *final(final(self).store) == *final(old(self).store),
                    final(self).memory() == old(self).memory(), final(self).runtime() == old(self).runtime(),
        { StoreContextMut { store: &mut *self.store } }
    }
    /// what `grab_runtime!` yields (see the macro at the top of this file)
    #[verifier::external_body]
    pub fn grab_runtime_ptr<'r, 'a, T>(caller: &Caller<'a, T>) -> (r: &'r mut AnyRuntime)
        ensures *r == caller.runtime()
    { unimplemented!() }

    // ---- the runtime behind the pointer ----------------------------------------------------------
    pub type BufferId = u32;
    /// radix-engine/src/vm/wasm/traits.rs :: trait WasmRuntime, REDUCED to its two buffer methods and given the
    /// contract the property demands of a buffer table (written from the property, proved for ScryptoRuntime
    /// in `unit`, assumed for the opaque `Box<dyn WasmRuntime>` that host functions see):
    ///  * ids are handed out fresh and monotonically, at most `max_buffers` buffers are open,
    ///  * consuming returns exactly the stored bytes and removes the entry (a second consume fails).
    pub trait WasmRuntime: Sized {
        spec fn buffers(&self) -> Map<BufferId, Vec<u8>>;
        spec fn next_id(&self) -> BufferId;
        spec fn max_buffers(&self) -> nat;

        fn allocate_buffer(&mut self, buffer: Vec<u8>) -> (ret: Result<Buffer, InvokeError<WasmRuntimeError>>)
            requires
                table_wf(old(self).buffers(), old(self).next_id(), old(self).max_buffers()),
                buffer@.len() <= 0xffffffff,          // the assert! in the real code (host buffers are < 4 GiB)
                old(self).next_id() < u32::MAX,       // 2^32 allocations in one invocation (no overflow of the id counter)
            ensures
                ret is Ok <==> old(self).buffers().dom().len() < old(self).max_buffers(),
                ret matches Ok(b) ==> {
                    &&& super::unit::buffer_id(b) == old(self).next_id()
                    &&& super::unit::buffer_len(b) == buffer@.len()
                    &&& !old(self).buffers().contains_key(old(self).next_id())
                    &&& final(self).buffers() == old(self).buffers().insert(old(self).next_id(), buffer)
                    &&& final(self).next_id() == old(self).next_id() + 1
                },
                ret matches Err(e) ==> {
                    &&& e == InvokeError::SelfError(WasmRuntimeError::TooManyBuffers)
                    &&& final(self).buffers() == old(self).buffers()
                    &&& final(self).next_id() == old(self).next_id()
                },
                final(self).max_buffers() == old(self).max_buffers(),
                table_wf(final(self).buffers(), final(self).next_id(), final(self).max_buffers());

        fn buffer_consume(&mut self, buffer_id: BufferId) -> (ret: Result<Vec<u8>, InvokeError<WasmRuntimeError>>)
            ensures
                ret == (if old(self).buffers().contains_key(buffer_id) { Ok::<Vec<u8>, InvokeError<WasmRuntimeError>>(old(self).buffers()[buffer_id]) }
                        else { Err(InvokeError::SelfError(WasmRuntimeError::BufferNotFound(buffer_id))) }),
                final(self).buffers() == old(self).buffers().remove(buffer_id),
                final(self).next_id() == old(self).next_id(),
                final(self).max_buffers() == old(self).max_buffers(),
                table_wf(old(self).buffers(), old(self).next_id(), old(self).max_buffers()) ==> table_wf(final(self).buffers(), final(self).next_id(), final(self).max_buffers());
    }
    /// table invariant: every open id was handed out earlier; the table respects its bound
    /// (takes the three observables rather than `&impl WasmRuntime`: a trait contract may not mention a
    /// function that is generic over the trait)
    pub open spec fn table_wf(buffers: Map<BufferId, Vec<u8>>, next_id: BufferId, max_buffers: nat) -> bool {
        &&& forall|id: BufferId| buffers.contains_key(id) ==> id < next_id
        &&& forall|id: BufferId| buffers.contains_key(id) ==> (#[trigger] buffers[id])@.len() <= 0xffffffff
        &&& buffers.dom().len() <= max_buffers
    }

    /// `Box<dyn WasmRuntime>`: some implementation of the trait; the non-buffer methods used by the host
    /// functions under contract are inherent methods here.  ASSUMED: each is a function of the runtime's
    /// pre-state and of the byte strings passed (that is how the contracts below observe WHICH bytes a
    /// host function handed over).
    #[verifier::external_body]
    pub struct AnyRuntime { _p: () }
    impl AnyRuntime {
        pub uninterp spec fn buffers_spec(&self) -> Map<BufferId, Vec<u8>>;
        pub uninterp spec fn next_id_spec(&self) -> BufferId;
        pub uninterp spec fn max_buffers_spec(&self) -> nat;
        pub uninterp spec fn object_call_spec(&self, receiver: Seq<u8>, ident: Seq<u8>, args: Seq<u8>) -> Result<Buffer, InvokeError<WasmRuntimeError>>;
        pub uninterp spec fn object_new_spec(&self, blueprint_name: Seq<u8>, object_states: Seq<u8>) -> Result<Buffer, InvokeError<WasmRuntimeError>>;
        pub uninterp spec fn key_value_store_new_spec(&self, schema: Seq<u8>) -> Result<Buffer, InvokeError<WasmRuntimeError>>;
        #[verifier::external_body]
        pub fn object_call(&mut self, receiver: Vec<u8>, ident: Vec<u8>, args: Vec<u8>) -> (r: Result<Buffer, InvokeError<WasmRuntimeError>>)
            ensures r == old(self).object_call_spec(receiver@, ident@, args@)
        { unimplemented!() }
        #[verifier::external_body]
        pub fn object_new(&mut self, blueprint_name: Vec<u8>, object_states: Vec<u8>) -> (r: Result<Buffer, InvokeError<WasmRuntimeError>>)
            ensures r == old(self).object_new_spec(blueprint_name@, object_states@)
        { unimplemented!() }
        #[verifier::external_body]
        pub fn key_value_store_new(&mut self, schema: Vec<u8>) -> (r: Result<Buffer, InvokeError<WasmRuntimeError>>)
            ensures r == old(self).key_value_store_new_spec(schema@)
        { unimplemented!() }
    }
    impl WasmRuntime for AnyRuntime {
        open spec fn buffers(&self) -> Map<BufferId, Vec<u8>> { self.buffers_spec() }
        open spec fn next_id(&self) -> BufferId { self.next_id_spec() }
        open spec fn max_buffers(&self) -> nat { self.max_buffers_spec() }
        #[verifier::external_body]
        fn allocate_buffer(&mut self, buffer: Vec<u8>) -> (ret: Result<Buffer, InvokeError<WasmRuntimeError>>) { unimplemented!() }
        #[verifier::external_body]
        fn buffer_consume(&mut self, buffer_id: BufferId) -> (ret: Result<Vec<u8>, InvokeError<WasmRuntimeError>>) { unimplemented!() }
    }

    use super::unit::ScryptoVmVersion;
    // ASSUMED: the derived PartialOrd on the fieldless enum orders the variants by declaration order.
    pub open spec fn version_rank(v: ScryptoVmVersion) -> int {
        match v { super::unit::ScryptoVmVersion::V1_0 => 0, super::unit::ScryptoVmVersion::V1_1 => 1, super::unit::ScryptoVmVersion::V1_2 => 2 }
    }
    impl PartialEq for ScryptoVmVersion {
        #[verifier::external_body]
        fn eq(&self, o: &ScryptoVmVersion) -> (r: bool) ensures r == (*self == *o) { unimplemented!() }
    }
    impl vstd::std_specs::cmp::PartialEqSpecImpl for ScryptoVmVersion {
        open spec fn obeys_eq_spec() -> bool { true }
        open spec fn eq_spec(&self, o: &ScryptoVmVersion) -> bool { *self == *o }
    }
    impl PartialOrd for ScryptoVmVersion {
        #[verifier::external_body]
        fn partial_cmp(&self, o: &ScryptoVmVersion) -> (r: Option<core::cmp::Ordering>)
            ensures r == Some(if version_rank(*self) < version_rank(*o) { core::cmp::Ordering::Less } else if version_rank(*self) == version_rank(*o) { core::cmp::Ordering::Equal } else { core::cmp::Ordering::Greater })
        { unimplemented!() }
    }
    impl vstd::std_specs::cmp::PartialOrdSpecImpl for ScryptoVmVersion {
        open spec fn obeys_partial_cmp_spec() -> bool { true }
        open spec fn partial_cmp_spec(&self, o: &ScryptoVmVersion) -> Option<core::cmp::Ordering> {
            Some(if version_rank(*self) < version_rank(*o) { core::cmp::Ordering::Less } else if version_rank(*self) == version_rank(*o) { core::cmp::Ordering::Equal } else { core::cmp::Ordering::Greater })
        }
    }
    // ---- error / system environment ------------------------------------------------------------
    pub struct RuntimeError;
    /// radix-engine/src/errors.rs :: trait SelfError
    pub trait SelfError: Sized {
        fn into_runtime_error(self) -> RuntimeError;
    }
    // payload types of WasmRuntimeError variants never constructed here (opaque)
    pub struct DecodeError;
    pub struct FeeReserveError;
    pub struct ParseEd25519PublicKeyError;
    pub struct ParseEd25519SignatureError;
    pub struct ParseSecp256k1PublicKeyError;
    pub struct ParseSecp256k1SignatureError;
    pub struct ParseHashError;
    /// radix-engine-interface :: trait SystemApi<E> (ScryptoRuntime only stores the reference; opaque)
    pub trait SystemApi<E> {}
    pub struct PackageAddress;
}

pub mod unit {
    use vstd::prelude::*;
    use super::rt::*;
    use super::bytes::*;
    use super::maps::*;
    use super::env::*;

    /*@item radix-engine/src/errors.rs :: enum InvokeError
    @derive
    @*/
    /*@item radix-engine/src/vm/wasm/errors.rs :: enum WasmRuntimeError
    @derive
    @*/
    impl SelfError for WasmRuntimeError {
        #[verifier::external_body]
        fn into_runtime_error(self) -> RuntimeError { unimplemented!() }
    }
    /*@item radix-engine-interface/src/types/wasm.rs :: struct Buffer
    @derive
    @*/
    /*@item radix-engine/src/vm/versions.rs :: enum ScryptoVmVersion
    @derive Clone, Copy
    @*/
    /*@item radix-engine/src/vm/wasm_runtime/scrypto_runtime.rs :: struct ScryptoRuntime
    @*/

    // ==============================================================================================
    // ORACLE
    // ==============================================================================================
    /// the fat value handed to WASM: id in bits 63..32, length in bits 31..0
    pub open spec fn buffer_id(b: Buffer) -> u32 { (b.0 >> 32) as u32 }
    pub open spec fn buffer_len(b: Buffer) -> u32 { (b.0 & 0xffffffff) as u32 }
    /// documented bound on simultaneously open host buffers: 32 before Cuttlefish (VM 1.0 / 1.1), 4 from VM 1.2
    pub open spec fn max_host_buffer_count(v: ScryptoVmVersion) -> nat {
        match v { ScryptoVmVersion::V1_2 => 4, _ => 32 }
    }
    pub open spec fn in_range(mem: Seq<u8>, ptr: int, len: int) -> bool { ptr + len <= mem.len() }
    pub open spec fn access_error() -> InvokeError<WasmRuntimeError> { InvokeError::SelfError(WasmRuntimeError::MemoryAccessError) }
    pub open spec fn read_result(mem: Seq<u8>, ptr: int, len: int, ret: Result<Vec<u8>, InvokeError<WasmRuntimeError>>) -> bool {
        &&& (ret is Ok <==> in_range(mem, ptr, len))
        &&& (ret matches Ok(v) ==> v@ =~= mem.subrange(ptr, ptr + len))
        &&& (ret matches Err(e) ==> e == access_error())
    }
    /// what a successful write does to the linear memory: exactly [ptr, ptr+len) is replaced by `data`
    pub open spec fn written(mem: Seq<u8>, ptr: int, data: Seq<u8>) -> Seq<u8> {
        mem.subrange(0, ptr) + data + mem.subrange(ptr + data.len(), mem.len() as int)
    }
    pub open spec fn fat(r: Result<Buffer, InvokeError<WasmRuntimeError>>) -> Result<u64, InvokeError<WasmRuntimeError>> {
        match r { Ok(b) => Ok(b.0), Err(e) => Err(e) }
    }

    impl Buffer {
        /*@fn radix-engine-interface/src/types/wasm.rs :: impl Buffer :: fn new
        @sig
            ensures buffer_id(ret) == id, buffer_len(ret) == len
        @entry
            proof {
                assert(((((id as u64) << 32) | (len as u64)) >> 32) as u32 == id) by (bit_vector);
                assert(((((id as u64) << 32) | (len as u64)) & 0xffffffff) as u32 == len) by (bit_vector);
            }
        @*/
        /*@fn radix-engine-interface/src/types/wasm.rs :: impl Buffer :: fn id
        @sig
            ensures ret == buffer_id(*self)
        @*/
        /*@fn radix-engine-interface/src/types/wasm.rs :: impl Buffer :: fn len
        @sig
            ensures ret == buffer_len(*self)
        @*/
    }

    impl ScryptoVmVersion {
        /*@fn radix-engine/src/vm/versions.rs :: impl ScryptoVmVersion :: fn cuttlefish
        @sig
            ensures ret == ScryptoVmVersion::V1_2
        @*/
    }
    impl<'y, Y: SystemApi<RuntimeError>> ScryptoRuntime<'y, Y> {
        /*@fn radix-engine/src/vm/wasm_runtime/scrypto_runtime.rs :: impl<'y, Y: SystemApi<RuntimeError>> ScryptoRuntime<'y, Y> :: fn new
        @sig
            ensures
                // a fresh runtime has an empty buffer table: the table invariant holds initially
                ret.buffers() == Map::<BufferId, Vec<u8>>::empty(), ret.next_id() == 0,
                ret.max_buffers() == max_host_buffer_count(scrypto_vm_version),
                table_wf(ret.buffers(), ret.next_id(), ret.max_buffers()),
        @*/
    }

    // ---- the buffer table of the real runtime meets the trait contract (bodies verbatim) -----------
    impl<'y, Y: SystemApi<RuntimeError>> WasmRuntime for ScryptoRuntime<'y, Y> {
        open spec fn buffers(&self) -> Map<BufferId, Vec<u8>> { self.buffers@ }
        open spec fn next_id(&self) -> BufferId { self.next_buffer_id }
        open spec fn max_buffers(&self) -> nat { max_host_buffer_count(self.scrypto_vm_version) }

        /*@fn radix-engine/src/vm/wasm_runtime/scrypto_runtime.rs :: impl<'y, Y: SystemApi<RuntimeError>> WasmRuntime for ScryptoRuntime<'y, Y> :: fn allocate_buffer
        @*/
        /*@fn radix-engine/src/vm/wasm_runtime/scrypto_runtime.rs :: impl<'y, Y: SystemApi<RuntimeError>> WasmRuntime for ScryptoRuntime<'y, Y> :: fn buffer_consume
        @*/
    }

    /// consequences of the trait contract, for EVERY WasmRuntime: a consumed id is gone
    pub fn consume_twice<R: WasmRuntime>(rt: &mut R, id: BufferId) -> (r: Result<Vec<u8>, InvokeError<WasmRuntimeError>>)
        ensures r matches Err(e) && e == InvokeError::SelfError(WasmRuntimeError::BufferNotFound(id))
    {
        let _first = rt.buffer_consume(id);
        rt.buffer_consume(id)
    }
    /// ... and an allocated buffer is read back exactly, under a fresh id, once
    pub fn allocate_then_consume<R: WasmRuntime>(rt: &mut R, bytes: Vec<u8>) -> (r: Option<Vec<u8>>)
        requires table_wf(old(rt).buffers(), old(rt).next_id(), old(rt).max_buffers()), bytes@.len() <= 0xffffffff, old(rt).next_id() < u32::MAX,
        ensures
            r is Some <==> old(rt).buffers().dom().len() < old(rt).max_buffers(),
            r matches Some(v) ==> v == bytes,
            final(rt).buffers() == old(rt).buffers(),
            r is Some ==> final(rt).next_id() > old(rt).next_id(),
    {
        match rt.allocate_buffer(bytes) {
            Ok(b) => {
                let ghost mid = rt.buffers();
                match rt.buffer_consume(b.id()) {
                    Ok(v) => {
                        proof { assert(rt.buffers() =~= old(rt).buffers()); }
                        Some(v)
                    }
                    Err(_) => { proof { assert(false); } None }
                }
            }
            Err(_) => None,
        }
    }

    // ---- memory primitives at the instances the host functions use ----------------------------------
    // (the generic originals are verified in unit c47_wasm_memory; a postcondition cannot speak about the store
    //  behind a by-value generic handle, so the SAME bodies are verified at the argument types that occur)
    /*@item radix-engine/src/vm/wasm/wasmi.rs :: macro grab_memory
    @*/
    // `pub const EXPORT_MEMORY: &str = "memory";` -- the initialiser is read from /repo; Verus needs the explicit 'static
    pub const EXPORT_MEMORY: &'static str = /*@expr-after radix-engine/src/vm/wasm/constants.rs :: const EXPORT_MEMORY :: <<&str =>> @*/;
    /*@item radix-engine/src/vm/wasm/wasmi.rs :: type HostState
    @*/

    pub mod at_caller {
        use vstd::prelude::*;
        use super::super::rt::*;
        use super::super::env::*;
        use super::*;
        /*@fn radix-engine/src/vm/wasm/wasmi.rs :: fn write_memory
        @subst <<store: impl AsContextMut>> => <<store: Caller<'_, HostState>>> why: monomorphic instance of the generic parameter (consume_buffer passes its Caller by value); only the parameter type is changed, the body is verbatim; the generic original is verified in unit c47_wasm_memory
        @sig
            requires data@.len() <= isize::MAX
            ensures
                ret is Ok <==> in_range(old(store.store).mem(memory), ptr as int, data@.len() as int),
                ret matches Err(e) ==> e == access_error(),
                ret is Ok ==> final(store.store).mem(memory) == written(old(store.store).mem(memory), ptr as int, data@),
                ret is Ok ==> forall|m: Memory| m != memory ==> final(store.store).mem(m) == old(store.store).mem(m),
                ret is Err ==> *final(store.store) == *old(store.store),
        @closure? 1 := |_e: MemoryError| -> (r: InvokeError<WasmRuntimeError>) ensures r == access_error()
        @*/

        /*@fn radix-engine/src/vm/wasm/wasmi.rs :: fn consume_buffer
        @sig
            requires
                // invariant of the runtime's buffer table (established empty by ScryptoRuntime::new, preserved by both operations)
                table_wf(caller.runtime().buffers(), caller.runtime().next_id(), caller.runtime().max_buffers()),
            ensures
                // unknown (or already consumed) buffer: refused, memory untouched
                !caller.runtime().buffers().contains_key(buffer_id) ==>
                    ret == Err::<(), InvokeError<WasmRuntimeError>>(InvokeError::SelfError(WasmRuntimeError::BufferNotFound(buffer_id)))
                    && *final(caller.store) == *old(caller.store),
                caller.runtime().buffers().contains_key(buffer_id) ==> {
                    let bytes = caller.runtime().buffers()[buffer_id]@;
                    let mem0 = old(caller.store).mem(caller.memory());
                    // served iff the destination range [destination_ptr, destination_ptr + |buffer|) is inside the linear memory
                    &&& (ret is Ok <==> in_range(mem0, destination_ptr as int, bytes.len() as int))
                    // exactly the buffer's bytes, all of them, at destination_ptr; nothing else changes
                    &&& (ret is Ok ==> final(caller.store).mem(caller.memory()) == written(mem0, destination_ptr as int, bytes))
                    &&& (ret is Ok ==> forall|m: Memory| m != caller.memory() ==> final(caller.store).mem(m) == old(caller.store).mem(m))
                    &&& (ret matches Err(e) ==> e == access_error() && *final(caller.store) == *old(caller.store))
                },
        @*/
    }

    pub mod at_ctx {
        use vstd::prelude::*;
        use super::super::rt::*;
        use super::super::bytes::*;
        use super::super::env::*;
        use super::*;
        /*@fn radix-engine/src/vm/wasm/wasmi.rs :: fn read_memory
        @subst <<store: impl AsContextMut>> => <<store: StoreContextMut<'_>>> why: monomorphic instance of the generic parameter (every host function passes caller.as_context_mut()); only the parameter type is changed, the body is verbatim; the generic original is verified in unit c47_wasm_memory
        @sig
            ensures read_result(old(store.store).mem(memory), ptr as int, len as int, ret),
                    *final(store.store) == *old(store.store),
        @*/

        /// all three (ptr, len) pairs of call_method lie inside the linear memory
        pub open spec fn call_method_in_range(mem: Seq<u8>, rp: u32, rl: u32, ip: u32, il: u32, ap: u32, al: u32) -> bool {
            in_range(mem, rp as int, rl as int) && in_range(mem, ip as int, il as int) && in_range(mem, ap as int, al as int)
        }
        /*@fn radix-engine/src/vm/wasm/wasmi.rs :: fn call_method
        @sig
            ensures
                ({
                    let mem = old(caller.store).mem(caller.memory());
                    &&& !call_method_in_range(mem, receiver_ptr, receiver_len, ident_ptr, ident_len, args_ptr, args_len)
                            ==> (ret matches Err(e) && e == access_error())
                    &&& call_method_in_range(mem, receiver_ptr, receiver_len, ident_ptr, ident_len, args_ptr, args_len)
                            ==> ret == fat(caller.runtime().object_call_spec(
                                    mem.subrange(receiver_ptr as int, receiver_ptr + receiver_len),
                                    mem.subrange(ident_ptr as int, ident_ptr + ident_len),
                                    mem.subrange(args_ptr as int, args_ptr + args_len)))
                }),
                *final(caller.store) == *old(caller.store),
        @closure 1 := |buffer: Buffer| -> (r: u64) ensures r == buffer.0
        @*/

        /*@fn radix-engine/src/vm/wasm/wasmi.rs :: fn new_object
        @sig
            ensures
                ({
                    let mem = old(caller.store).mem(caller.memory());
                    let ok = in_range(mem, blueprint_name_ptr as int, blueprint_name_len as int) && in_range(mem, object_states_ptr as int, object_states_len as int);
                    &&& !ok ==> (ret matches Err(e) && e == access_error())
                    &&& ok ==> ret == fat(caller.runtime().object_new_spec(
                                    mem.subrange(blueprint_name_ptr as int, blueprint_name_ptr + blueprint_name_len),
                                    mem.subrange(object_states_ptr as int, object_states_ptr + object_states_len)))
                }),
                *final(caller.store) == *old(caller.store),
        @closure 1 := |buffer: Buffer| -> (r: u64) ensures r == buffer.0
        @*/

        /*@fn radix-engine/src/vm/wasm/wasmi.rs :: fn new_key_value_store
        @sig
            ensures
                ({
                    let mem = old(caller.store).mem(caller.memory());
                    let ok = in_range(mem, schema_id_ptr as int, schema_id_len as int);
                    &&& !ok ==> (ret matches Err(e) && e == access_error())
                    &&& ok ==> ret == fat(caller.runtime().key_value_store_new_spec(mem.subrange(schema_id_ptr as int, schema_id_ptr + schema_id_len)))
                }),
                *final(caller.store) == *old(caller.store),
        @closure 1 := |buffer: Buffer| -> (r: u64) ensures r == buffer.0
        @*/
    }
}
} // verus!
fn main() {}
