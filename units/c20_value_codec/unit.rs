// Unit c20_value_codec -- property C20 "SBOR values round-trip and have a unique encoding" (the generic Value codec)
// Real code (bodies extracted verbatim):
//   sbor/src/value.rs      enum Value, Value::get_value_kind, the bodies of `impl Encode for Value`::{encode_value_kind, encode_body}
//                          and `impl Decode for Value`::decode_body_with_value_kind (placed in an inherent impl, see below)
//   sbor/src/encoder.rs    provided methods Encoder::{encode, write_value_kind, write_discriminator, write_size},
//                          VecEncoder::{new, track_stack_depth_increase, track_stack_depth_decrease},
//                          <VecEncoder as Encoder>::{encode_deeper_body, write_byte}
//   sbor/src/decoder.rs    provided methods Decoder::{decode, read_value_kind, read_discriminator, read_size, check_preloaded_value_kind},
//                          VecDecoder::{new, require_remaining, remaining_bytes, track_stack_depth_increase, track_stack_depth_decrease},
//                          <VecDecoder as Decoder>::{decode_deeper_body_with_value_kind, read_byte}
//   sbor/src/value_kind.rs enum ValueKind, ValueKind::{as_u8, from_u8}
//   sbor/src/codec/{boolean.rs, integer.rs}   Encode + Decode for bool / u8
//   radix-common/src/data/{scrypto,manifest}/custom_value_kind.rs   the two CustomValueKind impls (+ the law as_u8/from_u8 inverse)
// METHOD: the recursion of the codec goes through the trait methods encoder.encode(child) / encode_deeper_body(child) /
//   decoder.decode() / decode_deeper_body_with_value_kind(kind), so every function is verified as ONE inductive step against
//   the trait-level contracts of `Encode` / `Decode`, stated over the spec companion trait `Wire` (kind / body / encodable of a
//   value). Verus rejects `impl Encode for Value` calling `encoder.encode::<Value>` (recursion through the trait dictionary):
//   the trait impls for Value are declared in `env` with exactly the trait contract (= induction hypothesis) and the verbatim
//   bodies are verified against the same contract predicates as inherent methods (3 @subst: type parameter moved to the method).
// ORACLE (from the SBOR wire format): enc_body / enc / encodable / height below; leb = LEB128 as in unit c20_size_codec
//   (write_size / read_size are re-proved here with the proof text of that unit, so that no size contract is assumed).
// SPEC-LEVEL THEOREMS on top of the contracts: lemma_reencode_same_bytes (an accepted payload re-encodes to exactly the bytes
//   consumed), lemma_encodable_height (depth), lemma_prefix_free ff. (the format is a prefix-free, injective code) and its
//   corollary lemma_decode_returns_encoded (a decoder that accepts enc_body(v) ++ tail returns v).
// NOT covered: completeness of the decoder (that enc(v) ++ tail IS accepted), the primitive codecs other than bool / u8,
//   String / UTF-8, all custom value codecs, typed (derive-generated) codecs, payload prefix.
use vstd::prelude::*;
verus! {
global size_of usize == 8;
/*@include shims/rt.rs @*/

pub mod env {
    use vstd::prelude::*;
    pub use core::marker::PhantomData;
    use super::unit::{ValueKind, kind_byte, leb};

    /*@item sbor/src/decoder.rs :: enum DecodeError
    @derive Copy, Clone, PartialEq, Eq
    @*/
    /*@item sbor/src/encoder.rs :: enum EncodeError
    @derive Clone, PartialEq, Eq
    @*/

    /// sbor/src/value_kind.rs :: trait CustomValueKind, re-declared with a functional contract and the LAW every
    /// custom extension has to obey (proved below for ScryptoCustomValueKind and ManifestCustomValueKind):
    /// custom kinds live in the extension range 0x80.. and as_u8 / from_u8 are mutually inverse.
    pub trait CustomValueKind: Copy + Clone + PartialEq + Eq {
        spec fn as_u8_spec(&self) -> u8;
        spec fn from_u8_spec(id: u8) -> Option<Self>;
        fn as_u8(&self) -> (r: u8) ensures r == self.as_u8_spec();
        fn from_u8(id: u8) -> (r: Option<Self>) ensures r == Self::from_u8_spec(id);
        proof fn law_as_from(x: Self)
            ensures x.as_u8_spec() >= 0x80, Self::from_u8_spec(x.as_u8_spec()) == Some(x);
        proof fn law_from_as(id: u8)
            ensures Self::from_u8_spec(id) matches Some(y) ==> y.as_u8_spec() == id;
    }

    /// SPEC COMPANION of the codec traits: what the SBOR wire format prescribes for a value of this type.
    pub trait Wire<X: CustomValueKind> {
        /// the value kind announced in front of the body
        spec fn kind(&self) -> ValueKind<X>;
        /// the body bytes
        spec fn body(&self) -> Seq<u8>;
        /// the value can be encoded when `budget` = max_depth - stack_depth levels are left below it
        /// (element kinds consistent, sizes <= 0x0FFF_FFFF, nesting within the depth limit)
        spec fn encodable(&self, budget: int) -> bool;
    }

    /// ghost state of an encoder: bytes written so far, (stack_depth, max_depth)
    pub trait EncoderState: Sized {
        spec fn out(&self) -> Seq<u8>;
        spec fn depths(&self) -> (int, int);
    }
    /// representation invariant of the depth counters (max_depth < usize::MAX is a machine-range assumption)
    pub open spec fn wf_depths(d: (int, int)) -> bool { 0 <= d.0 <= d.1 < usize::MAX }
    pub open spec fn budget(d: (int, int)) -> int { d.1 - d.0 }
    /// a CHILD value can be encoded one level deeper
    pub open spec fn passes<X: CustomValueKind, T: Wire<X> + ?Sized>(v: &T, budget: int) -> bool {
        budget >= 1 && v.encodable(budget - 1)
    }

    /// CONTRACT of `Encode::encode_value_kind`: exactly the kind byte is appended
    pub open spec fn enc_kind_post<X: CustomValueKind, T: Wire<X> + ?Sized>(v: &T, o0: Seq<u8>, d0: (int, int), o1: Seq<u8>, d1: (int, int), ret: Result<(), EncodeError>) -> bool {
        ret is Ok && o1 == o0.push(kind_byte(v.kind())) && d1 == d0
    }
    /// CONTRACT of `Encode::encode_body` (E1 + E2): Ok exactly for encodable values; on Ok exactly the body bytes
    /// are appended and the depth counters are back at their entry values; max_depth never changes.
    pub open spec fn enc_body_post<X: CustomValueKind, T: Wire<X> + ?Sized>(v: &T, o0: Seq<u8>, d0: (int, int), o1: Seq<u8>, d1: (int, int), ret: Result<(), EncodeError>) -> bool {
        &&& d1.1 == d0.1
        &&& ret is Ok <==> v.encodable(budget(d0))
        &&& ret is Ok ==> o1 =~= o0 + v.body() && d1 == d0
    }

    /// sbor/src/encode.rs :: trait Encode. This contract is the INDUCTION HYPOTHESIS for child values; it is
    /// PROVED for Value<X, Y> (as inherent methods), bool, i8, u8 in `unit` and ASSUMED for the
    /// other primitive codecs and for custom values.
    pub trait Encode<X: CustomValueKind, E: EncoderState>: Wire<X> {
        fn encode_value_kind(&self, encoder: &mut E) -> (ret: Result<(), EncodeError>)
            ensures enc_kind_post(self, old(encoder).out(), old(encoder).depths(), final(encoder).out(), final(encoder).depths(), ret);
        fn encode_body(&self, encoder: &mut E) -> (ret: Result<(), EncodeError>)
            requires wf_depths(old(encoder).depths())
            ensures enc_body_post(self, old(encoder).out(), old(encoder).depths(), final(encoder).out(), final(encoder).depths(), ret);
    }
    /// INDUCTION HYPOTHESIS for nested values: `impl Encode for Value<X, Y>` carries exactly the trait contract.
    /// Verus rejects an impl whose method bodies call generic functions instantiated with the impl itself
    /// (recursion through the trait dictionary: encode_body -> encoder.encode::<Value> -> encode_body), so the
    /// VERBATIM bodies of sbor/src/value.rs are verified in `unit` as inherent methods of Value against the same
    /// contract predicates enc_kind_post / enc_body_post -- the usual proof rule for
    /// recursive procedures (partial correctness): assume the contract for the recursive calls, prove the body.
    impl<X: CustomValueKind, E: super::unit::Encoder<X>, Y: Encode<X, E> + CustomValue<X>> Encode<X, E> for super::unit::Value<X, Y> {
        #[verifier::external_body]
        fn encode_value_kind(&self, encoder: &mut E) -> (ret: Result<(), EncodeError>) { unimplemented!() }
        #[verifier::external_body]
        fn encode_body(&self, encoder: &mut E) -> (ret: Result<(), EncodeError>) { unimplemented!() }
    }

    /// ASSUMED (NOT under contract): the codecs of the multi-byte integers (macro-generated by `encode_int!`, via
    /// write_slice + to_le_bytes) and of String (write_size + write_slice of the UTF-8 bytes) in
    /// sbor/src/codec/{integer,string}.rs meet the `Encode` contract for the oracle bodies given in `unit`
    /// (k little-endian bytes, two's complement; leb(len) ++ UTF-8 bytes).
    impl<X: CustomValueKind, E: super::unit::Encoder<X>> Encode<X, E> for i8 {
        #[verifier::external_body]
        fn encode_value_kind(&self, encoder: &mut E) -> (ret: Result<(), EncodeError>) { unimplemented!() }
        #[verifier::external_body]
        fn encode_body(&self, encoder: &mut E) -> (ret: Result<(), EncodeError>) { unimplemented!() }
    }
    impl<X: CustomValueKind, E: super::unit::Encoder<X>> Encode<X, E> for i16 {
        #[verifier::external_body]
        fn encode_value_kind(&self, encoder: &mut E) -> (ret: Result<(), EncodeError>) { unimplemented!() }
        #[verifier::external_body]
        fn encode_body(&self, encoder: &mut E) -> (ret: Result<(), EncodeError>) { unimplemented!() }
    }
    impl<X: CustomValueKind, E: super::unit::Encoder<X>> Encode<X, E> for i32 {
        #[verifier::external_body]
        fn encode_value_kind(&self, encoder: &mut E) -> (ret: Result<(), EncodeError>) { unimplemented!() }
        #[verifier::external_body]
        fn encode_body(&self, encoder: &mut E) -> (ret: Result<(), EncodeError>) { unimplemented!() }
    }
    impl<X: CustomValueKind, E: super::unit::Encoder<X>> Encode<X, E> for i64 {
        #[verifier::external_body]
        fn encode_value_kind(&self, encoder: &mut E) -> (ret: Result<(), EncodeError>) { unimplemented!() }
        #[verifier::external_body]
        fn encode_body(&self, encoder: &mut E) -> (ret: Result<(), EncodeError>) { unimplemented!() }
    }
    impl<X: CustomValueKind, E: super::unit::Encoder<X>> Encode<X, E> for i128 {
        #[verifier::external_body]
        fn encode_value_kind(&self, encoder: &mut E) -> (ret: Result<(), EncodeError>) { unimplemented!() }
        #[verifier::external_body]
        fn encode_body(&self, encoder: &mut E) -> (ret: Result<(), EncodeError>) { unimplemented!() }
    }
    impl<X: CustomValueKind, E: super::unit::Encoder<X>> Encode<X, E> for u16 {
        #[verifier::external_body]
        fn encode_value_kind(&self, encoder: &mut E) -> (ret: Result<(), EncodeError>) { unimplemented!() }
        #[verifier::external_body]
        fn encode_body(&self, encoder: &mut E) -> (ret: Result<(), EncodeError>) { unimplemented!() }
    }
    impl<X: CustomValueKind, E: super::unit::Encoder<X>> Encode<X, E> for u32 {
        #[verifier::external_body]
        fn encode_value_kind(&self, encoder: &mut E) -> (ret: Result<(), EncodeError>) { unimplemented!() }
        #[verifier::external_body]
        fn encode_body(&self, encoder: &mut E) -> (ret: Result<(), EncodeError>) { unimplemented!() }
    }
    impl<X: CustomValueKind, E: super::unit::Encoder<X>> Encode<X, E> for u64 {
        #[verifier::external_body]
        fn encode_value_kind(&self, encoder: &mut E) -> (ret: Result<(), EncodeError>) { unimplemented!() }
        #[verifier::external_body]
        fn encode_body(&self, encoder: &mut E) -> (ret: Result<(), EncodeError>) { unimplemented!() }
    }
    impl<X: CustomValueKind, E: super::unit::Encoder<X>> Encode<X, E> for u128 {
        #[verifier::external_body]
        fn encode_value_kind(&self, encoder: &mut E) -> (ret: Result<(), EncodeError>) { unimplemented!() }
        #[verifier::external_body]
        fn encode_body(&self, encoder: &mut E) -> (ret: Result<(), EncodeError>) { unimplemented!() }
    }
    impl<X: CustomValueKind, E: super::unit::Encoder<X>> Encode<X, E> for String {
        #[verifier::external_body]
        fn encode_value_kind(&self, encoder: &mut E) -> (ret: Result<(), EncodeError>) { unimplemented!() }
        #[verifier::external_body]
        fn encode_body(&self, encoder: &mut E) -> (ret: Result<(), EncodeError>) { unimplemented!() }
    }


    // ---- decoder side ------------------------------------------------------------------------------
    /// the bytes not yet consumed
    pub open spec fn rest_of(input: Seq<u8>, pos: int) -> Seq<u8> { input.subrange(pos, input.len() as int) }
    /// `a` is a prefix of `b`
    pub open spec fn is_prefix(a: Seq<u8>, b: Seq<u8>) -> bool {
        a.len() <= b.len() && forall|j: int| 0 <= j < a.len() ==> a[j] == b[j]
    }
    /// representation invariant of a decoder: read position inside the input, depth within the limit
    pub open spec fn wf_at(input: Seq<u8>, pos: int) -> bool { 0 <= pos <= input.len() }
    pub open spec fn wf_dec(input: Seq<u8>, pos: int, depths: (int, int)) -> bool { wf_at(input, pos) && wf_depths(depths) }

    /// Ghost state of a decoder
    pub trait DecoderState: Sized {
        spec fn input(&self) -> Seq<u8>;
        spec fn pos(&self) -> int;
        /// (stack_depth, max_depth)
        spec fn depths(&self) -> (int, int);
    }
    impl<'de, X: CustomValueKind> DecoderState for super::unit::VecDecoder<'de, X> {
        open spec fn input(&self) -> Seq<u8> { self.input@ }
        open spec fn pos(&self) -> int { self.offset as int }
        open spec fn depths(&self) -> (int, int) { (self.stack_depth as int, self.max_depth as int) }
    }

    /// CONTRACT of `Decode::decode_body_with_value_kind` (D1): on Ok(v) the value has the requested kind, the bytes
    /// consumed are EXACTLY the wire-format body of v (so re-encoding v reproduces them: one encoding per accepted
    /// payload), v is encodable within the same depth budget (element / key / value kinds consistent, sizes in
    /// range, nesting within the limit), the depth counters are back at their entry values; input and max_depth never change.
    pub open spec fn dec_body_post<X: CustomValueKind, T: Wire<X>>(k: ValueKind<X>, i0: Seq<u8>, p0: int, d0: (int, int), i1: Seq<u8>, p1: int, d1: (int, int), ret: Result<T, DecodeError>) -> bool {
        &&& i1 == i0 && d1.1 == d0.1
        &&& ret matches Ok(v) ==> {
            &&& v.kind() == k
            &&& d1 == d0 && p0 <= p1 <= i0.len()
            &&& i0.subrange(p0, p1) =~= v.body()
            &&& v.encodable(budget(d0))
        }
    }
    /// sbor/src/decode.rs :: trait Decode. INDUCTION HYPOTHESIS for child values; PROVED for Value<X, Y> (through the
    /// inherent function), bool, u8 in `unit`; ASSUMED for the other primitive codecs and for custom values.
    pub trait Decode<X: CustomValueKind, D: DecoderState>: Wire<X> + Sized {
        fn decode_body_with_value_kind(decoder: &mut D, value_kind: ValueKind<X>) -> (ret: Result<Self, DecodeError>)
            requires wf_dec(old(decoder).input(), old(decoder).pos(), old(decoder).depths())
            ensures dec_body_post(value_kind, old(decoder).input(), old(decoder).pos(), old(decoder).depths(), final(decoder).input(), final(decoder).pos(), final(decoder).depths(), ret);
    }
    /// INDUCTION HYPOTHESIS for nested values (see the comment on `impl Encode for Value`)
    impl<X: CustomValueKind, D: super::unit::Decoder<X>, Y: Decode<X, D> + CustomValue<X>> Decode<X, D> for super::unit::Value<X, Y> {
        #[verifier::external_body]
        fn decode_body_with_value_kind(decoder: &mut D, value_kind: ValueKind<X>) -> (ret: Result<Self, DecodeError>) { unimplemented!() }
    }
    /// ASSUMED (NOT under contract): the decoders of i8, the multi-byte integers (`decode_int!`, read_slice + from_le_bytes)
    /// and String (read_size + read_slice + String::from_utf8) meet the `Decode` contract for the oracle bodies.
    impl<X: CustomValueKind, D: super::unit::Decoder<X>> Decode<X, D> for i8 {
        #[verifier::external_body]
        fn decode_body_with_value_kind(decoder: &mut D, value_kind: ValueKind<X>) -> (ret: Result<Self, DecodeError>) { unimplemented!() }
    }
    impl<X: CustomValueKind, D: super::unit::Decoder<X>> Decode<X, D> for i16 {
        #[verifier::external_body]
        fn decode_body_with_value_kind(decoder: &mut D, value_kind: ValueKind<X>) -> (ret: Result<Self, DecodeError>) { unimplemented!() }
    }
    impl<X: CustomValueKind, D: super::unit::Decoder<X>> Decode<X, D> for i32 {
        #[verifier::external_body]
        fn decode_body_with_value_kind(decoder: &mut D, value_kind: ValueKind<X>) -> (ret: Result<Self, DecodeError>) { unimplemented!() }
    }
    impl<X: CustomValueKind, D: super::unit::Decoder<X>> Decode<X, D> for i64 {
        #[verifier::external_body]
        fn decode_body_with_value_kind(decoder: &mut D, value_kind: ValueKind<X>) -> (ret: Result<Self, DecodeError>) { unimplemented!() }
    }
    impl<X: CustomValueKind, D: super::unit::Decoder<X>> Decode<X, D> for i128 {
        #[verifier::external_body]
        fn decode_body_with_value_kind(decoder: &mut D, value_kind: ValueKind<X>) -> (ret: Result<Self, DecodeError>) { unimplemented!() }
    }
    impl<X: CustomValueKind, D: super::unit::Decoder<X>> Decode<X, D> for u16 {
        #[verifier::external_body]
        fn decode_body_with_value_kind(decoder: &mut D, value_kind: ValueKind<X>) -> (ret: Result<Self, DecodeError>) { unimplemented!() }
    }
    impl<X: CustomValueKind, D: super::unit::Decoder<X>> Decode<X, D> for u32 {
        #[verifier::external_body]
        fn decode_body_with_value_kind(decoder: &mut D, value_kind: ValueKind<X>) -> (ret: Result<Self, DecodeError>) { unimplemented!() }
    }
    impl<X: CustomValueKind, D: super::unit::Decoder<X>> Decode<X, D> for u64 {
        #[verifier::external_body]
        fn decode_body_with_value_kind(decoder: &mut D, value_kind: ValueKind<X>) -> (ret: Result<Self, DecodeError>) { unimplemented!() }
    }
    impl<X: CustomValueKind, D: super::unit::Decoder<X>> Decode<X, D> for u128 {
        #[verifier::external_body]
        fn decode_body_with_value_kind(decoder: &mut D, value_kind: ValueKind<X>) -> (ret: Result<Self, DecodeError>) { unimplemented!() }
    }
    impl<X: CustomValueKind, D: super::unit::Decoder<X>> Decode<X, D> for String {
        #[verifier::external_body]
        fn decode_body_with_value_kind(decoder: &mut D, value_kind: ValueKind<X>) -> (ret: Result<Self, DecodeError>) { unimplemented!() }
    }

    /// sbor/src/value.rs :: trait CustomValue
    pub trait CustomValue<X: CustomValueKind>: Wire<X> {
        fn get_custom_value_kind(&self) -> (r: X)
            ensures ValueKind::Custom(r) == self.kind();
        /// equality of two custom values as far as the wire format can see
        spec fn same(&self, other: &Self) -> bool;
        /// LAWS used ONLY by the prefix-freeness lemmas (lemma_prefix_free ff.): a custom value announces a custom kind, and
        /// the bodies of the custom values of one kind form a prefix-free code
        proof fn law_kind(&self)
            ensures self.kind() is Custom;
        proof fn law_prefix_free(&self, other: &Self, ba: int, bb: int, tail: Seq<u8>)
            requires self.kind() == other.kind(), self.encodable(ba), other.encodable(bb), is_prefix(self.body(), other.body() + tail)
            ensures self.body() == other.body(), self.same(other);
    }

    /// sbor/src/categorize.rs :: trait Categorize; ASSUMED instances = the `categorize_simple!` invocations in
    /// sbor/src/codec/{boolean,integer}.rs (macro invocations cannot be extracted)
    pub trait Categorize<X: CustomValueKind> {
        spec fn value_kind_spec() -> ValueKind<X>;
        fn value_kind() -> (r: ValueKind<X>) ensures r == Self::value_kind_spec();
    }
    impl<X: CustomValueKind> Categorize<X> for bool {
        open spec fn value_kind_spec() -> ValueKind<X> { ValueKind::Bool }
        fn value_kind() -> (r: ValueKind<X>) { ValueKind::Bool }
    }
    impl<X: CustomValueKind> Categorize<X> for u8 {
        open spec fn value_kind_spec() -> ValueKind<X> { ValueKind::U8 }
        fn value_kind() -> (r: ValueKind<X>) { ValueKind::U8 }
    }
}

pub mod unit {
    use vstd::prelude::*;
    use super::rt::*;
    use super::env::*;
    broadcast use vstd::std_specs::vec::axiom_vec_index_decreases;

    // =============================================================================================
    // value kinds (sbor/src/value_kind.rs)
    // =============================================================================================
    /*@item sbor/src/constants.rs :: const CUSTOM_VALUE_KIND_START
    @*/
    /*@item sbor/src/value_kind.rs :: const VALUE_KIND_BOOL
    @*/
    /*@item sbor/src/value_kind.rs :: const VALUE_KIND_I8
    @*/
    /*@item sbor/src/value_kind.rs :: const VALUE_KIND_I16
    @*/
    /*@item sbor/src/value_kind.rs :: const VALUE_KIND_I32
    @*/
    /*@item sbor/src/value_kind.rs :: const VALUE_KIND_I64
    @*/
    /*@item sbor/src/value_kind.rs :: const VALUE_KIND_I128
    @*/
    /*@item sbor/src/value_kind.rs :: const VALUE_KIND_U8
    @*/
    /*@item sbor/src/value_kind.rs :: const VALUE_KIND_U16
    @*/
    /*@item sbor/src/value_kind.rs :: const VALUE_KIND_U32
    @*/
    /*@item sbor/src/value_kind.rs :: const VALUE_KIND_U64
    @*/
    /*@item sbor/src/value_kind.rs :: const VALUE_KIND_U128
    @*/
    /*@item sbor/src/value_kind.rs :: const VALUE_KIND_STRING
    @*/
    /*@item sbor/src/value_kind.rs :: const VALUE_KIND_ARRAY
    @*/
    /*@item sbor/src/value_kind.rs :: const VALUE_KIND_TUPLE
    @*/
    /*@item sbor/src/value_kind.rs :: const VALUE_KIND_ENUM
    @*/
    /*@item sbor/src/value_kind.rs :: const VALUE_KIND_MAP
    @*/
    /*@item sbor/src/value_kind.rs :: enum ValueKind
    @derive Clone, Copy, PartialEq, Eq
    @*/
    /// ASSUMED: the derived `PartialEq` of `ValueKind<X>` is structural equality
    impl<X: CustomValueKind> vstd::std_specs::cmp::PartialEqSpecImpl for ValueKind<X> {
        open spec fn obeys_eq_spec() -> bool { true }
        open spec fn eq_spec(&self, other: &Self) -> bool { *self == *other }
    }

    /// ORACLE (SBOR wire format): the byte that announces a value kind
    pub open spec fn kind_byte<X: CustomValueKind>(k: ValueKind<X>) -> u8 {
        match k {
            ValueKind::Bool => 0x01, ValueKind::I8 => 0x02, ValueKind::I16 => 0x03, ValueKind::I32 => 0x04,
            ValueKind::I64 => 0x05, ValueKind::I128 => 0x06, ValueKind::U8 => 0x07, ValueKind::U16 => 0x08,
            ValueKind::U32 => 0x09, ValueKind::U64 => 0x0a, ValueKind::U128 => 0x0b, ValueKind::String => 0x0c,
            ValueKind::Array => 0x20, ValueKind::Tuple => 0x21, ValueKind::Enum => 0x22, ValueKind::Map => 0x23,
            ValueKind::Custom(x) => x.as_u8_spec(),
        }
    }
    /// ORACLE: the kind announced by a byte (bytes >= 0x80 belong to the custom extension)
    pub open spec fn byte_kind<X: CustomValueKind>(id: u8) -> Option<ValueKind<X>> {
        if id == 0x01 { Some(ValueKind::Bool) } else if id == 0x02 { Some(ValueKind::I8) }
        else if id == 0x03 { Some(ValueKind::I16) } else if id == 0x04 { Some(ValueKind::I32) }
        else if id == 0x05 { Some(ValueKind::I64) } else if id == 0x06 { Some(ValueKind::I128) }
        else if id == 0x07 { Some(ValueKind::U8) } else if id == 0x08 { Some(ValueKind::U16) }
        else if id == 0x09 { Some(ValueKind::U32) } else if id == 0x0a { Some(ValueKind::U64) }
        else if id == 0x0b { Some(ValueKind::U128) } else if id == 0x0c { Some(ValueKind::String) }
        else if id == 0x20 { Some(ValueKind::Array) } else if id == 0x21 { Some(ValueKind::Tuple) }
        else if id == 0x22 { Some(ValueKind::Enum) } else if id == 0x23 { Some(ValueKind::Map) }
        else if id >= 0x80 { match X::from_u8_spec(id) { Some(x) => Some(ValueKind::Custom(x)), None => None } }
        else { None }
    }

    impl<X: CustomValueKind> ValueKind<X> {
        /*@fn sbor/src/value_kind.rs :: impl<X: CustomValueKind> ValueKind<X> :: fn as_u8
        @sig
            ensures ret == kind_byte(*self)
        @*/
        /*@fn sbor/src/value_kind.rs :: impl<X: CustomValueKind> ValueKind<X> :: fn from_u8
        @sig
            ensures ret == byte_kind::<X>(id)
        @subst <<.map(ValueKind::Custom)>> => <<.map(|x: X| -> (r: ValueKind<X>) ensures r == ValueKind::Custom(x) { ValueKind::Custom(x) })>> why: Verus rejects a constructor used as a function value; eta-expanded, same function
        @*/
    }

    // =============================================================================================
    // ORACLE: the SBOR wire format of a Value  (written from the format description, not from the code)
    // =============================================================================================
    pub open spec fn max_size() -> nat { 0x0FFF_FFFF }

    /// unsigned LEB128 (see unit c20_size_codec)
    pub open spec fn leb(n: nat) -> Seq<u8>
        decreases n
    {
        if n < 128 { seq![n as u8] } else { seq![(n % 128 + 128) as u8] + leb(n / 128) }
    }
    /// k little-endian bytes of n
    pub open spec fn le_bytes(n: nat, k: nat) -> Seq<u8>
        decreases k
    {
        if k == 0 { Seq::<u8>::empty() } else { seq![(n % 256) as u8] + le_bytes(n / 256, (k - 1) as nat) }
    }
    /// two's complement of a signed integer in `k` bytes
    pub open spec fn twos(v: int, modulus: int) -> nat { if v >= 0 { v as nat } else { (v + modulus) as nat } }
    pub open spec fn bool_body(b: bool) -> Seq<u8> { seq![if b { 1u8 } else { 0u8 }] }
    pub open spec fn i8_body(v: i8) -> Seq<u8> { seq![twos(v as int, 0x100) as u8] }
    pub open spec fn u8_body(v: u8) -> Seq<u8> { seq![v] }
    pub open spec fn i16_body(v: i16) -> Seq<u8> { le_bytes(twos(v as int, 0x1_0000), 2) }
    pub open spec fn i32_body(v: i32) -> Seq<u8> { le_bytes(twos(v as int, 0x1_0000_0000), 4) }
    pub open spec fn i64_body(v: i64) -> Seq<u8> { le_bytes(twos(v as int, 0x1_0000_0000_0000_0000), 8) }
    pub open spec fn i128_body(v: i128) -> Seq<u8> { le_bytes(twos(v as int, 0x1_0000_0000_0000_0000int * 0x1_0000_0000_0000_0000int), 16) }
    pub open spec fn u16_body(v: u16) -> Seq<u8> { le_bytes(v as nat, 2) }
    pub open spec fn u32_body(v: u32) -> Seq<u8> { le_bytes(v as nat, 4) }
    pub open spec fn u64_body(v: u64) -> Seq<u8> { le_bytes(v as nat, 8) }
    pub open spec fn u128_body(v: u128) -> Seq<u8> { le_bytes(v as nat, 16) }
    pub open spec fn str_bytes(s: String) -> Seq<u8> { vstd::utf8::encode_utf8(s@) }
    pub open spec fn string_body(s: String) -> Seq<u8> { leb(str_bytes(s).len()) + str_bytes(s) }

    /*@item sbor/src/value.rs :: enum Value
    @derive Nothing
    @*/

    /// the value kind of a value
    pub open spec fn kind_of<X: CustomValueKind, Y: CustomValue<X>>(v: Value<X, Y>) -> ValueKind<X> {
        match v {
            Value::Bool { .. } => ValueKind::Bool, Value::I8 { .. } => ValueKind::I8, Value::I16 { .. } => ValueKind::I16,
            Value::I32 { .. } => ValueKind::I32, Value::I64 { .. } => ValueKind::I64, Value::I128 { .. } => ValueKind::I128,
            Value::U8 { .. } => ValueKind::U8, Value::U16 { .. } => ValueKind::U16, Value::U32 { .. } => ValueKind::U32,
            Value::U64 { .. } => ValueKind::U64, Value::U128 { .. } => ValueKind::U128, Value::String { .. } => ValueKind::String,
            Value::Enum { .. } => ValueKind::Enum, Value::Array { .. } => ValueKind::Array, Value::Tuple { .. } => ValueKind::Tuple,
            Value::Map { .. } => ValueKind::Map,
            Value::Custom { value } => value.kind(),
        }
    }

    /// body bytes of a value:
    ///   Tuple = leb(n) ++ enc(f_0) ++ .. ;  Enum = [discriminator] ++ leb(n) ++ enc(f_i) .. ;
    ///   Array = [element kind] ++ leb(n) ++ body(e_i) .. ;  Map = [key kind] ++ [value kind] ++ leb(n) ++ body(k_i) ++ body(v_i) ..
    ///   where enc(v) = [kind byte of v] ++ body(v)
    pub open spec fn enc_body<X: CustomValueKind, Y: CustomValue<X>>(v: Value<X, Y>) -> Seq<u8>
        decreases v, 0nat
    {
        match v {
            Value::Bool { value } => bool_body(value),
            Value::I8 { value } => i8_body(value),
            Value::I16 { value } => i16_body(value),
            Value::I32 { value } => i32_body(value),
            Value::I64 { value } => i64_body(value),
            Value::I128 { value } => i128_body(value),
            Value::U8 { value } => u8_body(value),
            Value::U16 { value } => u16_body(value),
            Value::U32 { value } => u32_body(value),
            Value::U64 { value } => u64_body(value),
            Value::U128 { value } => u128_body(value),
            Value::String { value } => string_body(value),
            Value::Enum { discriminator, fields } =>
                seq![discriminator] + leb(fields@.len()) + enc_list(fields, fields@.len(), true),
            Value::Array { element_value_kind, elements } =>
                seq![kind_byte(element_value_kind)] + leb(elements@.len()) + enc_list(elements, elements@.len(), false),
            Value::Tuple { fields } =>
                leb(fields@.len()) + enc_list(fields, fields@.len(), true),
            Value::Map { key_value_kind, value_value_kind, entries } =>
                seq![kind_byte(key_value_kind)] + seq![kind_byte(value_value_kind)] + leb(entries@.len()) + enc_entries(entries, entries@.len()),
            Value::Custom { value } => value.body(),
        }
    }
    /// concatenation of the first n items; with_kind: each item is preceded by its kind byte
    pub open spec fn enc_list<X: CustomValueKind, Y: CustomValue<X>>(items: Vec<Value<X, Y>>, n: nat, with_kind: bool) -> Seq<u8>
        decreases items, n
    {
        if n == 0 || n > items@.len() { Seq::<u8>::empty() } else {
            enc_list(items, (n - 1) as nat, with_kind)
                + (if with_kind { seq![kind_byte(kind_of(items@[n - 1]))] } else { Seq::<u8>::empty() })
                + enc_body(items@[n - 1])
        }
    }
    /// concatenation of the first n map entries: key body, value body (kinds are announced once, in the header)
    pub open spec fn enc_entries<X: CustomValueKind, Y: CustomValue<X>>(entries: Vec<(Value<X, Y>, Value<X, Y>)>, n: nat) -> Seq<u8>
        decreases entries, n
    {
        if n == 0 || n > entries@.len() { Seq::<u8>::empty() } else {
            enc_entries(entries, (n - 1) as nat) + enc_body(entries@[n - 1].0) + enc_body(entries@[n - 1].1)
        }
    }
    /// full encoding of a value: kind byte, then body
    pub open spec fn enc<X: CustomValueKind, Y: CustomValue<X>>(v: Value<X, Y>) -> Seq<u8> {
        seq![kind_byte(kind_of(v))] + enc_body(v)
    }

    /// ORACLE: which values can be encoded with `budget` levels left below the value:
    /// container sizes (and string lengths) <= 0x0FFF_FFFF, every array element / map key / map value has the
    /// declared kind, every child is itself encodable one level deeper.
    pub open spec fn encodable<X: CustomValueKind, Y: CustomValue<X>>(v: Value<X, Y>, budget: int) -> bool
        decreases v
    {
        match v {
            Value::String { value } => str_bytes(value).len() <= max_size(),
            Value::Enum { discriminator, fields } =>
                fields@.len() <= max_size()
                && forall|j: int| 0 <= j < fields@.len() ==> budget >= 1 && encodable(#[trigger] fields@[j], budget - 1),
            Value::Array { element_value_kind, elements } =>
                elements@.len() <= max_size()
                && forall|j: int| 0 <= j < elements@.len() ==>
                    kind_of(#[trigger] elements@[j]) == element_value_kind && budget >= 1 && encodable(elements@[j], budget - 1),
            Value::Tuple { fields } =>
                fields@.len() <= max_size()
                && forall|j: int| 0 <= j < fields@.len() ==> budget >= 1 && encodable(#[trigger] fields@[j], budget - 1),
            Value::Map { key_value_kind, value_value_kind, entries } =>
                entries@.len() <= max_size()
                && forall|j: int| 0 <= j < entries@.len() ==>
                    kind_of((#[trigger] entries@[j]).0) == key_value_kind && kind_of(entries@[j].1) == value_value_kind
                    && budget >= 1 && encodable(entries@[j].0, budget - 1) && encodable(entries@[j].1, budget - 1),
            Value::Custom { value } => value.encodable(budget),
            _ => true,
        }
    }


    /// E2, FIRST OFFENDER: element j of an array is the first one with a kind different from the declared one
    /// (all earlier elements were encodable)
    pub open spec fn first_bad_elem<X: CustomValueKind, Y: CustomValue<X>>(v: Value<X, Y>, b: int, j: int) -> bool {
        &&& v is Array && v->Array_elements@.len() <= max_size() && 0 <= j < v->Array_elements@.len()
        &&& kind_of(v->Array_elements@[j]) != v->Array_element_value_kind
        &&& forall|k: int| 0 <= k < j ==> kind_of(#[trigger] v->Array_elements@[k]) == v->Array_element_value_kind
                && b >= 1 && encodable(v->Array_elements@[k], b - 1)
    }
    pub open spec fn entry_ok<X: CustomValueKind, Y: CustomValue<X>>(v: Value<X, Y>, b: int, k: int) -> bool {
        &&& kind_of(v->Map_entries@[k].0) == v->Map_key_value_kind && kind_of(v->Map_entries@[k].1) == v->Map_value_value_kind
        &&& b >= 1 && encodable(v->Map_entries@[k].0, b - 1) && encodable(v->Map_entries@[k].1, b - 1)
    }
    /// the key of entry j is the first offender
    pub open spec fn first_bad_key<X: CustomValueKind, Y: CustomValue<X>>(v: Value<X, Y>, b: int, j: int) -> bool {
        &&& v is Map && v->Map_entries@.len() <= max_size() && 0 <= j < v->Map_entries@.len()
        &&& kind_of(v->Map_entries@[j].0) != v->Map_key_value_kind
        &&& forall|k: int| 0 <= k < j ==> #[trigger] entry_ok(v, b, k)
    }
    /// the value of entry j is the first offender (its key was fine)
    pub open spec fn first_bad_val<X: CustomValueKind, Y: CustomValue<X>>(v: Value<X, Y>, b: int, j: int) -> bool {
        &&& v is Map && v->Map_entries@.len() <= max_size() && 0 <= j < v->Map_entries@.len()
        &&& kind_of(v->Map_entries@[j].0) == v->Map_key_value_kind && b >= 1 && encodable(v->Map_entries@[j].0, b - 1)
        &&& kind_of(v->Map_entries@[j].1) != v->Map_value_value_kind
        &&& forall|k: int| 0 <= k < j ==> #[trigger] entry_ok(v, b, k)
    }
    /// number of children announced in the header of a container value
    pub open spec fn container_len<X: CustomValueKind, Y: CustomValue<X>>(v: Value<X, Y>) -> Option<nat> {
        match v {
            Value::Enum { discriminator, fields } => Some(fields@.len()),
            Value::Array { element_value_kind, elements } => Some(elements@.len()),
            Value::Tuple { fields } => Some(fields@.len()),
            Value::Map { key_value_kind, value_value_kind, entries } => Some(entries@.len()),
            _ => None,
        }
    }

    impl<X: CustomValueKind, Y: CustomValue<X>> Wire<X> for Value<X, Y> {
        open spec fn kind(&self) -> ValueKind<X> { kind_of(*self) }
        open spec fn body(&self) -> Seq<u8> { enc_body(*self) }
        open spec fn encodable(&self, budget: int) -> bool { encodable(*self, budget) }
    }
    impl<X: CustomValueKind> Wire<X> for bool {
        open spec fn kind(&self) -> ValueKind<X> { ValueKind::Bool }
        open spec fn body(&self) -> Seq<u8> { bool_body(*self) }
        open spec fn encodable(&self, budget: int) -> bool { true }
    }
    impl<X: CustomValueKind> Wire<X> for i8 {
        open spec fn kind(&self) -> ValueKind<X> { ValueKind::I8 }
        open spec fn body(&self) -> Seq<u8> { i8_body(*self) }
        open spec fn encodable(&self, budget: int) -> bool { true }
    }
    impl<X: CustomValueKind> Wire<X> for u8 {
        open spec fn kind(&self) -> ValueKind<X> { ValueKind::U8 }
        open spec fn body(&self) -> Seq<u8> { u8_body(*self) }
        open spec fn encodable(&self, budget: int) -> bool { true }
    }

    impl<X: CustomValueKind> Wire<X> for i16 {
        open spec fn kind(&self) -> ValueKind<X> { ValueKind::I16 }
        open spec fn body(&self) -> Seq<u8> { i16_body(*self) }
        open spec fn encodable(&self, budget: int) -> bool { true }
    }
    impl<X: CustomValueKind> Wire<X> for i32 {
        open spec fn kind(&self) -> ValueKind<X> { ValueKind::I32 }
        open spec fn body(&self) -> Seq<u8> { i32_body(*self) }
        open spec fn encodable(&self, budget: int) -> bool { true }
    }
    impl<X: CustomValueKind> Wire<X> for i64 {
        open spec fn kind(&self) -> ValueKind<X> { ValueKind::I64 }
        open spec fn body(&self) -> Seq<u8> { i64_body(*self) }
        open spec fn encodable(&self, budget: int) -> bool { true }
    }
    impl<X: CustomValueKind> Wire<X> for i128 {
        open spec fn kind(&self) -> ValueKind<X> { ValueKind::I128 }
        open spec fn body(&self) -> Seq<u8> { i128_body(*self) }
        open spec fn encodable(&self, budget: int) -> bool { true }
    }
    impl<X: CustomValueKind> Wire<X> for u16 {
        open spec fn kind(&self) -> ValueKind<X> { ValueKind::U16 }
        open spec fn body(&self) -> Seq<u8> { u16_body(*self) }
        open spec fn encodable(&self, budget: int) -> bool { true }
    }
    impl<X: CustomValueKind> Wire<X> for u32 {
        open spec fn kind(&self) -> ValueKind<X> { ValueKind::U32 }
        open spec fn body(&self) -> Seq<u8> { u32_body(*self) }
        open spec fn encodable(&self, budget: int) -> bool { true }
    }
    impl<X: CustomValueKind> Wire<X> for u64 {
        open spec fn kind(&self) -> ValueKind<X> { ValueKind::U64 }
        open spec fn body(&self) -> Seq<u8> { u64_body(*self) }
        open spec fn encodable(&self, budget: int) -> bool { true }
    }
    impl<X: CustomValueKind> Wire<X> for u128 {
        open spec fn kind(&self) -> ValueKind<X> { ValueKind::U128 }
        open spec fn body(&self) -> Seq<u8> { u128_body(*self) }
        open spec fn encodable(&self, budget: int) -> bool { true }
    }
    impl<X: CustomValueKind> Wire<X> for String {
        open spec fn kind(&self) -> ValueKind<X> { ValueKind::String }
        open spec fn body(&self) -> Seq<u8> { string_body(*self) }
        open spec fn encodable(&self, budget: int) -> bool { str_bytes(*self).len() <= max_size() }
    }


    // =============================================================================================
    // DEPTH: `encodable(v, budget)` pins the depth accounting -- nesting height of a value
    // =============================================================================================
    /// nesting height: 1 for a leaf (primitive, string, custom value, empty container), 1 + the highest child otherwise
    pub open spec fn height<X: CustomValueKind, Y: CustomValue<X>>(v: Value<X, Y>) -> nat
        decreases v, 0nat
    {
        match v {
            Value::Enum { discriminator, fields } => 1 + max_height(fields, fields@.len()),
            Value::Array { element_value_kind, elements } => 1 + max_height(elements, elements@.len()),
            Value::Tuple { fields } => 1 + max_height(fields, fields@.len()),
            Value::Map { key_value_kind, value_value_kind, entries } => 1 + max_entry_height(entries, entries@.len()),
            _ => 1,
        }
    }
    pub open spec fn max2(a: nat, b: nat) -> nat { if a >= b { a } else { b } }
    pub open spec fn max_height<X: CustomValueKind, Y: CustomValue<X>>(items: Vec<Value<X, Y>>, n: nat) -> nat
        decreases items, n
    {
        if n == 0 || n > items@.len() { 0 } else { max2(max_height(items, (n - 1) as nat), height(items@[n - 1])) }
    }
    pub open spec fn max_entry_height<X: CustomValueKind, Y: CustomValue<X>>(entries: Vec<(Value<X, Y>, Value<X, Y>)>, n: nat) -> nat
        decreases entries, n
    {
        if n == 0 || n > entries@.len() { 0 } else {
            max2(max_entry_height(entries, (n - 1) as nat), max2(height(entries@[n - 1].0), height(entries@[n - 1].1)))
        }
    }
    /// a value that is encodable (= what encode_body accepts and what decode_body_with_value_kind returns) with
    /// `b` = max_depth - stack_depth levels left below it has nesting height at most b + 1, i.e.
    /// stack_depth + height(v) - 1 <= max_depth: EVERY tuple/enum field, array element, map key and map VALUE is counted.
    pub proof fn lemma_encodable_height<X: CustomValueKind, Y: CustomValue<X>>(v: Value<X, Y>, b: int)
        requires encodable(v, b), b >= 0
        ensures height(v) <= b + 1
        decreases v, 0nat
    {
        if v is Enum {
            let items = v->Enum_fields;
            if items@.len() > 0 { let x = items@[0]; assert(b >= 1); }
            assert forall|j: int| 0 <= j < items@.len() implies encodable(#[trigger] items@[j], b - 1) by { let x = items@[j]; }
            lemma_items_height(items, items@.len(), b);
        } else if v is Array {
            let items = v->Array_elements;
            if items@.len() > 0 { let x = items@[0]; assert(b >= 1); }
            assert forall|j: int| 0 <= j < items@.len() implies encodable(#[trigger] items@[j], b - 1) by { let x = items@[j]; }
            lemma_items_height(items, items@.len(), b);
        } else if v is Tuple {
            let items = v->Tuple_fields;
            if items@.len() > 0 { let x = items@[0]; assert(b >= 1); }
            assert forall|j: int| 0 <= j < items@.len() implies encodable(#[trigger] items@[j], b - 1) by { let x = items@[j]; }
            lemma_items_height(items, items@.len(), b);
        } else if v is Map {
            let entries = v->Map_entries;
            if entries@.len() > 0 { let x = entries@[0]; assert(b >= 1); }
            assert forall|j: int| 0 <= j < entries@.len() implies encodable((#[trigger] entries@[j]).0, b - 1) && encodable(entries@[j].1, b - 1) by { let x = entries@[j]; }
            lemma_entries_height(entries, entries@.len(), b);
        }
    }
    pub proof fn lemma_items_height<X: CustomValueKind, Y: CustomValue<X>>(items: Vec<Value<X, Y>>, n: nat, b: int)
        requires n <= items@.len(), b >= 0, n > 0 ==> b >= 1, forall|j: int| 0 <= j < n ==> encodable(#[trigger] items@[j], b - 1)
        ensures max_height(items, n) <= b
        decreases items, n
    {
        if n > 0 {
            lemma_items_height(items, (n - 1) as nat, b);
            lemma_encodable_height(items@[n - 1], b - 1);
        }
    }
    pub proof fn lemma_entries_height<X: CustomValueKind, Y: CustomValue<X>>(entries: Vec<(Value<X, Y>, Value<X, Y>)>, n: nat, b: int)
        requires n <= entries@.len(), b >= 0, n > 0 ==> b >= 1,
            forall|j: int| 0 <= j < n ==> encodable((#[trigger] entries@[j]).0, b - 1) && encodable(entries@[j].1, b - 1)
        ensures max_entry_height(entries, n) <= b
        decreases entries, n
    {
        if n > 0 {
            lemma_entries_height(entries, (n - 1) as nat, b);
            lemma_encodable_height(entries@[n - 1].0, b - 1);
            lemma_encodable_height(entries@[n - 1].1, b - 1);
        }
    }

    /// C20, second half, at contract level: a value returned by a decoder meeting the `Decode` contract re-encodes (by
    /// any encoder meeting the `Encode` contract, same depth budget) successfully and to EXACTLY the bytes consumed.
    pub proof fn lemma_reencode_same_bytes<X: CustomValueKind, T: Wire<X>>(k: ValueKind<X>, inp: Seq<u8>, p0: int, p1: int, d0: (int, int), d1: (int, int), v: T,
        o0: Seq<u8>, o1: Seq<u8>, e1: (int, int), r: Result<(), EncodeError>)
        requires
            dec_body_post(k, inp, p0, d0, inp, p1, d1, Ok::<T, DecodeError>(v)),
            enc_body_post(&v, o0, d0, o1, e1, r),
        ensures r is Ok, o1 == o0 + inp.subrange(p0, p1), e1 == d0
    {
    }

    /// sanity of the oracle on a concrete value: the array [1u8, 2u8] has body 07 02 01 02 and full encoding 20 07 02 01 02;
    /// it needs one level below it
    pub proof fn lemma_oracle_example<X: CustomValueKind, Y: CustomValue<X>>(v: Value<X, Y>, e: Vec<Value<X, Y>>)
        requires
            v == (Value::<X, Y>::Array { element_value_kind: ValueKind::<X>::U8, elements: e }),
            e@.len() == 2, e@[0] == (Value::<X, Y>::U8 { value: 1 }), e@[1] == (Value::<X, Y>::U8 { value: 2 }),
        ensures
            enc_body(v) =~= seq![0x07u8, 0x02u8, 0x01u8, 0x02u8],
            enc(v) =~= seq![0x20u8, 0x07u8, 0x02u8, 0x01u8, 0x02u8],
            encodable(v, 1), !encodable(v, 0), height(v) == 2,
    {
        reveal_with_fuel(enc_list, 4);
        reveal_with_fuel(enc_body, 4);
        reveal_with_fuel(max_height, 4);
        reveal_with_fuel(height, 4);
        reveal_with_fuel(encodable, 3);
        assert(leb(2) =~= seq![2u8]);
        let x0 = e@[0]; let x1 = e@[1];
        assert(kind_of(e@[0]) == ValueKind::<X>::U8);
        assert(kind_of(e@[1]) == ValueKind::<X>::U8);
        assert(enc_body(e@[0]) =~= seq![1u8]);
        assert(enc_body(e@[1]) =~= seq![2u8]);
        assert(height(e@[0]) == 1 && height(e@[1]) == 1);
    }

    // =============================================================================================
    // the encoder (sbor/src/encoder.rs)
    // =============================================================================================
    pub proof fn lemma_bv_write(size: usize)
        ensures
            (size & 0x7F) == size % 128,
            (size >> 7) == size / 128,
            ((size & 0x7F) as u8) == size % 128,
            (((size & 0x7F) as u8) | 0x80u8) == size % 128 + 128,
    {
        assert((size & 0x7F) == size % 128) by (bit_vector);
        assert((size >> 7) == size / 128) by (bit_vector);
        let s7: usize = size & 0x7F;
        assert(s7 < 128);
        let b: u8 = s7 as u8;
        assert(b < 128);
        assert((b | 0x80u8) == b + 128) by (bit_vector) requires b < 128;
    }

    pub trait Encoder<X: CustomValueKind>: EncoderState {
        /*@fn sbor/src/encoder.rs :: trait Encoder<X: CustomValueKind>: Sized :: fn encode
        @sig
            requires wf_depths(old(self).depths())
            ensures
                final(self).depths().1 == old(self).depths().1,
                ret is Ok <==> passes(value, budget(old(self).depths())),
                ret is Ok ==> final(self).out() =~= old(self).out().push(kind_byte(value.kind())) + value.body()
                    && final(self).depths() == old(self).depths()
        @*/

        // R12: required method, signature re-declared; the VecEncoder impl below is extracted and must meet it
        fn encode_deeper_body<T: Encode<X, Self> + ?Sized>(&mut self, value: &T) -> (ret: Result<(), EncodeError>)
            requires wf_depths(old(self).depths())
            ensures
                final(self).depths().1 == old(self).depths().1,
                ret is Ok <==> passes(value, budget(old(self).depths())),
                budget(old(self).depths()) < 1 ==> ret == Err::<(), EncodeError>(EncodeError::MaxDepthExceeded(old(self).depths().1 as usize)),
                ret is Ok ==> final(self).out() =~= old(self).out() + value.body() && final(self).depths() == old(self).depths();

        /*@fn sbor/src/encoder.rs :: trait Encoder<X: CustomValueKind>: Sized :: fn write_value_kind
        @sig
            ensures ret is Ok, final(self).out() == old(self).out().push(kind_byte(ty)), final(self).depths() == old(self).depths()
        @*/
        /*@fn sbor/src/encoder.rs :: trait Encoder<X: CustomValueKind>: Sized :: fn write_discriminator
        @sig
            ensures ret is Ok, final(self).out() == old(self).out().push(discriminator), final(self).depths() == old(self).depths()
        @*/
        /*@fn sbor/src/encoder.rs :: trait Encoder<X: CustomValueKind>: Sized :: fn write_size
        @sig
            ensures
                ret is Ok <==> size <= 0x0FFF_FFFF,
                ret matches Err(e) ==> e == (EncodeError::SizeTooLarge { actual: size, max_allowed: 0x0FFF_FFFF }),
                ret is Ok ==> final(self).out() == old(self).out() + leb(size as nat),
                ret is Err ==> final(self).out() == old(self).out(),
                final(self).depths() == old(self).depths()
        @entry
            let ghost n0 = size;
        @loop 1
            invariant_except_break
                size <= 0x0FFF_FFFF,
                old(self).out() + leb(n0 as nat) == self.out() + leb(size as nat),
            invariant
                self.depths() == old(self).depths(),
            ensures
                self.out() == old(self).out() + leb(n0 as nat),
            decreases size
        @before <<let seven_bits>> #1
            let ghost sz = size;
            let ghost o = self.out();
            proof {
                lemma_bv_write(size);
                if sz >= 128 {
                    let h = (sz % 128 + 128) as u8;
                    assert(leb(sz as nat) == seq![h] + leb((sz / 128) as nat));
                    assert(o + (seq![h] + leb((sz / 128) as nat)) =~= o.push(h) + leb((sz / 128) as nat));
                } else {
                    assert(o + leb(sz as nat) =~= o.push(sz as u8));
                }
            }
        @*/

        // R12: required method
        fn write_byte(&mut self, n: u8) -> (ret: Result<(), EncodeError>)
            ensures ret is Ok, final(self).out() == old(self).out().push(n), final(self).depths() == old(self).depths();
    }

    /*@item sbor/src/encoder.rs :: struct VecEncoder
    @*/
    impl<'a, X: CustomValueKind> EncoderState for VecEncoder<'a, X> {
        open spec fn out(&self) -> Seq<u8> { (*self.buf)@ }
        open spec fn depths(&self) -> (int, int) { (self.stack_depth as int, self.max_depth as int) }
    }
    impl<'a, X: CustomValueKind> VecEncoder<'a, X> {
        /*@fn sbor/src/encoder.rs :: impl<'a, X: CustomValueKind> VecEncoder<'a, X> :: fn new
        @sig
            ensures ret.out() == old(buf)@, ret.depths() == (0int, max_depth as int)
        @*/
        /*@fn sbor/src/encoder.rs :: impl<'a, X: CustomValueKind> VecEncoder<'a, X> :: fn track_stack_depth_increase
        @sig
            requires old(self).depths().0 < usize::MAX
            ensures
                final(self).out() == old(self).out(),
                final(self).depths() == (old(self).depths().0 + 1, old(self).depths().1),
                ret is Ok <==> old(self).depths().0 < old(self).depths().1,
                ret matches Err(e) ==> e == EncodeError::MaxDepthExceeded(old(self).max_depth)
        @*/
        /*@fn sbor/src/encoder.rs :: impl<'a, X: CustomValueKind> VecEncoder<'a, X> :: fn track_stack_depth_decrease
        @sig
            requires old(self).depths().0 >= 1
            ensures
                final(self).out() == old(self).out(),
                final(self).depths() == (old(self).depths().0 - 1, old(self).depths().1),
                ret is Ok
        @*/
    }
    impl<'a, X: CustomValueKind> Encoder<X> for VecEncoder<'a, X> {
        /*@fn sbor/src/encoder.rs :: impl<'a, X: CustomValueKind> Encoder<X> for VecEncoder<'a, X> :: fn encode_deeper_body
        @*/
        /*@fn sbor/src/encoder.rs :: impl<'a, X: CustomValueKind> Encoder<X> for VecEncoder<'a, X> :: fn write_byte
        @*/
    }


    // =============================================================================================
    // the Value codec, encode side (sbor/src/value.rs)
    // =============================================================================================
    impl<X: CustomValueKind, Y: CustomValue<X>> Value<X, Y> {
        /*@fn sbor/src/value.rs :: impl<X: CustomValueKind, Y: CustomValue<X>> Value<X, Y> :: fn get_value_kind
        @sig
            ensures ret == kind_of(*self)
        @*/
    }

    /// E2, exact errors: oversized container; FIRST kind-mismatching array element / map key / map value
    pub open spec fn enc_extra_post<X: CustomValueKind, Y: CustomValue<X>>(v: Value<X, Y>, b: int, ret: Result<(), EncodeError>) -> bool {
        &&& (container_len(v) is Some && container_len(v)->Some_0 > max_size() ==> ret == Err::<(), EncodeError>(EncodeError::SizeTooLarge { actual: container_len(v)->Some_0 as usize, max_allowed: 0x0FFF_FFFF }))
        &&& (forall|j: int| first_bad_elem(v, b, j) ==> ret == Err::<(), EncodeError>(EncodeError::MismatchingArrayElementValueKind {
                element_value_kind: kind_byte(v->Array_element_value_kind), actual_value_kind: kind_byte(kind_of(v->Array_elements@[j])) }))
        &&& (forall|j: int| first_bad_key(v, b, j) ==> ret == Err::<(), EncodeError>(EncodeError::MismatchingMapKeyValueKind {
                key_value_kind: kind_byte(v->Map_key_value_kind), actual_value_kind: kind_byte(kind_of(v->Map_entries@[j].0)) }))
        &&& (forall|j: int| first_bad_val(v, b, j) ==> ret == Err::<(), EncodeError>(EncodeError::MismatchingMapValueValueKind {
                value_value_kind: kind_byte(v->Map_value_value_kind), actual_value_kind: kind_byte(kind_of(v->Map_entries@[j].1)) }))
    }
    /// The verbatim bodies of `impl Encode for Value<X, Y>`, verified against the contract predicates of `Encode` (see env,
    /// "INDUCTION HYPOTHESIS"). They are placed in an INHERENT impl; the impl-level type parameter E (and the bound
    /// Y: Encode<X, E>) therefore moves to the method (@subst on the signature only, bodies untouched).
    impl<X: CustomValueKind, Y: CustomValue<X>> Value<X, Y> {
        /*@fn sbor/src/value.rs :: impl<X: CustomValueKind, E: Encoder<X>, Y: Encode<X, E> + CustomValue<X>> Encode<X, E> for Value<X, Y> :: fn encode_value_kind
        @subst <<fn encode_value_kind(>> => <<fn encode_value_kind<E: Encoder<X>>(>> why: impl-level type parameter E of `impl Encode<X, E> for Value<X, Y>` moved to the method (inherent impl, see above); signature only
        @sig
            where Y: Encode<X, E>
            ensures enc_kind_post(self, old(encoder).out(), old(encoder).depths(), final(encoder).out(), final(encoder).depths(), ret)
        @*/
        #[verifier::exec_allows_no_decreases_clause]
        /*@fn sbor/src/value.rs :: impl<X: CustomValueKind, E: Encoder<X>, Y: Encode<X, E> + CustomValue<X>> Encode<X, E> for Value<X, Y> :: fn encode_body
        @subst <<fn encode_body(>> => <<fn encode_body<E: Encoder<X>>(>> why: impl-level type parameter E of `impl Encode<X, E> for Value<X, Y>` moved to the method (inherent impl, see above); signature only
        @sig
            where Y: Encode<X, E>
            requires wf_depths(old(encoder).depths())
            ensures
                enc_body_post(self, old(encoder).out(), old(encoder).depths(), final(encoder).out(), final(encoder).depths(), ret),
                enc_extra_post(*self, budget(old(encoder).depths()), ret),
                // DEPTH: Ok implies that the whole tree below this value fits the depth limit
                ret is Ok ==> old(encoder).depths().0 + height(*self) - 1 <= old(encoder).depths().1
        @before <<Ok(())>> #1
            proof { lemma_encodable_height(*self, budget(old(encoder).depths())); }
        @loop 1 iter it
            invariant
                *self is Enum, self->Enum_fields == *fields, self->Enum_discriminator == *discriminator,
                wf_depths(encoder.depths()), encoder.depths() == old(encoder).depths(),
                fields@.len() <= max_size(),
                encoder.out() =~= old(encoder).out() + seq![*discriminator] + leb(fields@.len() as nat) + enc_list(*fields, it.index@ as nat, true),
                forall|j: int| 0 <= j < it.index@ ==> budget(old(encoder).depths()) >= 1 && encodable(#[trigger] fields@[j], budget(old(encoder).depths()) - 1),
        @loop 2 iter it
            invariant
                *self is Array, self->Array_elements == *elements, self->Array_element_value_kind == *element_value_kind,
                wf_depths(encoder.depths()), encoder.depths() == old(encoder).depths(),
                elements@.len() <= max_size(),
                encoder.out() =~= old(encoder).out() + seq![kind_byte(*element_value_kind)] + leb(elements@.len() as nat) + enc_list(*elements, it.index@ as nat, false),
                forall|j: int| 0 <= j < it.index@ ==> kind_of(#[trigger] elements@[j]) == *element_value_kind
                    && budget(old(encoder).depths()) >= 1 && encodable(elements@[j], budget(old(encoder).depths()) - 1),
        @loop 3 iter it
            invariant
                *self is Tuple, self->Tuple_fields == *fields,
                wf_depths(encoder.depths()), encoder.depths() == old(encoder).depths(),
                fields@.len() <= max_size(),
                encoder.out() =~= old(encoder).out() + leb(fields@.len() as nat) + enc_list(*fields, it.index@ as nat, true),
                forall|j: int| 0 <= j < it.index@ ==> budget(old(encoder).depths()) >= 1 && encodable(#[trigger] fields@[j], budget(old(encoder).depths()) - 1),
        @loop 4 iter it
            invariant
                *self is Map, self->Map_entries == *entries, self->Map_key_value_kind == *key_value_kind, self->Map_value_value_kind == *value_value_kind,
                wf_depths(encoder.depths()), encoder.depths() == old(encoder).depths(),
                entries@.len() <= max_size(),
                encoder.out() =~= old(encoder).out() + seq![kind_byte(*key_value_kind)] + seq![kind_byte(*value_value_kind)] + leb(entries@.len() as nat) + enc_entries(*entries, it.index@ as nat),
                forall|j: int| 0 <= j < it.index@ ==> kind_of((#[trigger] entries@[j]).0) == *key_value_kind && kind_of(entries@[j].1) == *value_value_kind
                    && budget(old(encoder).depths()) >= 1 && encodable(entries@[j].0, budget(old(encoder).depths()) - 1) && encodable(entries@[j].1, budget(old(encoder).depths()) - 1),
                forall|j: int| 0 <= j < it.index@ ==> #[trigger] entry_ok(*self, budget(old(encoder).depths()), j),
        @before <<let actual_key_value_kind>> #1
            proof {
                let i = it.index@ as int;
                let b = budget(old(encoder).depths());
                assert(*entry == entries@[i]);
                assert(entry_ok(*self, b, i) == (kind_of(entry.0) == *key_value_kind && kind_of(entry.1) == *value_value_kind
                    && b >= 1 && encodable(entry.0, b - 1) && encodable(entry.1, b - 1)));
            }
        @*/
    }


    // =============================================================================================
    // the decoder (sbor/src/decoder.rs)
    // =============================================================================================
    // ---- LEB128 size prefix: proof vocabulary and lemmas (as in unit c20_size_codec) ----------------
    pub open spec fn p128(k: nat) -> nat
        decreases k
    {
        if k == 0 { 1 } else { 128 * p128((k - 1) as nat) }
    }
    /// value of a digit string (continuation bits ignored)
    pub open spec fn val(s: Seq<u8>) -> nat
        decreases s.len()
    {
        if s.len() == 0 { 0 } else { (s[0] % 128) as nat + 128 * val(s.drop_first()) }
    }
    /// shape of a minimal LEB128 string: continuation bit on all digits but the last, and no
    /// redundant most-significant zero digit
    pub open spec fn canon(s: Seq<u8>) -> bool {
        &&& s.len() >= 1
        &&& forall|j: int| 0 <= j < s.len() - 1 ==> s[j] >= 128
        &&& s.last() < 128
        &&& (s.len() > 1 ==> s.last() != 0)
    }

    pub proof fn lemma_p128()
        ensures p128(0) == 1, p128(1) == 128, p128(2) == 16384, p128(3) == 2097152, p128(4) == 268435456,
    {
        reveal_with_fuel(p128, 6);
    }

    /// leb(n) is canonical and denotes n
    pub proof fn lemma_leb_canon(n: nat)
        ensures canon(leb(n)), val(leb(n)) == n,
        decreases n
    {
        if n < 128 {
            let s = leb(n);
            assert(s.drop_first() =~= Seq::<u8>::empty());
            assert(val(s.drop_first()) == 0);
        } else {
            let t = leb(n / 128);
            let h = (n % 128 + 128) as u8;
            let s = leb(n);
            lemma_leb_canon(n / 128);
            assert(s == seq![h] + t);
            assert(s.drop_first() =~= t);
            assert(s[0] == h);
            assert(h % 128 == n % 128);
            assert(val(s) == (h % 128) as nat + 128 * val(t));
            assert forall|j: int| 0 <= j < s.len() - 1 implies s[j] >= 128 by {
                if j > 0 { assert(s[j] == t[j - 1]); }
            }
            assert(s.last() == t.last());
            if t.len() == 1 {
                assert(t.drop_first() =~= Seq::<u8>::empty());
                assert(val(t) == (t[0] % 128) as nat);
            }
        }
    }

    pub proof fn lemma_leb_len(n: nat, k: nat)
        requires k >= 1, n < p128(k)
        ensures leb(n).len() <= k
        decreases k
    {
        lemma_p128();
        if n >= 128 {
            if k == 1 { assert(false); }
            assert(n / 128 < p128((k - 1) as nat)) by (nonlinear_arith)
                requires n < 128 * p128((k - 1) as nat);
            lemma_leb_len(n / 128, (k - 1) as nat);
        }
    }

    pub proof fn lemma_val_bound(s: Seq<u8>)
        ensures val(s) < p128(s.len())
        decreases s.len()
    {
        if s.len() > 0 { lemma_val_bound(s.drop_first()); }
    }

    pub proof fn lemma_val_pos(s: Seq<u8>)
        requires s.len() >= 1, s.last() % 128 != 0
        ensures val(s) > 0
        decreases s.len()
    {
        if s.len() > 1 {
            assert(s.drop_first().last() == s.last());
            lemma_val_pos(s.drop_first());
        }
    }

    /// appending a most-significant digit
    pub proof fn lemma_val_push(s: Seq<u8>, b: u8)
        ensures val(s.push(b)) == val(s) + ((b % 128) as nat) * p128(s.len())
        decreases s.len()
    {
        let x = (b % 128) as nat;
        let sb = s.push(b);
        if s.len() == 0 {
            assert(sb.drop_first() =~= Seq::<u8>::empty());
            assert(val(sb.drop_first()) == 0);
            assert(sb[0] == b);
            assert(val(sb) == x + 128 * 0);
            assert(val(s) == 0);
            assert(p128(0) == 1);
            assert(x * 1 == x);
        } else {
            let t = s.drop_first();
            lemma_val_push(t, b);
            assert(sb.drop_first() =~= t.push(b));
            assert(sb[0] == s[0]);
            let h = (s[0] % 128) as nat;
            let p = p128(t.len());
            let vt = val(t);
            assert(t.len() == s.len() - 1);
            assert(p128(s.len()) == 128 * p128((s.len() - 1) as nat));
            assert(p128(s.len()) == 128 * p);
            assert(val(t.push(b)) == vt + x * p);
            assert(val(sb) == h + 128 * val(sb.drop_first()));
            assert(val(sb) == h + 128 * (vt + x * p));
            assert(val(s) == h + 128 * vt);
            assert(128 * (vt + x * p) == 128 * vt + x * (128 * p)) by (nonlinear_arith);
            assert(x * p128(s.len()) == x * (128 * p));
        }
    }

    /// CANONICITY core: a canonical digit string is the encoding of its own value
    pub proof fn lemma_canon_leb(s: Seq<u8>)
        requires canon(s)
        ensures leb(val(s)) == s
        decreases s.len()
    {
        if s.len() == 1 {
            assert(s.drop_first() =~= Seq::<u8>::empty());
            assert(val(s.drop_first()) == 0);
            assert(val(s) == s[0] as nat);
            assert(leb(val(s)) =~= s);
        } else {
            let t = s.drop_first();
            assert(t.last() == s.last());
            assert forall|j: int| 0 <= j < t.len() - 1 implies t[j] >= 128 by { assert(t[j] == s[j + 1]); }
            assert(canon(t));
            lemma_canon_leb(t);
            lemma_val_pos(t);
            let v = val(s);
            assert(s[0] >= 128);
            assert(v == (s[0] % 128) as nat + 128 * val(t));
            assert(v >= 128);
            assert(v / 128 == val(t));
            assert(v % 128 == (s[0] % 128) as nat);
            assert((v % 128 + 128) as u8 == s[0]);
            assert(leb(v) == seq![s[0]] + leb(val(t)));
            assert(seq![s[0]] + t =~= s);
        }
    }

    /// PREFIX-FREENESS: at most one canonical string is a prefix of a given input
    pub proof fn lemma_prefix_unique(a: Seq<u8>, b: Seq<u8>, r: Seq<u8>)
        requires canon(a), canon(b), is_prefix(a, r), is_prefix(b, r)
        ensures a == b
    {
        if a.len() < b.len() {
            assert(b[a.len() - 1] == r[a.len() - 1]);
            assert(a[a.len() - 1] == r[a.len() - 1]);
            assert(false);
        }
        if b.len() < a.len() {
            assert(a[b.len() - 1] == r[b.len() - 1]);
            assert(b[b.len() - 1] == r[b.len() - 1]);
            assert(false);
        }
        assert(a =~= b);
    }

    /// C20 "every value has one encoding" for sizes: the encoding is injective and prefix-free,
    /// so a size followed by arbitrary bytes is parsed in exactly one way.
    pub proof fn lemma_leb_unique(a: nat, b: nat, tail: Seq<u8>)
        requires is_prefix(leb(a), leb(b) + tail)
        ensures a == b
    {
        lemma_leb_canon(a);
        lemma_leb_canon(b);
        let r = leb(b) + tail;
        assert(is_prefix(leb(b), r));
        lemma_prefix_unique(leb(a), leb(b), r);
    }

    /// sizes within the limit use 1..=4 bytes
    pub proof fn lemma_leb_max(n: nat)
        requires n <= max_size()
        ensures 1 <= leb(n).len() <= 4
    {
        lemma_p128();
        lemma_leb_len(n, 4);
        lemma_leb_canon(n);
    }

    /// a digit < 128 placed at digit position i (shift 7*i) of an accumulator that is < 128^i
    pub proof fn lemma_bv_read(sp: usize, b: u8, i: int)
        requires 0 <= i < 4, sp < p128(i as nat)
        ensures
            i == 0 ==> (sp | (((b & 0x7F) as usize) << 0)) == sp + (b % 128) * p128(0),
            i == 1 ==> (sp | (((b & 0x7F) as usize) << 7)) == sp + (b % 128) * p128(1),
            i == 2 ==> (sp | (((b & 0x7F) as usize) << 14)) == sp + (b % 128) * p128(2),
            i == 3 ==> (sp | (((b & 0x7F) as usize) << 21)) == sp + (b % 128) * p128(3),
    {
        lemma_p128();
        let d: u8 = b & 0x7F;
        assert(d == b % 128) by (bit_vector) requires d == b & 0x7F;
        let x: usize = d as usize;
        assert(x < 128);
        assert(sp < 1 ==> (sp | (x << 0)) == sp + x * 1) by (bit_vector) requires x < 128;
        assert(sp < 128 ==> (sp | (x << 7)) == sp + x * 128) by (bit_vector) requires x < 128;
        assert(sp < 16384 ==> (sp | (x << 14)) == sp + x * 16384) by (bit_vector) requires x < 128;
        assert(sp < 2097152 ==> (sp | (x << 21)) == sp + x * 2097152) by (bit_vector) requires x < 128;
    }

    /// (typed equality: fixes the type of the late-initialised local `byte` for rustc's inference)
    pub open spec fn same_byte(a: u8, b: u8) -> bool { a == b }


    /// a kind byte accepted by the decoder is the byte the encoder writes for that kind
    pub proof fn lemma_kind_bytes<X: CustomValueKind>(b: u8)
        ensures byte_kind::<X>(b) matches Some(k) ==> kind_byte(k) == b
    {
        X::law_from_as(b);
    }
    /// and the kind byte written by the encoder is read back as the same kind
    pub proof fn lemma_byte_kinds<X: CustomValueKind>(k: ValueKind<X>)
        ensures byte_kind::<X>(kind_byte(k)) == Some(k)
    {
        if let ValueKind::Custom(x) = k { X::law_as_from(x); }
    }
    pub proof fn lemma_prefix_sub(a: Seq<u8>, inp: Seq<u8>, pos: int)
        requires 0 <= pos <= inp.len(), is_prefix(a, rest_of(inp, pos))
        ensures pos + a.len() <= inp.len(), inp.subrange(pos, pos + a.len()) =~= a
    {
        assert forall|j: int| 0 <= j < a.len() implies inp.subrange(pos, pos + a.len())[j] == a[j] by {
            assert(rest_of(inp, pos)[j] == inp[pos + j]);
        }
    }
    pub open spec fn vlen<X: CustomValueKind, Y: CustomValue<X>>(items: Vec<Value<X, Y>>) -> nat { items@.len() }
    pub open spec fn elen<X: CustomValueKind, Y: CustomValue<X>>(entries: Vec<(Value<X, Y>, Value<X, Y>)>) -> nat { entries@.len() }
    /// the first n items are encodable one level deeper (and, for arrays, have the declared kind)
    pub open spec fn items_ok<X: CustomValueKind, Y: CustomValue<X>>(items: Vec<Value<X, Y>>, n: int, ek: Option<ValueKind<X>>, b: int) -> bool {
        forall|j: int| 0 <= j < n ==> (ek matches Some(k) ==> kind_of(#[trigger] items@[j]) == k) && b >= 1 && encodable(items@[j], b - 1)
    }
    pub open spec fn entries_ok<X: CustomValueKind, Y: CustomValue<X>>(entries: Vec<(Value<X, Y>, Value<X, Y>)>, n: int, kk: ValueKind<X>, vk: ValueKind<X>, b: int) -> bool {
        forall|j: int| 0 <= j < n ==> kind_of((#[trigger] entries@[j]).0) == kk && kind_of(entries@[j].1) == vk
            && b >= 1 && encodable(entries@[j].0, b - 1) && encodable(entries@[j].1, b - 1)
    }
    pub proof fn lemma_enc_list_prefix<X: CustomValueKind, Y: CustomValue<X>>(a: Vec<Value<X, Y>>, b: Vec<Value<X, Y>>, n: nat, wk: bool)
        requires n <= a@.len(), n <= b@.len(), forall|j: int| 0 <= j < n ==> a@[j] == b@[j]
        ensures enc_list(a, n, wk) == enc_list(b, n, wk)
        decreases n
    {
        if n > 0 { lemma_enc_list_prefix(a, b, (n - 1) as nat, wk); }
    }
    pub proof fn lemma_enc_entries_prefix<X: CustomValueKind, Y: CustomValue<X>>(a: Vec<(Value<X, Y>, Value<X, Y>)>, b: Vec<(Value<X, Y>, Value<X, Y>)>, n: nat)
        requires n <= a@.len(), n <= b@.len(), forall|j: int| 0 <= j < n ==> a@[j] == b@[j]
        ensures enc_entries(a, n) == enc_entries(b, n)
        decreases n
    {
        if n > 0 { lemma_enc_entries_prefix(a, b, (n - 1) as nat); }
    }

    pub trait Decoder<X: CustomValueKind>: DecoderState {
        /*@fn sbor/src/decoder.rs :: trait Decoder<X: CustomValueKind>: Sized :: fn decode
        @sig
            requires wf_dec(old(self).input(), old(self).pos(), old(self).depths())
            ensures
                final(self).input() == old(self).input(), final(self).depths().1 == old(self).depths().1,
                ret matches Ok(v) ==> final(self).depths() == old(self).depths() && old(self).pos() < final(self).pos() <= old(self).input().len()
                    && old(self).input().subrange(old(self).pos(), final(self).pos()) =~= seq![kind_byte(v.kind())] + v.body()
                    && passes(&v, budget(old(self).depths()))
        @entry
            proof { if self.pos() < self.input().len() { lemma_kind_bytes::<X>(self.input()[self.pos()]); } }
        @*/

        // R12: required method, signature re-declared; the VecDecoder impl below is extracted and must meet it
        fn decode_deeper_body_with_value_kind<T: Decode<X, Self>>(&mut self, value_kind: ValueKind<X>) -> (ret: Result<T, DecodeError>)
            requires wf_dec(old(self).input(), old(self).pos(), old(self).depths())
            ensures
                final(self).input() == old(self).input(), final(self).depths().1 == old(self).depths().1,
                budget(old(self).depths()) < 1 ==> ret == Err::<T, DecodeError>(DecodeError::MaxDepthExceeded(old(self).depths().1 as usize)),
                ret matches Ok(v) ==> v.kind() == value_kind && final(self).depths() == old(self).depths()
                    && old(self).pos() <= final(self).pos() <= old(self).input().len()
                    && old(self).input().subrange(old(self).pos(), final(self).pos()) =~= v.body()
                    && passes(&v, budget(old(self).depths()));

        /*@fn sbor/src/decoder.rs :: trait Decoder<X: CustomValueKind>: Sized :: fn read_size
        @sig
            requires wf_at(old(self).input(), old(self).pos())
            ensures
                wf_at(final(self).input(), final(self).pos()), final(self).input() == old(self).input(), final(self).depths() == old(self).depths(),
                // accepted  ==> the consumed bytes are exactly the (canonical) encoding of the result
                ret matches Ok(n) ==> n <= 0x0FFF_FFFF && is_prefix(leb(n as nat), rest_of(old(self).input(), old(self).pos()))
                    && final(self).pos() == old(self).pos() + leb(n as nat).len(),
                // rejected  ==> the input does not start with the encoding of any legal size
                ret is Err ==> forall|n: nat| n <= max_size() ==> !is_prefix(#[trigger] leb(n), rest_of(old(self).input(), old(self).pos())),
                // hence (prefix-freeness): an input that starts with leb(n) is read back as n
                forall|n: nat| n <= max_size() && is_prefix(#[trigger] leb(n), rest_of(old(self).input(), old(self).pos())) ==> ret == Ok::<usize, DecodeError>(n as usize),
                // error classification: anything but a truncated input is InvalidSize
                ret matches Err(e) ==> e == DecodeError::InvalidSize
                    || (rest_of(old(self).input(), old(self).pos()).len() < 4 && forall|j: int| 0 <= j < rest_of(old(self).input(), old(self).pos()).len() ==> rest_of(old(self).input(), old(self).pos())[j] >= 128),
                ret matches Err(e) ==> final(self).pos() >= old(self).pos()
        @entry
            let ghost pos0 = self.pos();
            let ghost inp = self.input();
            let ghost rem = rest_of(self.input(), self.pos());
            let ghost mut i: int = 0;
            proof {
                assert(0 <= pos0 <= inp.len());
                assert(rem == inp.subrange(pos0, inp.len() as int));
                assert(rem.len() == inp.len() - pos0);
                assert(rem.subrange(0, 0) =~= Seq::<u8>::empty()); lemma_p128(); }
        @loop 1
            invariant_except_break
                0 <= i < 4, shift == 7 * i,
                self.pos() == pos0 + i,
                size == val(rem.subrange(0, i)),
            invariant
                wf_at(self.input(), self.pos()), self.input() == inp, self.depths() == old(self).depths(),
                pos0 == old(self).pos(), inp == old(self).input(), rem == rest_of(old(self).input(), old(self).pos()), wf_at(old(self).input(), old(self).pos()),
                rem.len() == inp.len() - pos0,
                forall|j: int| 0 <= j < i ==> rem[j] >= 128,
                forall|n: nat| n <= max_size() && is_prefix(#[trigger] leb(n), rem) ==> leb(n).len() > i,
            ensures
                0 <= i < 4, shift == 7 * i, i < rem.len(),
                same_byte(byte, rem[i]), byte < 128,
                self.pos() == pos0 + i + 1,
                size == val(rem.subrange(0, i + 1)),
            decreases 4 - i
        @before <<size |=>> #1
            let ghost sp = size;
            proof {
                assert(byte == inp[pos0 + i]);
                assert(byte == rem[i]);
                lemma_val_bound(rem.subrange(0, i));
                lemma_bv_read(sp, byte, i);
            }
        @after <<size |=>> #1
            proof {
                lemma_val_push(rem.subrange(0, i), byte);
                assert(rem.subrange(0, i).push(byte) =~= rem.subrange(0, i + 1));
            }
        @after <<shift +=>> #1
            proof {
                assert forall|n: nat| n <= max_size() && is_prefix(#[trigger] leb(n), rem) implies leb(n).len() > i + 1 by {
                    lemma_leb_canon(n);
                    if leb(n).len() == i + 1 { assert(leb(n)[i] == rem[i]); }
                }
                i = i + 1;
            }
        @before <<return Err(DecodeError::InvalidSize)>> #1
            proof {
                assert forall|n: nat| n <= max_size() implies !is_prefix(#[trigger] leb(n), rem) by {
                    lemma_leb_max(n);
                }
            }
        @before <<return Err(DecodeError::InvalidSize)>> #2
            proof {
                assert forall|n: nat| n <= max_size() implies !is_prefix(#[trigger] leb(n), rem) by {
                    lemma_leb_canon(n);
                    if is_prefix(leb(n), rem) {
                        let m = leb(n).len() as int;
                        assert(m > i);
                        if m > i + 1 { assert(leb(n)[i] == rem[i]); }
                        assert(leb(n)[m - 1] == rem[m - 1]);
                    }
                }
            }
        @before <<Ok(size)>> #1
            proof {
                let c = rem.subrange(0, i + 1);
                assert(canon(c));
                lemma_canon_leb(c);
                lemma_val_bound(c);
                assert(is_prefix(leb(size as nat), rem));
                assert forall|n: nat| n <= max_size() && is_prefix(#[trigger] leb(n), rem) implies n == size by {
                    lemma_leb_canon(n);
                    lemma_leb_canon(size as nat);
                    lemma_prefix_unique(leb(n), leb(size as nat), rem);
                }
            }
        @*/

        /*@fn sbor/src/decoder.rs :: trait Decoder<X: CustomValueKind>: Sized :: fn read_value_kind
        @sig
            requires wf_at(old(self).input(), old(self).pos())
            ensures
                wf_at(final(self).input(), final(self).pos()), final(self).input() == old(self).input(), final(self).depths() == old(self).depths(), final(self).pos() >= old(self).pos(),
                ret is Ok <==> old(self).pos() < old(self).input().len() && byte_kind::<X>(old(self).input()[old(self).pos()]) is Some,
                ret matches Ok(k) ==> Some(k) == byte_kind::<X>(old(self).input()[old(self).pos()]) && final(self).pos() == old(self).pos() + 1,
                ret matches Err(e) ==> e == (if old(self).pos() < old(self).input().len() { DecodeError::UnknownValueKind(old(self).input()[old(self).pos()]) }
                    else { DecodeError::BufferUnderflow { required: 1, remaining: 0 } })
        @*/
        /*@fn sbor/src/decoder.rs :: trait Decoder<X: CustomValueKind>: Sized :: fn read_discriminator
        @sig
            requires wf_at(old(self).input(), old(self).pos())
            ensures
                wf_at(final(self).input(), final(self).pos()), final(self).input() == old(self).input(), final(self).depths() == old(self).depths(), final(self).pos() >= old(self).pos(),
                ret is Ok <==> old(self).pos() < old(self).input().len(),
                ret matches Ok(b) ==> b == old(self).input()[old(self).pos()] && final(self).pos() == old(self).pos() + 1,
                ret matches Err(e) ==> e == (DecodeError::BufferUnderflow { required: 1, remaining: 0 })
        @*/
        /*@fn sbor/src/decoder.rs :: trait Decoder<X: CustomValueKind>: Sized :: fn check_preloaded_value_kind
        @sig
            ensures
                ret is Ok <==> value_kind == expected,
                ret matches Ok(k) ==> k == value_kind,
                ret matches Err(e) ==> e == (DecodeError::UnexpectedValueKind { expected: kind_byte(expected), actual: kind_byte(value_kind) })
        @*/

        // R12: required method
        fn read_byte(&mut self) -> (ret: Result<u8, DecodeError>)
            requires wf_at(old(self).input(), old(self).pos())
            ensures
                wf_at(final(self).input(), final(self).pos()), final(self).input() == old(self).input(), final(self).depths() == old(self).depths(), final(self).pos() >= old(self).pos(),
                ret is Ok <==> old(self).pos() < old(self).input().len(),
                ret matches Ok(b) ==> b == old(self).input()[old(self).pos()] && final(self).pos() == old(self).pos() + 1,
                ret matches Err(e) ==> final(self).pos() == old(self).pos() && e == (DecodeError::BufferUnderflow { required: 1, remaining: 0 });
    }

    /*@item sbor/src/decoder.rs :: struct VecDecoder
    @*/
    impl<'de, X: CustomValueKind> VecDecoder<'de, X> {
        /*@fn sbor/src/decoder.rs :: impl<'de, X: CustomValueKind> VecDecoder<'de, X> :: fn new
        @sig
            ensures ret.input() == input@, ret.pos() == 0, ret.depths() == (0int, max_depth as int)
        @*/
        /*@fn sbor/src/decoder.rs :: impl<'de, X: CustomValueKind> VecDecoder<'de, X> :: fn require_remaining
        @sig
            requires wf_at(self.input(), self.pos())
            ensures
                ret is Ok <==> n <= self.input().len() - self.pos(),
                ret matches Err(e) ==> e == (DecodeError::BufferUnderflow { required: n, remaining: (self.input().len() - self.pos()) as usize })
        @*/
        /*@fn sbor/src/decoder.rs :: impl<'de, X: CustomValueKind> VecDecoder<'de, X> :: fn remaining_bytes
        @sig
            requires wf_at(self.input(), self.pos())
            ensures ret == self.input().len() - self.pos()
        @*/
        /*@fn sbor/src/decoder.rs :: impl<'de, X: CustomValueKind> VecDecoder<'de, X> :: fn track_stack_depth_increase
        @sig
            requires old(self).depths().0 < usize::MAX
            ensures
                final(self).input() == old(self).input(), final(self).pos() == old(self).pos(),
                final(self).depths() == (old(self).depths().0 + 1, old(self).depths().1),
                ret is Ok <==> old(self).depths().0 < old(self).depths().1,
                ret matches Err(e) ==> e == DecodeError::MaxDepthExceeded(old(self).max_depth)
        @*/
        /*@fn sbor/src/decoder.rs :: impl<'de, X: CustomValueKind> VecDecoder<'de, X> :: fn track_stack_depth_decrease
        @sig
            requires old(self).depths().0 >= 1
            ensures
                final(self).input() == old(self).input(), final(self).pos() == old(self).pos(),
                final(self).depths() == (old(self).depths().0 - 1, old(self).depths().1),
                ret is Ok
        @*/
    }
    impl<'de, X: CustomValueKind> Decoder<X> for VecDecoder<'de, X> {
        /*@fn sbor/src/decoder.rs :: impl<'de, X: CustomValueKind> Decoder<X> for VecDecoder<'de, X> :: fn decode_deeper_body_with_value_kind
        @*/
        /*@fn sbor/src/decoder.rs :: impl<'de, X: CustomValueKind> Decoder<X> for VecDecoder<'de, X> :: fn read_byte
        @*/
    }

    // =============================================================================================
    // the Value codec, decode side (sbor/src/value.rs)
    // =============================================================================================
    /// verbatim body of `impl Decode for Value<X, Y>`, as an inherent associated function (see the encode side)
    impl<X: CustomValueKind, Y: CustomValue<X>> Value<X, Y> {
        #[verifier::exec_allows_no_decreases_clause]
        /*@fn sbor/src/value.rs :: impl<X: CustomValueKind, D: Decoder<X>, Y: Decode<X, D> + CustomValue<X>> Decode<X, D> for Value<X, Y> :: fn decode_body_with_value_kind
        @subst <<fn decode_body_with_value_kind(>> => <<fn decode_body_with_value_kind<D: Decoder<X>>(>> why: impl-level type parameter D of `impl Decode<X, D> for Value<X, Y>` moved to the function (inherent impl); signature only
        @sig
            where Y: Decode<X, D>
            requires wf_dec(old(decoder).input(), old(decoder).pos(), old(decoder).depths())
            ensures dec_body_post(value_kind, old(decoder).input(), old(decoder).pos(), old(decoder).depths(), final(decoder).input(), final(decoder).pos(), final(decoder).depths(), ret)
        @entry
            let ghost inp = decoder.input(); let ghost p0 = decoder.pos(); let ghost d0 = decoder.depths(); let ghost b = budget(decoder.depths());
            proof { if p0 < inp.len() { lemma_kind_bytes::<X>(inp[p0]); } if p0 + 1 < inp.len() { lemma_kind_bytes::<X>(inp[p0 + 1]); } }
        @after <<let length =>> #1
            let ghost hdr = inp.subrange(p0, decoder.pos());
            proof { lemma_prefix_sub(leb(length as nat), inp, p0); }
        @loop 1 iter it
            invariant
                value_kind == ValueKind::<X>::Tuple,
                inp == old(decoder).input(), p0 == old(decoder).pos(), d0 == old(decoder).depths(), b == budget(d0),
                decoder.input() == inp, decoder.depths() == d0, wf_dec(inp, decoder.pos(), d0), 0 <= p0 <= decoder.pos(),
                length <= 0x0FFF_FFFF, vlen::<X, Y>(fields) == it.index@,
                hdr == leb(length as nat),
                inp.subrange(p0, decoder.pos()) =~= hdr + enc_list::<X, Y>(fields, it.index@ as nat, true),
                items_ok::<X, Y>(fields, it.index@ as int, None, b),
        @before <<fields.push(>> #1
            let ghost f0 = fields; let ghost pa = decoder.pos();
        @after <<fields.push(>> #1
            proof {
                lemma_enc_list_prefix::<X, Y>(f0, fields, vlen::<X, Y>(f0), true);
                assert(inp.subrange(p0, decoder.pos()) =~= inp.subrange(p0, pa) + inp.subrange(pa, decoder.pos()));
            }
        @after <<let discriminator =>> #1
            proof { assert(inp.subrange(p0, p0 + 1) =~= seq![discriminator]); }
        @after <<let length =>> #2
            let ghost hdr = inp.subrange(p0, decoder.pos());
            proof {
                lemma_prefix_sub(leb(length as nat), inp, p0 + 1);
                assert(hdr =~= inp.subrange(p0, p0 + 1) + inp.subrange(p0 + 1, decoder.pos()));
            }
        @loop 2 iter it
            invariant
                value_kind == ValueKind::<X>::Enum,
                inp == old(decoder).input(), p0 == old(decoder).pos(), d0 == old(decoder).depths(), b == budget(d0),
                decoder.input() == inp, decoder.depths() == d0, wf_dec(inp, decoder.pos(), d0), 0 <= p0 <= decoder.pos(),
                length <= 0x0FFF_FFFF, vlen::<X, Y>(fields) == it.index@,
                hdr == seq![discriminator] + leb(length as nat),
                inp.subrange(p0, decoder.pos()) =~= hdr + enc_list::<X, Y>(fields, it.index@ as nat, true),
                items_ok::<X, Y>(fields, it.index@ as int, None, b),
        @before <<fields.push(>> #2
            let ghost f0 = fields; let ghost pa = decoder.pos();
        @after <<fields.push(>> #2
            proof {
                lemma_enc_list_prefix::<X, Y>(f0, fields, vlen::<X, Y>(f0), true);
                assert(inp.subrange(p0, decoder.pos()) =~= inp.subrange(p0, pa) + inp.subrange(pa, decoder.pos()));
            }
        @after <<let element_value_kind =>> #1
            proof { assert(inp.subrange(p0, p0 + 1) =~= seq![kind_byte(element_value_kind)]); }
        @after <<let length =>> #3
            let ghost hdr = inp.subrange(p0, decoder.pos());
            proof {
                lemma_prefix_sub(leb(length as nat), inp, p0 + 1);
                assert(hdr =~= inp.subrange(p0, p0 + 1) + inp.subrange(p0 + 1, decoder.pos()));
            }
        @loop 3 iter it
            invariant
                value_kind == ValueKind::<X>::Array,
                inp == old(decoder).input(), p0 == old(decoder).pos(), d0 == old(decoder).depths(), b == budget(d0),
                decoder.input() == inp, decoder.depths() == d0, wf_dec(inp, decoder.pos(), d0), 0 <= p0 <= decoder.pos(),
                length <= 0x0FFF_FFFF, vlen::<X, Y>(elements) == it.index@,
                hdr == seq![kind_byte(element_value_kind)] + leb(length as nat),
                inp.subrange(p0, decoder.pos()) =~= hdr + enc_list::<X, Y>(elements, it.index@ as nat, false),
                items_ok::<X, Y>(elements, it.index@ as int, Some(element_value_kind), b),
        @before <<elements.push(>> #1
            let ghost f0 = elements; let ghost pa = decoder.pos();
        @after <<elements.push(>> #1
            proof {
                lemma_enc_list_prefix::<X, Y>(f0, elements, vlen::<X, Y>(f0), false);
                assert(inp.subrange(p0, decoder.pos()) =~= inp.subrange(p0, pa) + inp.subrange(pa, decoder.pos()));
            }
        @after <<let value_value_kind =>> #1
            proof { assert(inp.subrange(p0, p0 + 2) =~= seq![kind_byte(key_value_kind)] + seq![kind_byte(value_value_kind)]); }
        @after <<let length =>> #4
            let ghost hdr = inp.subrange(p0, decoder.pos());
            proof {
                lemma_prefix_sub(leb(length as nat), inp, p0 + 2);
                assert(hdr =~= inp.subrange(p0, p0 + 2) + inp.subrange(p0 + 2, decoder.pos()));
            }
        @loop 4 iter it
            invariant
                value_kind == ValueKind::<X>::Map,
                inp == old(decoder).input(), p0 == old(decoder).pos(), d0 == old(decoder).depths(), b == budget(d0),
                decoder.input() == inp, decoder.depths() == d0, wf_dec(inp, decoder.pos(), d0), 0 <= p0 <= decoder.pos(),
                length <= 0x0FFF_FFFF, elen::<X, Y>(entries) == it.index@,
                hdr == seq![kind_byte(key_value_kind)] + seq![kind_byte(value_value_kind)] + leb(length as nat),
                inp.subrange(p0, decoder.pos()) =~= hdr + enc_entries::<X, Y>(entries, it.index@ as nat),
                entries_ok::<X, Y>(entries, it.index@ as int, key_value_kind, value_value_kind, b),
        @before <<entries.push(>> #1
            let ghost f0 = entries; let ghost pa = decoder.pos();
        @after <<entries.push(>> #1
            proof {
                lemma_enc_entries_prefix::<X, Y>(f0, entries, elen::<X, Y>(f0));
                let e = entries@[elen::<X, Y>(f0) as int];
                assert(inp.subrange(pa, decoder.pos()) =~= enc_body(e.0) + enc_body(e.1));
                assert(inp.subrange(p0, decoder.pos()) =~= inp.subrange(p0, pa) + inp.subrange(pa, decoder.pos()));
            }
        @*/
    }

    impl<X: CustomValueKind, D: Decoder<X>> Decode<X, D> for bool {
        /*@fn sbor/src/codec/boolean.rs :: impl<X: CustomValueKind, D: Decoder<X>> Decode<X, D> for bool :: fn decode_body_with_value_kind
        @*/
    }
    impl<X: CustomValueKind, D: Decoder<X>> Decode<X, D> for u8 {
        /*@fn sbor/src/codec/integer.rs :: impl<X: CustomValueKind, D: Decoder<X>> Decode<X, D> for u8 :: fn decode_body_with_value_kind
        @*/
    }


    // =============================================================================================
    // the two custom extensions of radix-common obey the CustomValueKind law (bodies extracted)
    // =============================================================================================
    /*@item radix-common/src/data/scrypto/custom_value_kind.rs :: const VALUE_KIND_REFERENCE
    @*/
    /*@item radix-common/src/data/scrypto/custom_value_kind.rs :: const VALUE_KIND_OWN
    @*/
    /*@item radix-common/src/data/scrypto/custom_value_kind.rs :: const VALUE_KIND_DECIMAL
    @*/
    /*@item radix-common/src/data/scrypto/custom_value_kind.rs :: const VALUE_KIND_PRECISE_DECIMAL
    @*/
    /*@item radix-common/src/data/scrypto/custom_value_kind.rs :: const VALUE_KIND_NON_FUNGIBLE_LOCAL_ID
    @*/
    /*@item radix-common/src/data/scrypto/custom_value_kind.rs :: enum ScryptoCustomValueKind
    @derive Copy, Clone, PartialEq, Eq
    @*/
    impl CustomValueKind for ScryptoCustomValueKind {
        open spec fn as_u8_spec(&self) -> u8 {
            match *self {
                ScryptoCustomValueKind::Reference => 0x80, ScryptoCustomValueKind::Own => 0x90, ScryptoCustomValueKind::Decimal => 0xa0,
                ScryptoCustomValueKind::PreciseDecimal => 0xb0, ScryptoCustomValueKind::NonFungibleLocalId => 0xc0,
            }
        }
        open spec fn from_u8_spec(id: u8) -> Option<Self> {
            if id == 0x80 { Some(ScryptoCustomValueKind::Reference) } else if id == 0x90 { Some(ScryptoCustomValueKind::Own) }
            else if id == 0xa0 { Some(ScryptoCustomValueKind::Decimal) } else if id == 0xb0 { Some(ScryptoCustomValueKind::PreciseDecimal) }
            else if id == 0xc0 { Some(ScryptoCustomValueKind::NonFungibleLocalId) } else { None }
        }
        /*@fn radix-common/src/data/scrypto/custom_value_kind.rs :: impl CustomValueKind for ScryptoCustomValueKind :: fn as_u8
        @*/
        /*@fn radix-common/src/data/scrypto/custom_value_kind.rs :: impl CustomValueKind for ScryptoCustomValueKind :: fn from_u8
        @*/
        proof fn law_as_from(x: Self) {}
        proof fn law_from_as(id: u8) {}
    }
    /*@item radix-common/src/data/manifest/custom_value_kind.rs :: const MANIFEST_VALUE_KIND_ADDRESS
    @*/
    /*@item radix-common/src/data/manifest/custom_value_kind.rs :: const MANIFEST_VALUE_KIND_BUCKET
    @*/
    /*@item radix-common/src/data/manifest/custom_value_kind.rs :: const MANIFEST_VALUE_KIND_PROOF
    @*/
    /*@item radix-common/src/data/manifest/custom_value_kind.rs :: const MANIFEST_VALUE_KIND_EXPRESSION
    @*/
    /*@item radix-common/src/data/manifest/custom_value_kind.rs :: const MANIFEST_VALUE_KIND_BLOB
    @*/
    /*@item radix-common/src/data/manifest/custom_value_kind.rs :: const MANIFEST_VALUE_KIND_DECIMAL
    @*/
    /*@item radix-common/src/data/manifest/custom_value_kind.rs :: const MANIFEST_VALUE_KIND_PRECISE_DECIMAL
    @*/
    /*@item radix-common/src/data/manifest/custom_value_kind.rs :: const MANIFEST_VALUE_KIND_NON_FUNGIBLE_LOCAL_ID
    @*/
    /*@item radix-common/src/data/manifest/custom_value_kind.rs :: const MANIFEST_VALUE_KIND_ADDRESS_RESERVATION
    @*/
    /*@item radix-common/src/data/manifest/custom_value_kind.rs :: enum ManifestCustomValueKind
    @derive Copy, Clone, PartialEq, Eq
    @*/
    impl CustomValueKind for ManifestCustomValueKind {
        open spec fn as_u8_spec(&self) -> u8 {
            match *self {
                ManifestCustomValueKind::Address => 0x80, ManifestCustomValueKind::Bucket => 0x81,
                ManifestCustomValueKind::Proof => 0x82, ManifestCustomValueKind::Expression => 0x83,
                ManifestCustomValueKind::Blob => 0x84, ManifestCustomValueKind::Decimal => 0x85,
                ManifestCustomValueKind::PreciseDecimal => 0x86, ManifestCustomValueKind::NonFungibleLocalId => 0x87,
                ManifestCustomValueKind::AddressReservation => 0x88,
            }
        }
        open spec fn from_u8_spec(id: u8) -> Option<Self> {
            if id == 0x80 { Some(ManifestCustomValueKind::Address) } else if id == 0x81 { Some(ManifestCustomValueKind::Bucket) }
            else if id == 0x82 { Some(ManifestCustomValueKind::Proof) } else if id == 0x83 { Some(ManifestCustomValueKind::Expression) }
            else if id == 0x84 { Some(ManifestCustomValueKind::Blob) } else if id == 0x85 { Some(ManifestCustomValueKind::Decimal) }
            else if id == 0x86 { Some(ManifestCustomValueKind::PreciseDecimal) } else if id == 0x87 { Some(ManifestCustomValueKind::NonFungibleLocalId) }
            else if id == 0x88 { Some(ManifestCustomValueKind::AddressReservation) } else { None }
        }
        /*@fn radix-common/src/data/manifest/custom_value_kind.rs :: impl CustomValueKind for ManifestCustomValueKind :: fn as_u8
        @*/
        /*@fn radix-common/src/data/manifest/custom_value_kind.rs :: impl CustomValueKind for ManifestCustomValueKind :: fn from_u8
        @*/
        proof fn law_as_from(x: Self) {}
        proof fn law_from_as(id: u8) {}
    }


    // =============================================================================================
    // PREFIX-FREENESS of the wire format (spec level): the SAFETY half of the round trip
    // =============================================================================================
    pub proof fn lemma_prefix_left(x: Seq<u8>, y: Seq<u8>, z: Seq<u8>)
        requires is_prefix(x + y, z)
        ensures is_prefix(x, z)
    {
        assert forall|j: int| 0 <= j < x.len() implies x[j] == z[j] by { assert((x + y)[j] == x[j]); }
    }
    pub proof fn lemma_prefix_strip(x: Seq<u8>, y: Seq<u8>, w: Seq<u8>)
        requires is_prefix(x + y, x + w)
        ensures is_prefix(y, w)
    {
        assert forall|j: int| 0 <= j < y.len() implies y[j] == w[j] by {
            assert((x + y)[x.len() + j] == y[j]);
            assert((x + w)[x.len() + j] == w[j]);
        }
    }
    pub proof fn lemma_prefix_same_len(x: Seq<u8>, y: Seq<u8>, tail: Seq<u8>)
        requires is_prefix(x, y + tail), x.len() == y.len()
        ensures x == y
    {
        assert forall|j: int| 0 <= j < x.len() implies x[j] == y[j] by { assert((y + tail)[j] == y[j]); }
        assert(x =~= y);
    }
    /// one header byte in front of both sides
    pub proof fn lemma_hdr_byte(x: u8, y: u8, p: Seq<u8>, q: Seq<u8>)
        requires is_prefix(seq![x] + p, seq![y] + q)
        ensures x == y, is_prefix(p, q)
    {
        assert((seq![x] + p)[0] == x);
        assert((seq![y] + q)[0] == y);
        lemma_prefix_strip(seq![x], p, q);
    }
    /// a size prefix in front of both sides
    pub proof fn lemma_hdr_leb(n: nat, m: nat, p: Seq<u8>, q: Seq<u8>)
        requires is_prefix(leb(n) + p, leb(m) + q)
        ensures n == m, is_prefix(p, q)
    {
        lemma_prefix_left(leb(n), p, leb(m) + q);
        lemma_leb_unique(n, m, q);
        lemma_prefix_strip(leb(n), p, q);
    }
    pub open spec fn pow256(k: nat) -> nat
        decreases k
    {
        if k == 0 { 1 } else { 256 * pow256((k - 1) as nat) }
    }
    pub proof fn lemma_pow256()
        ensures pow256(1) == 0x100, pow256(2) == 0x1_0000, pow256(4) == 0x1_0000_0000, pow256(8) == 0x1_0000_0000_0000_0000,
            pow256(16) == 0x1_0000_0000_0000_0000int * 0x1_0000_0000_0000_0000int,
    {
        reveal_with_fuel(pow256, 5);
        assert(pow256(4) == 0x1_0000_0000);
        assert(pow256(8) == 256 * (256 * (256 * (256 * pow256(4)))));
        assert(pow256(12) == 256 * (256 * (256 * (256 * pow256(8)))));
        assert(pow256(16) == 256 * (256 * (256 * (256 * pow256(12)))));
    }
    pub proof fn lemma_le_len(n: nat, k: nat)
        ensures le_bytes(n, k).len() == k
        decreases k
    {
        if k > 0 { lemma_le_len(n / 256, (k - 1) as nat); }
    }
    pub proof fn lemma_le_inj(n: nat, m: nat, k: nat)
        requires n < pow256(k), m < pow256(k), le_bytes(n, k) == le_bytes(m, k)
        ensures n == m
        decreases k
    {
        if k > 0 {
            let a = le_bytes(n, k); let b = le_bytes(m, k);
            let ta = le_bytes(n / 256, (k - 1) as nat); let tb = le_bytes(m / 256, (k - 1) as nat);
            assert(a == seq![(n % 256) as u8] + ta);
            assert(b == seq![(m % 256) as u8] + tb);
            assert(a[0] == (n % 256) as u8);
            assert(b[0] == (m % 256) as u8);
            assert(ta =~= a.subrange(1, a.len() as int));
            assert(tb =~= b.subrange(1, b.len() as int));
            let pk = pow256((k - 1) as nat);
            assert(n / 256 < pk) by (nonlinear_arith) requires n < 256 * pk;
            assert(m / 256 < pk) by (nonlinear_arith) requires m < 256 * pk;
            lemma_le_inj(n / 256, m / 256, (k - 1) as nat);
        }
    }
    /// fixed-width little-endian integers: a prefix-free (and injective) code
    pub proof fn lemma_int_prefix(n: nat, m: nat, k: nat, tail: Seq<u8>)
        requires n < pow256(k), m < pow256(k), is_prefix(le_bytes(n, k), le_bytes(m, k) + tail)
        ensures n == m
    {
        lemma_le_len(n, k); lemma_le_len(m, k);
        lemma_prefix_same_len(le_bytes(n, k), le_bytes(m, k), tail);
        lemma_le_inj(n, m, k);
    }
    pub proof fn lemma_twos(v1: int, v2: int, modulus: int)
        requires -modulus <= 2 * v1 < modulus, -modulus <= 2 * v2 < modulus, modulus > 0
        ensures twos(v1, modulus) < modulus, twos(v1, modulus) == twos(v2, modulus) ==> v1 == v2
    {
    }

    /// structural equality of values (Vec has no extensional equality in Verus); strings are compared by their UTF-8 bytes
    pub open spec fn veq<X: CustomValueKind, Y: CustomValue<X>>(a: Value<X, Y>, b: Value<X, Y>) -> bool
        decreases a
    {
        match a {
            Value::Bool { value } => b is Bool && b->Bool_value == value,
            Value::I8 { value } => b is I8 && b->I8_value == value,
            Value::I16 { value } => b is I16 && b->I16_value == value,
            Value::I32 { value } => b is I32 && b->I32_value == value,
            Value::I64 { value } => b is I64 && b->I64_value == value,
            Value::I128 { value } => b is I128 && b->I128_value == value,
            Value::U8 { value } => b is U8 && b->U8_value == value,
            Value::U16 { value } => b is U16 && b->U16_value == value,
            Value::U32 { value } => b is U32 && b->U32_value == value,
            Value::U64 { value } => b is U64 && b->U64_value == value,
            Value::U128 { value } => b is U128 && b->U128_value == value,
            Value::String { value } => b is String && str_bytes(b->String_value) == str_bytes(value),
            Value::Enum { discriminator, fields } => b is Enum && b->Enum_discriminator == discriminator && b->Enum_fields@.len() == fields@.len()
                && forall|j: int| 0 <= j < fields@.len() ==> veq(#[trigger] fields@[j], b->Enum_fields@[j]),
            Value::Array { element_value_kind, elements } => b is Array && b->Array_element_value_kind == element_value_kind
                && b->Array_elements@.len() == elements@.len()
                && forall|j: int| 0 <= j < elements@.len() ==> veq(#[trigger] elements@[j], b->Array_elements@[j]),
            Value::Tuple { fields } => b is Tuple && b->Tuple_fields@.len() == fields@.len()
                && forall|j: int| 0 <= j < fields@.len() ==> veq(#[trigger] fields@[j], b->Tuple_fields@[j]),
            Value::Map { key_value_kind, value_value_kind, entries } => b is Map && b->Map_key_value_kind == key_value_kind
                && b->Map_value_value_kind == value_value_kind && b->Map_entries@.len() == entries@.len()
                && forall|j: int| 0 <= j < entries@.len() ==> veq((#[trigger] entries@[j]).0, b->Map_entries@[j].0) && veq(entries@[j].1, b->Map_entries@[j].1),
            Value::Custom { value } => b is Custom && value.same(&b->Custom_value),
        }
    }

    /// PREFIX-FREENESS: among the encodable values of one kind no body is a proper prefix of another, and equal bodies
    /// mean equal values. (For custom values this is the assumed law CustomValue::law_prefix_free.)
    pub proof fn lemma_prefix_free<X: CustomValueKind, Y: CustomValue<X>>(a: Value<X, Y>, b: Value<X, Y>, ba: int, bb: int, tail: Seq<u8>)
        requires kind_of(a) == kind_of(b), encodable(a, ba), encodable(b, bb), is_prefix(enc_body(a), enc_body(b) + tail)
        ensures enc_body(a) == enc_body(b), veq(a, b)
        decreases a, 1nat
    {
        if a is Custom { a->Custom_value.law_kind(); }
        if b is Custom { b->Custom_value.law_kind(); }
        if a is Bool { lemma_pf_bool(a, b, ba, bb, tail); }
        else if a is I8 { lemma_pf_i8(a, b, ba, bb, tail); }
        else if a is U8 { lemma_pf_u8(a, b, ba, bb, tail); }
        else if a is I16 { lemma_pf_i16(a, b, ba, bb, tail); }
        else if a is I32 { lemma_pf_i32(a, b, ba, bb, tail); }
        else if a is I64 { lemma_pf_i64(a, b, ba, bb, tail); }
        else if a is I128 { lemma_pf_i128(a, b, ba, bb, tail); }
        else if a is U16 { lemma_pf_u16(a, b, ba, bb, tail); }
        else if a is U32 { lemma_pf_u32(a, b, ba, bb, tail); }
        else if a is U64 { lemma_pf_u64(a, b, ba, bb, tail); }
        else if a is U128 { lemma_pf_u128(a, b, ba, bb, tail); }
        else if a is String { lemma_pf_string(a, b, ba, bb, tail); }
        else if a is Tuple { lemma_pf_tuple(a, b, ba, bb, tail); }
        else if a is Enum { lemma_pf_enum(a, b, ba, bb, tail); }
        else if a is Array { lemma_pf_array(a, b, ba, bb, tail); }
        else if a is Map { lemma_pf_map(a, b, ba, bb, tail); }
        else if a is Custom { lemma_pf_custom(a, b, ba, bb, tail); }
    }
    pub proof fn lemma_pf_bool<X: CustomValueKind, Y: CustomValue<X>>(a: Value<X, Y>, b: Value<X, Y>, ba: int, bb: int, tail: Seq<u8>)
        requires kind_of(a) == kind_of(b), encodable(a, ba), encodable(b, bb), is_prefix(enc_body(a), enc_body(b) + tail), a is Bool, b is Bool
        ensures enc_body(a) == enc_body(b), veq(a, b)
    {
        lemma_pow256();
        let ea = enc_body(a); let eb = enc_body(b);
        assert(ea[0] == (eb + tail)[0]);
        assert(ea =~= eb);
    }
    pub proof fn lemma_pf_i8<X: CustomValueKind, Y: CustomValue<X>>(a: Value<X, Y>, b: Value<X, Y>, ba: int, bb: int, tail: Seq<u8>)
        requires kind_of(a) == kind_of(b), encodable(a, ba), encodable(b, bb), is_prefix(enc_body(a), enc_body(b) + tail), a is I8, b is I8
        ensures enc_body(a) == enc_body(b), veq(a, b)
    {
        lemma_pow256();
        let ea = enc_body(a); let eb = enc_body(b);
        assert(ea[0] == (eb + tail)[0]);
        lemma_twos(a->I8_value as int, b->I8_value as int, 0x100);
        assert(ea =~= eb);
    }
    pub proof fn lemma_pf_u8<X: CustomValueKind, Y: CustomValue<X>>(a: Value<X, Y>, b: Value<X, Y>, ba: int, bb: int, tail: Seq<u8>)
        requires kind_of(a) == kind_of(b), encodable(a, ba), encodable(b, bb), is_prefix(enc_body(a), enc_body(b) + tail), a is U8, b is U8
        ensures enc_body(a) == enc_body(b), veq(a, b)
    {
        lemma_pow256();
        let ea = enc_body(a); let eb = enc_body(b);
        assert(ea[0] == (eb + tail)[0]);
        assert(ea =~= eb);
    }
    pub proof fn lemma_pf_i16<X: CustomValueKind, Y: CustomValue<X>>(a: Value<X, Y>, b: Value<X, Y>, ba: int, bb: int, tail: Seq<u8>)
        requires kind_of(a) == kind_of(b), encodable(a, ba), encodable(b, bb), is_prefix(enc_body(a), enc_body(b) + tail), a is I16, b is I16
        ensures enc_body(a) == enc_body(b), veq(a, b)
    {
        lemma_pow256();
        let ea = enc_body(a); let eb = enc_body(b);
        lemma_twos(a->I16_value as int, b->I16_value as int, 0x1_0000);
        lemma_twos(b->I16_value as int, a->I16_value as int, 0x1_0000);
        lemma_int_prefix(twos(a->I16_value as int, 0x1_0000), twos(b->I16_value as int, 0x1_0000), 2, tail);
    }
    pub proof fn lemma_pf_i32<X: CustomValueKind, Y: CustomValue<X>>(a: Value<X, Y>, b: Value<X, Y>, ba: int, bb: int, tail: Seq<u8>)
        requires kind_of(a) == kind_of(b), encodable(a, ba), encodable(b, bb), is_prefix(enc_body(a), enc_body(b) + tail), a is I32, b is I32
        ensures enc_body(a) == enc_body(b), veq(a, b)
    {
        lemma_pow256();
        let ea = enc_body(a); let eb = enc_body(b);
        lemma_twos(a->I32_value as int, b->I32_value as int, 0x1_0000_0000);
        lemma_twos(b->I32_value as int, a->I32_value as int, 0x1_0000_0000);
        lemma_int_prefix(twos(a->I32_value as int, 0x1_0000_0000), twos(b->I32_value as int, 0x1_0000_0000), 4, tail);
    }
    pub proof fn lemma_pf_i64<X: CustomValueKind, Y: CustomValue<X>>(a: Value<X, Y>, b: Value<X, Y>, ba: int, bb: int, tail: Seq<u8>)
        requires kind_of(a) == kind_of(b), encodable(a, ba), encodable(b, bb), is_prefix(enc_body(a), enc_body(b) + tail), a is I64, b is I64
        ensures enc_body(a) == enc_body(b), veq(a, b)
    {
        lemma_pow256();
        let ea = enc_body(a); let eb = enc_body(b);
        lemma_twos(a->I64_value as int, b->I64_value as int, 0x1_0000_0000_0000_0000);
        lemma_twos(b->I64_value as int, a->I64_value as int, 0x1_0000_0000_0000_0000);
        lemma_int_prefix(twos(a->I64_value as int, 0x1_0000_0000_0000_0000), twos(b->I64_value as int, 0x1_0000_0000_0000_0000), 8, tail);
    }
    pub proof fn lemma_pf_i128<X: CustomValueKind, Y: CustomValue<X>>(a: Value<X, Y>, b: Value<X, Y>, ba: int, bb: int, tail: Seq<u8>)
        requires kind_of(a) == kind_of(b), encodable(a, ba), encodable(b, bb), is_prefix(enc_body(a), enc_body(b) + tail), a is I128, b is I128
        ensures enc_body(a) == enc_body(b), veq(a, b)
    {
        lemma_pow256();
        let ea = enc_body(a); let eb = enc_body(b);
        let m = 0x1_0000_0000_0000_0000int * 0x1_0000_0000_0000_0000int;
        lemma_twos(a->I128_value as int, b->I128_value as int, m);
        lemma_twos(b->I128_value as int, a->I128_value as int, m);
        lemma_int_prefix(twos(a->I128_value as int, m), twos(b->I128_value as int, m), 16, tail);
    }
    pub proof fn lemma_pf_u16<X: CustomValueKind, Y: CustomValue<X>>(a: Value<X, Y>, b: Value<X, Y>, ba: int, bb: int, tail: Seq<u8>)
        requires kind_of(a) == kind_of(b), encodable(a, ba), encodable(b, bb), is_prefix(enc_body(a), enc_body(b) + tail), a is U16, b is U16
        ensures enc_body(a) == enc_body(b), veq(a, b)
    {
        lemma_pow256();
        let ea = enc_body(a); let eb = enc_body(b);
        lemma_int_prefix(a->U16_value as nat, b->U16_value as nat, 2, tail);
    }
    pub proof fn lemma_pf_u32<X: CustomValueKind, Y: CustomValue<X>>(a: Value<X, Y>, b: Value<X, Y>, ba: int, bb: int, tail: Seq<u8>)
        requires kind_of(a) == kind_of(b), encodable(a, ba), encodable(b, bb), is_prefix(enc_body(a), enc_body(b) + tail), a is U32, b is U32
        ensures enc_body(a) == enc_body(b), veq(a, b)
    {
        lemma_pow256();
        let ea = enc_body(a); let eb = enc_body(b);
        lemma_int_prefix(a->U32_value as nat, b->U32_value as nat, 4, tail);
    }
    pub proof fn lemma_pf_u64<X: CustomValueKind, Y: CustomValue<X>>(a: Value<X, Y>, b: Value<X, Y>, ba: int, bb: int, tail: Seq<u8>)
        requires kind_of(a) == kind_of(b), encodable(a, ba), encodable(b, bb), is_prefix(enc_body(a), enc_body(b) + tail), a is U64, b is U64
        ensures enc_body(a) == enc_body(b), veq(a, b)
    {
        lemma_pow256();
        let ea = enc_body(a); let eb = enc_body(b);
        lemma_int_prefix(a->U64_value as nat, b->U64_value as nat, 8, tail);
    }
    pub proof fn lemma_pf_u128<X: CustomValueKind, Y: CustomValue<X>>(a: Value<X, Y>, b: Value<X, Y>, ba: int, bb: int, tail: Seq<u8>)
        requires kind_of(a) == kind_of(b), encodable(a, ba), encodable(b, bb), is_prefix(enc_body(a), enc_body(b) + tail), a is U128, b is U128
        ensures enc_body(a) == enc_body(b), veq(a, b)
    {
        lemma_pow256();
        let ea = enc_body(a); let eb = enc_body(b);
        lemma_int_prefix(a->U128_value as nat, b->U128_value as nat, 16, tail);
    }
    pub proof fn lemma_pf_string<X: CustomValueKind, Y: CustomValue<X>>(a: Value<X, Y>, b: Value<X, Y>, ba: int, bb: int, tail: Seq<u8>)
        requires kind_of(a) == kind_of(b), encodable(a, ba), encodable(b, bb), is_prefix(enc_body(a), enc_body(b) + tail), a is String, b is String
        ensures enc_body(a) == enc_body(b), veq(a, b)
    {
        lemma_pow256();
        let ea = enc_body(a); let eb = enc_body(b);
        let sa = str_bytes(a->String_value); let sb = str_bytes(b->String_value);
        assert(eb + tail =~= leb(sb.len()) + (sb + tail));
        lemma_hdr_leb(sa.len(), sb.len(), sa, sb + tail);
        lemma_prefix_same_len(sa, sb, tail);
    }
    pub proof fn lemma_pf_tuple<X: CustomValueKind, Y: CustomValue<X>>(a: Value<X, Y>, b: Value<X, Y>, ba: int, bb: int, tail: Seq<u8>)
        requires kind_of(a) == kind_of(b), encodable(a, ba), encodable(b, bb), is_prefix(enc_body(a), enc_body(b) + tail), a is Tuple, b is Tuple
        ensures enc_body(a) == enc_body(b), veq(a, b)
        decreases a, 0nat
    {
        lemma_pow256();
        let ea = enc_body(a); let eb = enc_body(b);
        let fa = a->Tuple_fields; let fb = b->Tuple_fields;
        let la = enc_list(fa, fa@.len(), true); let lb = enc_list(fb, fb@.len(), true);
        assert(eb + tail =~= leb(fb@.len()) + (lb + tail));
        lemma_hdr_leb(fa@.len(), fb@.len(), la, lb + tail);
        assert forall|j: int| 0 <= j < fa@.len() implies encodable(#[trigger] fa@[j], ba - 1) by { let x = fa@[j]; }
        assert forall|j: int| 0 <= j < fb@.len() implies encodable(#[trigger] fb@[j], bb - 1) by { let x = fb@[j]; }
        lemma_list_prefix_free(fa, fb, fa@.len(), true, ba - 1, bb - 1, tail);
    }
    pub proof fn lemma_pf_enum<X: CustomValueKind, Y: CustomValue<X>>(a: Value<X, Y>, b: Value<X, Y>, ba: int, bb: int, tail: Seq<u8>)
        requires kind_of(a) == kind_of(b), encodable(a, ba), encodable(b, bb), is_prefix(enc_body(a), enc_body(b) + tail), a is Enum, b is Enum
        ensures enc_body(a) == enc_body(b), veq(a, b)
        decreases a, 0nat
    {
        lemma_pow256();
        let ea = enc_body(a); let eb = enc_body(b);
        let fa = a->Enum_fields; let fb = b->Enum_fields;
        let la = enc_list(fa, fa@.len(), true); let lb = enc_list(fb, fb@.len(), true);
        assert(ea =~= seq![a->Enum_discriminator] + (leb(fa@.len()) + la));
        assert(eb + tail =~= seq![b->Enum_discriminator] + (leb(fb@.len()) + (lb + tail)));
        lemma_hdr_byte(a->Enum_discriminator, b->Enum_discriminator, leb(fa@.len()) + la, leb(fb@.len()) + (lb + tail));
        lemma_hdr_leb(fa@.len(), fb@.len(), la, lb + tail);
        assert forall|j: int| 0 <= j < fa@.len() implies encodable(#[trigger] fa@[j], ba - 1) by { let x = fa@[j]; }
        assert forall|j: int| 0 <= j < fb@.len() implies encodable(#[trigger] fb@[j], bb - 1) by { let x = fb@[j]; }
        lemma_list_prefix_free(fa, fb, fa@.len(), true, ba - 1, bb - 1, tail);
    }
    pub proof fn lemma_pf_array<X: CustomValueKind, Y: CustomValue<X>>(a: Value<X, Y>, b: Value<X, Y>, ba: int, bb: int, tail: Seq<u8>)
        requires kind_of(a) == kind_of(b), encodable(a, ba), encodable(b, bb), is_prefix(enc_body(a), enc_body(b) + tail), a is Array, b is Array
        ensures enc_body(a) == enc_body(b), veq(a, b)
        decreases a, 0nat
    {
        lemma_pow256();
        let ea = enc_body(a); let eb = enc_body(b);
        let fa = a->Array_elements; let fb = b->Array_elements;
        let ka = a->Array_element_value_kind; let kb = b->Array_element_value_kind;
        let la = enc_list(fa, fa@.len(), false); let lb = enc_list(fb, fb@.len(), false);
        assert(ea =~= seq![kind_byte(ka)] + (leb(fa@.len()) + la));
        assert(eb + tail =~= seq![kind_byte(kb)] + (leb(fb@.len()) + (lb + tail)));
        lemma_hdr_byte(kind_byte(ka), kind_byte(kb), leb(fa@.len()) + la, leb(fb@.len()) + (lb + tail));
        lemma_byte_kinds(ka); lemma_byte_kinds(kb);
        lemma_hdr_leb(fa@.len(), fb@.len(), la, lb + tail);
        assert forall|j: int| 0 <= j < fa@.len() implies encodable(#[trigger] fa@[j], ba - 1) && kind_of(fa@[j]) == ka by { let x = fa@[j]; }
        assert forall|j: int| 0 <= j < fb@.len() implies encodable(#[trigger] fb@[j], bb - 1) && kind_of(fb@[j]) == kb by { let x = fb@[j]; }
        lemma_list_prefix_free(fa, fb, fa@.len(), false, ba - 1, bb - 1, tail);
    }
    pub proof fn lemma_pf_map<X: CustomValueKind, Y: CustomValue<X>>(a: Value<X, Y>, b: Value<X, Y>, ba: int, bb: int, tail: Seq<u8>)
        requires kind_of(a) == kind_of(b), encodable(a, ba), encodable(b, bb), is_prefix(enc_body(a), enc_body(b) + tail), a is Map, b is Map
        ensures enc_body(a) == enc_body(b), veq(a, b)
        decreases a, 0nat
    {
        lemma_pow256();
        let ea = enc_body(a); let eb = enc_body(b);
        let fa = a->Map_entries; let fb = b->Map_entries;
        let ka = a->Map_key_value_kind; let kb = b->Map_key_value_kind;
        let va = a->Map_value_value_kind; let vb = b->Map_value_value_kind;
        let la = enc_entries(fa, fa@.len()); let lb = enc_entries(fb, fb@.len());
        assert(ea =~= seq![kind_byte(ka)] + (seq![kind_byte(va)] + (leb(fa@.len()) + la)));
        assert(eb + tail =~= seq![kind_byte(kb)] + (seq![kind_byte(vb)] + (leb(fb@.len()) + (lb + tail))));
        lemma_hdr_byte(kind_byte(ka), kind_byte(kb), seq![kind_byte(va)] + (leb(fa@.len()) + la), seq![kind_byte(vb)] + (leb(fb@.len()) + (lb + tail)));
        lemma_hdr_byte(kind_byte(va), kind_byte(vb), leb(fa@.len()) + la, leb(fb@.len()) + (lb + tail));
        lemma_byte_kinds(ka); lemma_byte_kinds(kb); lemma_byte_kinds(va); lemma_byte_kinds(vb);
        lemma_hdr_leb(fa@.len(), fb@.len(), la, lb + tail);
        assert forall|j: int| 0 <= j < fa@.len() implies encodable((#[trigger] fa@[j]).0, ba - 1) && encodable(fa@[j].1, ba - 1)
            && kind_of(fa@[j].0) == ka && kind_of(fa@[j].1) == va by { let x = fa@[j]; }
        assert forall|j: int| 0 <= j < fb@.len() implies encodable((#[trigger] fb@[j]).0, bb - 1) && encodable(fb@[j].1, bb - 1)
            && kind_of(fb@[j].0) == kb && kind_of(fb@[j].1) == vb by { let x = fb@[j]; }
        lemma_entries_prefix_free(fa, fb, fa@.len(), ba - 1, bb - 1, tail);
    }
    pub proof fn lemma_pf_custom<X: CustomValueKind, Y: CustomValue<X>>(a: Value<X, Y>, b: Value<X, Y>, ba: int, bb: int, tail: Seq<u8>)
        requires kind_of(a) == kind_of(b), encodable(a, ba), encodable(b, bb), is_prefix(enc_body(a), enc_body(b) + tail), a is Custom, b is Custom
        ensures enc_body(a) == enc_body(b), veq(a, b)
    {
        lemma_pow256();
        let ea = enc_body(a); let eb = enc_body(b);
        a->Custom_value.law_prefix_free(&b->Custom_value, ba, bb, tail);
    }
    pub proof fn lemma_list_prefix_free<X: CustomValueKind, Y: CustomValue<X>>(a: Vec<Value<X, Y>>, b: Vec<Value<X, Y>>, n: nat, wk: bool, ba: int, bb: int, tail: Seq<u8>)
        requires
            n <= a@.len(), n <= b@.len(),
            forall|j: int| 0 <= j < n ==> encodable(#[trigger] a@[j], ba),
            forall|j: int| 0 <= j < n ==> encodable(#[trigger] b@[j], bb),
            !wk ==> forall|j: int| 0 <= j < n ==> kind_of(#[trigger] a@[j]) == kind_of(b@[j]),
            is_prefix(enc_list(a, n, wk), enc_list(b, n, wk) + tail),
        ensures
            enc_list(a, n, wk) == enc_list(b, n, wk),
            forall|j: int| 0 <= j < n ==> veq(#[trigger] a@[j], b@[j]),
        decreases a, n
    {
        if n > 0 {
            let m = (n - 1) as nat;
            let x = a@[m as int]; let y = b@[m as int];
            let ka = if wk { seq![kind_byte(kind_of(x))] } else { Seq::<u8>::empty() };
            let kb = if wk { seq![kind_byte(kind_of(y))] } else { Seq::<u8>::empty() };
            let pa = enc_list(a, m, wk); let pb = enc_list(b, m, wk);
            assert(enc_list(a, n, wk) == pa + ka + enc_body(x));
            assert(enc_list(b, n, wk) == pb + kb + enc_body(y));
            let t1 = kb + (enc_body(y) + tail);
            assert(enc_list(b, n, wk) + tail =~= pb + t1);
            assert(enc_list(a, n, wk) =~= pa + (ka + enc_body(x)));
            lemma_prefix_left(pa, ka + enc_body(x), pb + t1);
            lemma_list_prefix_free(a, b, m, wk, ba, bb, t1);
            lemma_prefix_strip(pa, ka + enc_body(x), t1);
            if wk {
                lemma_hdr_byte(kind_byte(kind_of(x)), kind_byte(kind_of(y)), enc_body(x), enc_body(y) + tail);
                lemma_byte_kinds(kind_of(x)); lemma_byte_kinds(kind_of(y));
            } else {
                assert(ka + enc_body(x) =~= enc_body(x));
                assert(t1 =~= enc_body(y) + tail);
            }
            lemma_prefix_free(x, y, ba, bb, tail);
            assert forall|j: int| 0 <= j < n implies veq(#[trigger] a@[j], b@[j]) by { if j == m { } }
        }
    }
    pub proof fn lemma_entries_prefix_free<X: CustomValueKind, Y: CustomValue<X>>(a: Vec<(Value<X, Y>, Value<X, Y>)>, b: Vec<(Value<X, Y>, Value<X, Y>)>, n: nat, ba: int, bb: int, tail: Seq<u8>)
        requires
            n <= a@.len(), n <= b@.len(),
            forall|j: int| 0 <= j < n ==> encodable((#[trigger] a@[j]).0, ba) && encodable(a@[j].1, ba),
            forall|j: int| 0 <= j < n ==> encodable((#[trigger] b@[j]).0, bb) && encodable(b@[j].1, bb),
            forall|j: int| 0 <= j < n ==> kind_of((#[trigger] a@[j]).0) == kind_of(b@[j].0) && kind_of(a@[j].1) == kind_of(b@[j].1),
            is_prefix(enc_entries(a, n), enc_entries(b, n) + tail),
        ensures
            enc_entries(a, n) == enc_entries(b, n),
            forall|j: int| 0 <= j < n ==> veq((#[trigger] a@[j]).0, b@[j].0) && veq(a@[j].1, b@[j].1),
        decreases a, n
    {
        if n > 0 {
            let m = (n - 1) as nat;
            let x = a@[m as int]; let y = b@[m as int];
            let pa = enc_entries(a, m); let pb = enc_entries(b, m);
            assert(enc_entries(a, n) == pa + enc_body(x.0) + enc_body(x.1));
            assert(enc_entries(b, n) == pb + enc_body(y.0) + enc_body(y.1));
            let t1 = enc_body(y.0) + (enc_body(y.1) + tail);
            assert(enc_entries(b, n) + tail =~= pb + t1);
            assert(enc_entries(a, n) =~= pa + (enc_body(x.0) + enc_body(x.1)));
            lemma_prefix_left(pa, enc_body(x.0) + enc_body(x.1), pb + t1);
            lemma_entries_prefix_free(a, b, m, ba, bb, t1);
            lemma_prefix_strip(pa, enc_body(x.0) + enc_body(x.1), t1);
            lemma_prefix_left(enc_body(x.0), enc_body(x.1), t1);
            lemma_prefix_free(x.0, y.0, ba, bb, enc_body(y.1) + tail);
            lemma_prefix_strip(enc_body(x.0), enc_body(x.1), enc_body(y.1) + tail);
            lemma_prefix_free(x.1, y.1, ba, bb, tail);
            assert forall|j: int| 0 <= j < n implies veq((#[trigger] a@[j]).0, b@[j].0) && veq(a@[j].1, b@[j].1) by { if j == m { } }
        }
    }

    /// SAFETY half of the round trip (D2, partial): if a decoder meeting the `Decode` contract ACCEPTS an input whose unread part
    /// starts with the body of an encodable value v of the requested kind, then the value it returns equals v (veq) and it has
    /// consumed exactly the bytes of v. (That it does accept such an input -- completeness -- is NOT proved.)
    pub proof fn lemma_decode_returns_encoded<X: CustomValueKind, Y: CustomValue<X>>(k: ValueKind<X>, inp: Seq<u8>, p0: int, p1: int, d0: (int, int), d1: (int, int),
        r: Value<X, Y>, v: Value<X, Y>, bv: int)
        requires
            0 <= p0,
            dec_body_post(k, inp, p0, d0, inp, p1, d1, Ok::<Value<X, Y>, DecodeError>(r)),
            kind_of(v) == k, encodable(v, bv), is_prefix(enc_body(v), rest_of(inp, p0)),
        ensures veq(v, r), p1 == p0 + enc_body(v).len()
    {
        assert(rest_of(inp, p0) =~= inp.subrange(p0, p1) + rest_of(inp, p1));
        lemma_prefix_free(v, r, bv, budget(d0), rest_of(inp, p1));
    }

    // =============================================================================================
    // primitive codecs under contract: bool, i8, u8 (sbor/src/codec/{boolean,integer}.rs)
    // =============================================================================================
    impl<X: CustomValueKind, E: Encoder<X>> Encode<X, E> for bool {
        /*@fn sbor/src/codec/boolean.rs :: impl<X: CustomValueKind, E: Encoder<X>> Encode<X, E> for bool :: fn encode_value_kind
        @*/
        /*@fn sbor/src/codec/boolean.rs :: impl<X: CustomValueKind, E: Encoder<X>> Encode<X, E> for bool :: fn encode_body
        @*/
    }
    impl<X: CustomValueKind, E: Encoder<X>> Encode<X, E> for u8 {
        /*@fn sbor/src/codec/integer.rs :: impl<X: CustomValueKind, E: Encoder<X>> Encode<X, E> for u8 :: fn encode_value_kind
        @*/
        /*@fn sbor/src/codec/integer.rs :: impl<X: CustomValueKind, E: Encoder<X>> Encode<X, E> for u8 :: fn encode_body
        @*/
    }
}
} // verus!
fn main() {}
